"""C06 – computed (ancillary) features always reflect current data and
settings.

R6.1 read-set ⊆ hash-set, specialised per registered recipe (effect analysis
     with a three-valued presence environment; see sa/absint.py)
R6.2 cache protocol of RTDCBase._get_ancillary_feature_data
R6.3 availability (`__contains__`) and access (`__getitem__`) consult the
     same sources under the same conditions
R6.4 emodulus scenario precedence C > B > A from the folded priorities
R6.7 the registry of external look-up tables is write-once (the hash holds
     the LUT identifier only).
R6.5 AncillaryFeature.hash digests req_features, req_config, req_func result
R6.6 plugin features pass their three dependency lists on unchanged;
     temporary features are stored read-only and refresh hierarchy children
"""
from __future__ import annotations

import ast

from ..absint import (ABSENT, PRESENT, UNKNOWN, AbsDict, Evaluator, V,
                      const)
from ..cfg import CFG, branch_facts, guarded_by
from ..core import (AnalysisError, call_name, const_str, dotted, find_calls,
                    is_self_attr, kwarg, last_attr, names_in, short, txt,
                    walk)
from ..normalize import (expand_locals, expand_ref_locals,
                         inline_helpers)

ASSUMPTIONS = [
    "NOT decided: numerical equality of a computed feature with a fresh "
    "dataset's value; correctness of the formulas inside compute functions.",
    "Assumes md5 collision freedom and that recipes with different declared "
    "dependency sets digest different byte strings.",
    "len(mm) and dataset attributes other than features/config (e.g. "
    "_feature_candidates) are not hash ingredients and are not tracked.",
    "Availability ⇔ success is decided only structurally (R6.3); recipes "
    "that raise on inconsistent settings are reported under R6.1 as "
    "'decides between value and exception'.",
]

FA = "dclab/rtdc_dataset/feat_anc_core/"
AF_MODULES = ["af_basic.py", "af_emodulus.py", "af_fl_max_ctc.py",
              "af_image_contour.py", "af_ml_class.py"]
CORE = "dclab/rtdc_dataset/core.py"


# ----------------------------------------------------------------------
# registry folding

class Instance:
    def __init__(self, rel, node, kw):
        self.rel = rel
        self.node = node
        self.feature_name = kw["feature_name"]
        self.method = kw["method"]            # (rel, FunctionDef)
        self.req_features = list(kw.get("req_features") or [])
        self.req_config = [(s, list(k)) for s, k in (kw.get("req_config")
                                                     or [])]
        self.req_func = kw.get("req_func")    # (rel, node) or None
        self.priority = kw.get("priority", 0)
        self.data = kw.get("data")

    @property
    def cfg_keys(self):
        return {(s, k) for s, ks in self.req_config for k in ks}

    @property
    def label(self):
        tag = self.data if isinstance(self.data, str) else "+".join(
            self.req_features) or "-"
        return f"{self.feature_name}[{tag};p{self.priority}]"

    def req_func_name(self):
        if self.req_func is None:
            return None
        return getattr(self.req_func[1], "name", "<lambda>")


def to_py(v, what):
    if v.kind == "const":
        return v.val
    if v.kind in ("list", "tuple"):
        return [to_py(e, what) if isinstance(e, V) else e for e in v.val]
    if v.kind == "func":
        return v.val
    raise AnalysisError(f"cannot fold {what}: {v!r}")


def make_resolver(repo):
    def resolver(rel, name):
        f = repo.func(rel, name, missing_ok=True)
        if f is not None:
            return (rel, f)
        return None
    return resolver


def fold_registry(repo):
    instances = []
    resolver = make_resolver(repo)
    for m in AF_MODULES:
        rel = FA + m
        tree = repo.tree(rel)
        ev = Evaluator(repo, rel, lambda *a: UNKNOWN, resolver=resolver)
        ev.inline_all = True

        def hook(name, args, kwargs, node, st, rel_, _rel=rel):
            if name.split(".")[-1] != "AncillaryFeature":
                return None
            kw = {}
            for k, v in kwargs.items():
                kw[k] = to_py(v, f"{_rel}:{node.lineno} {k}")
            pos = ["feature_name", "method", "req_config", "req_features",
                   "req_func", "priority", "data", "identifier"]
            for p, a in zip(pos, args):
                kw[p] = to_py(a, f"{_rel}:{node.lineno} {p}")
            if "feature_name" not in kw or "method" not in kw:
                raise AnalysisError(
                    f"{_rel}:{node.lineno}: registration without "
                    f"feature_name/method")
            instances.append(Instance(_rel, node, kw))
            return const(None)
        ev.call_hook = hook
        ev.run_module(tree, then_call="register")
    return instances


# ----------------------------------------------------------------------
# R6.1

def analyse_instance(repo, inst, instances, resolver):
    declared_f = set(inst.req_features)
    declared_c = inst.cfg_keys

    def presence(kind, sec, key):
        if kind == "feat":
            return PRESENT if key in declared_f else UNKNOWN
        if kind == "cfg":
            return PRESENT if (sec, key) in declared_c else UNKNOWN
        return UNKNOWN

    higher = [h for h in instances
              if h is not inst and h.feature_name == inst.feature_name
              and h.priority > inst.priority
              and (h.req_func is None
                   or h.req_func_name() == inst.req_func_name())]

    def feasible(assume):
        for h in higher:
            ok = True
            for f in h.req_features:
                if f in declared_f:
                    continue
                if assume.get(("feat", None, f)) is True:
                    continue
                ok = False
                break
            if ok:
                for (s, k) in h.cfg_keys:
                    if (s, k) in declared_c:
                        continue
                    if assume.get(("cfg", s, k)) is True:
                        continue
                    ok = False
                    break
            if ok:
                return False     # h would have been selected instead
        return True

    seen = {}

    def feasible_and_record(assume):
        f = feasible(assume)
        if f:
            for ident, val in assume.items():
                seen.setdefault(ident, set()).add(val)
        return f

    mrel, mfunc = inst.method
    ev = Evaluator(repo, mrel, presence, resolver=resolver,
                   feasible=feasible_and_record)
    ev.run(mfunc)
    # a recipe whose requirements include those of a higher-priority
    # sibling is never selected (no assumption needed to pre-empt it)
    ev.recipe_dead = not feasible({})
    return ev, seen


def req_func_kind(repo, inst, resolver):
    """-> ('bool'|'value', evaluator) for the instance's requirement
    function"""
    if inst.req_func is None:
        return "bool", None
    rel, func = inst.req_func
    ev = Evaluator(repo, rel, lambda *a: UNKNOWN, resolver=resolver)
    if isinstance(func, ast.Lambda):
        f2 = ast.FunctionDef(name="<lambda>", args=func.args,
                             body=[ast.Return(value=func.body)],
                             decorator_list=[], lineno=func.lineno,
                             col_offset=0)
        ev.run(f2)
    else:
        ev.run(func)
    kinds = set()
    for v, _ in ev.return_values:
        if v is None:
            kinds.add("value")
        elif v.kind == "const" and isinstance(v.val, bool):
            kinds.add("bool")
        else:
            kinds.add("value")
    if not kinds:
        raise AnalysisError(f"{rel}: requirement function never returns")
    return ("bool" if kinds == {"bool"} else "value"), ev


def r61(ctx, repo, instances):
    resolver = make_resolver(repo)
    total_paths = 0
    total_inf = 0
    for inst in instances:
        ev, seen = analyse_instance(repo, inst, instances, resolver)
        total_paths += ev.paths
        total_inf += ev.paths_infeasible
        if ev.paths_feasible == 0:
            if ev.recipe_dead:
                ctx.note(f"{inst.label}: never selected – a higher-priority "
                         f"recipe of '{inst.feature_name}' requires nothing "
                         f"more; its reads are not judged")
                continue
            raise AnalysisError(f"{inst.label}: no feasible path through "
                                f"its compute function")
        rk, rev = req_func_kind(repo, inst, resolver)
        covered_dyn_data = covered_dyn_recipes = False
        hashed = set()      # (kind, sec, key, 'value'|'presence')
        if rk == "value":
            for v, _ in rev.return_values:
                provs = set(v.prov) | rev._deep_prov(v) if v else set()
                for rid in provs:
                    r = rev.reads[rid]
                    if r.kind == "feat-dyn" and not r.key.startswith("<"):
                        covered_dyn_data = True
                    if r.kind == "attr" and r.key == "hash()":
                        covered_dyn_recipes = True
                    if r.kind in ("feat", "cfg"):
                        hashed.add((r.kind, r.sec, r.key, "value"))
                        hashed.add((r.kind, r.sec, r.key, "presence"))
                    elif r.kind in ("feat?", "cfg?"):
                        hashed.add((r.kind[:-1], r.sec, r.key, "presence"))
        groups = {}
        for rid, r in ev.reads.items():
            if not (r.affects or r.raises):
                continue
            kind = r.kind.rstrip("?")
            if kind == "attr":
                continue
            what_mode = "presence" if r.kind.endswith("?") else "value"
            ident = (kind, r.sec, r.key if kind in ("feat", "cfg")
                     else "<computed>", what_mode)
            g = groups.setdefault(ident, {"affects": False, "raises": False,
                                          "node": r.node})
            g["affects"] |= r.affects
            g["raises"] |= r.raises
        for ident, g in sorted(groups.items(), key=lambda x: str(x[0])):
            kind, sec, key, what_mode = ident
            pres = "presence of " if what_mode == "presence" else ""
            if kind == "feat":
                declared = key in inst.req_features or ident in hashed
                what = f"{pres}feature '{key}'"
            elif kind == "cfg":
                declared = (sec, key) in inst.cfg_keys or ident in hashed
                what = f"{pres}config [{sec}] '{key}'"
            elif kind == "feat-dyn":
                # features chosen at run time may be temporary (their data
                # must be digested) or computed on demand by other recipes
                # (the hash of each implementing recipe must be digested)
                declared = (covered_dyn_data and covered_dyn_recipes) \
                    or what_mode == "presence"
                what = (f"{pres}features selected at run time "
                        f"(mm[<computed name>])")
                if not declared and what_mode != "presence":
                    what += (" – requirement function digests "
                             f"{'their data' if covered_dyn_data else 'no data'}"
                             f" and {'the implementing recipes' if covered_dyn_recipes else 'no recipe hashes'}")
            else:
                # the key could not be folded: the analyser cannot tell which
                # setting is read – not a verdict on the code
                raise AnalysisError(
                    f"{inst.label}: reads config [{sec}] under a key that "
                    f"cannot be folded (line {getattr(g['node'], 'lineno', '?')})")
            mode = ("value-affecting" if g["affects"]
                    else "decides between value and exception")
            if declared:
                ok, why = True, "declared / hashed"
            elif seen.get((kind, sec, key)) == {False}:
                ok, why = True, ("presence determined ABSENT while this "
                                 "recipe is selected (a higher-priority "
                                 "recipe pre-empts it otherwise)")
            else:
                ok, why = False, (
                    "NOT part of the recipe's hash ingredients "
                    "(req_features/req_config/non-boolean req_func): a "
                    "change leaves the cached value in place")
            ctx.ob("R6.1", ok,
                   f"{inst.label} ({inst.method[1].name}) reads {what} "
                   f"[{mode}]: {why}",
                   node=g["node"],
                   key=f"{inst.rel}::{inst.label}::reads {what}")
    ctx.stat("R6.1 paths explored", total_paths)
    ctx.stat("R6.1 paths pruned as infeasible for the recipe", total_inf)


# ----------------------------------------------------------------------
# R6.2

def _access_ops():
    """operations on the model dataset: (label, function(state))"""
    def setf(name, v):
        def op(st):
            st["events"][name] = v
        return op

    def delf(name):
        def op(st):
            st["events"].pop(name, None)
        return op

    def edit(name, v):
        def op(st):
            if name in st["events"]:
                st["edit"].append((name, v))
                st["events"][name] = v
        return op

    def setk(v):
        def op(st):
            if v is None:
                st["k1"] = None
            else:
                st["k1"] = v
        return op

    def sett(v):
        def op(st):
            st["t1"] = v
        return op

    def seto(v):
        def op(st):
            st["tout"] = v
        return op
    return [
        ("f1 replaced (version 2)", setf("f1", 2)),
        ("f1 replaced (version 1)", setf("f1", 1)),
        ("f1 edited in place (version 3)", edit("f1", 3)),
        ("f2 removed", delf("f2")),
        ("f2 added (version 5)", setf("f2", 5)),
        ("f2 edited in place (version 6)", edit("f2", 6)),
        ("[calculation] k1 = 2", setk(2)),
        ("[calculation] k1 = 1", setk(1)),
        ("[calculation] k1 removed", setk(None)),
        ("temporary feature t1 set (version 7)", sett(7)),
        ("temporary feature t1 replaced (version 8)", sett(8)),
        ("temporary feature t1 removed", sett(None)),
        ("temporary feature `out` set (version 9)", seto(9)),
        ("temporary feature `out` removed", seto(None)),
        ("read out", "out"), ("read deriv", "deriv"), ("read pair2", "pair2"),
        ("read tout", "tout"),
    ]


def r62_eval(ctx, repo):
    """`RTDCBase.__getitem__`, `__contains__`, `_get_ancillary_feature_data`,
    `_get_basin_feature_data`, `features_basin` and `AncillaryFeature`,
    loaded from their syntax trees, driven through histories of reads and
    changes on a model dataset: after every history each computed feature
    equals a *fresh* computation on the current data and settings, and
    `feat in ds` agrees with what `ds[feat]` does."""
    import itertools
    from ..lib_C06 import CoreModel, FeatData, MBasin
    for q in ("RTDCBase.__getitem__", "RTDCBase.__contains__",
              "RTDCBase._get_ancillary_feature_data",
              "RTDCBase._get_basin_feature_data"):
        repo.func(CORE, q)
    fails = {}

    def fail(key, msg):
        if any(f"'{k}'" in msg for k in ("FeatData", "DType", "_Flags",
                                         "MBasin", "MD5")) and (
                "AttributeError" in msg or "TypeError" in msg):
            raise AnalysisError("r62_eval: the model lacks what the code "
                                "uses: " + msg[:300])
        fails.setdefault(key, msg)
    ops = _access_ops()
    FEATS = ("out", "pair1", "pair2", "deriv", "tout", "plug")

    def L_lookup(m, name):
        from .. import lib_C04 as _L
        return _L.lookup_attr(m.it, m.cls, name, None)

    def arr(v):
        return FeatData(bytes([v, v, v, v]))

    def fresh(st, feat):
        """content of a fresh computation on the current state, or None"""
        ev, k1, t1 = st["events"], st["k1"], st["t1"]
        if feat == "out" and st["tout"] is not None:
            # a temporary feature overrides the computable one
            return bytes([st["tout"]] * 4)
        if feat == "out":
            if "f1" in ev and k1 is not None:
                if "f2" in ev:
                    return bytes([0xB, ev["f1"], ev["f2"], k1])
                return bytes([0xA, ev["f1"], k1, 0])
            return None
        if feat in ("pair1", "pair2"):
            if "f1" in ev:
                return bytes([0xC, ev["f1"], int(feat[-1]), 0])
            return None
        if feat == "deriv":
            o = fresh(st, "out")
            return None if o is None else bytes([0xD]) + o[:3]
        if feat == "tout":
            return None if t1 is None else bytes([0xE, t1, 0, 0])
        if feat == "plug":
            return bytes([0x10, ev["f1"], st["plug"], 0]) if "f1" in ev \
                else None
        raise KeyError(feat)

    # hook run in the middle of a recipe (a second thread that changes a
    # setting while the first one computes)
    during = [None]

    def build():
        m = CoreModel(repo)

        def get(ds, f):
            r = m.getitem(ds, f)
            if r[0] != "ok":
                raise AnalysisError(f"model recipe cannot read {f}: {r}")
            return r[1].content

        def m_a(ds):
            k = ds._attrs["config"]["calculation"]["k1"]
            v = get(ds, "f1")[0]
            if during[0] is not None:
                during[0]()     # another thread changes a setting now
            return FeatData(bytes([0xA, v, k, 0]))

        def m_b(ds):
            k = ds._attrs["config"]["calculation"]["k1"]
            v1, v2 = get(ds, "f1")[0], get(ds, "f2")[0]
            if during[0] is not None:
                during[0]()
            return FeatData(bytes([0xB, v1, v2, k]))

        def m_c(ds):
            v = get(ds, "f1")[0]
            return {"pair1": FeatData(bytes([0xC, v, 1, 0])),
                    "pair2": FeatData(bytes([0xC, v, 2, 0]))}

        def m_d(ds):
            return FeatData(bytes([0xD]) + get(ds, "out")[:3])

        def m_e(ds):
            return FeatData(bytes([0xE, get(ds, "t1")[0], 0, 0]))
        kc = [["calculation", ["k1"]]]
        m.new("out", m_a, req_features=["f1"], req_config=kc, priority=0)
        m.new("out", m_b, req_features=["f1", "f2"], req_config=kc,
              priority=1)
        m.new("pair1", m_c, req_features=["f1"])
        m.new("pair2", m_c, req_features=["f1"])
        m.new("deriv", m_d, req_features=["out"])
        m.new("tout", m_e, req_features=["t1"])
        # a plugin recipe: carries an identifier, can be removed and
        # registered again with another method under the same name
        m.plug = m.new("plug", lambda ds: FeatData(bytes(
            [0x10, get(ds, "f1")[0], 1, 0])), req_features=["f1"],
            identifier="plugin-recipe-1")
        m.plug2 = lambda: m.new("plug", lambda ds: FeatData(bytes(
            [0x10, get(ds, "f1")[0], 2, 0])), req_features=["f1"],
            identifier="plugin-recipe-2")
        return m

    def run_history(hist):
        m = build()
        st = {"events": {"f1": 1, "f2": 5}, "k1": 1, "t1": None,
              "tout": None, "edit": [], "plug": 1}
        objs = {"f1": arr(1), "f2": arr(5)}
        cfg = {"experiment": {"event count": 4}, "calculation": {"k1": 1}}
        ds = m.dataset(dict(objs), cfg)
        done = []
        for label, op in hist + [("observe", None)]:
            if isinstance(op, dict) and op.get("replug"):
                # what remove_plugin_feature() and a new PlugInFeature do
                # to the registry of recipes
                import types
                reg = L_lookup(m, "features")
                names = L_lookup(m, "feature_names")
                if not isinstance(reg, list) or m.plug not in reg \
                        or not isinstance(names, list):
                    raise AnalysisError("r62_eval: recipe registry of "
                                        "AncillaryFeature not a list")
                reg.remove(m.plug)
                names.remove("plug")
                m.plug = m.plug2()
                st["plug"] = 2
                done.append(label)
                continue
            if isinstance(op, dict):
                # a read during which another thread changes a setting:
                # what this read returns is not judged (either state is
                # acceptable), every later access is
                def other_thread(k1=op["k1"]):
                    st["k1"] = k1
                    cfg["calculation"]["k1"] = k1
                during[0] = other_thread
                try:
                    m.getitem(ds, op["read"])
                finally:
                    during[0] = None
                done.append(label)
                continue
            if callable(op):
                before = dict(st["events"])
                st["edit"] = []
                op(st)
                # mirror the abstract state into the model dataset
                for name, v in st["edit"]:
                    ds._attrs["_events"][name].edit_in_place(
                        bytes([v, v, v, v]))
                for name in ("f1", "f2"):
                    if name not in st["events"]:
                        ds._attrs["_events"].pop(name, None)
                    elif (name not in before
                          or before[name] != st["events"][name]) \
                            and (name, st["events"][name]) not in st["edit"]:
                        ds._attrs["_events"][name] = arr(st["events"][name])
                if st["k1"] is None:
                    cfg["calculation"].pop("k1", None)
                else:
                    cfg["calculation"]["k1"] = st["k1"]
                if st["t1"] is None:
                    ds._attrs["_usertemp"].pop("t1", None)
                else:
                    cur = ds._attrs["_usertemp"].get("t1")
                    if cur is None or cur.content[0] != st["t1"]:
                        ds._attrs["_usertemp"]["t1"] = arr(st["t1"])
                if st["tout"] is None:
                    ds._attrs["_usertemp"].pop("out", None)
                else:
                    cur = ds._attrs["_usertemp"].get("out")
                    if cur is None or cur.content[0] != st["tout"]:
                        ds._attrs["_usertemp"]["out"] = arr(st["tout"])
                done.append(label)
                continue
            feats = FEATS if op is None else (op,)
            if op is not None:
                done.append(label)
            for f in feats:
                want = fresh(st, f)
                hist_txt = "; ".join(done) or "fresh dataset"
                c = m.contains(ds, f)
                if c[0] != "ok" or bool(c[1]) != (want is not None):
                    fail("availability agrees with access",
                         f"history [{hist_txt}]: `{f!r} in ds` -> {c!r}, "
                         f"but the feature can"
                         f"{'' if want is not None else 'not'} be computed "
                         "from the current data and settings")
                r = m.getitem(ds, f)
                if want is None:
                    if not (r[0] == "raise" and r[1] == "KeyError"):
                        fail("access returns current data",
                             f"history [{hist_txt}]: ds[{f!r}] -> {r!r} "
                             "although the feature cannot be computed from "
                             "the current data and settings (a remembered "
                             "array is served)")
                elif r[0] != "ok" or getattr(r[1], "content", None) != want:
                    got = list(r[1].content) if r[0] == "ok" and hasattr(
                        r[1], "content") else r
                    fail("access returns current data",
                         f"history [{hist_txt}]: ds[{f!r}] -> {got}, a fresh "
                         f"computation on the current data and settings "
                         f"gives {list(want)}")
        return m

    mut = [o for o in ops if callable(o[1])]
    reads = [o for o in ops if not callable(o[1])]
    if ctx.tier == "thorough":
        hists = [[]] + [[a] for a in ops]
        hists += [[r, a] for r in reads for a in mut]
        hists += [[r, a, b] for r in reads for a in mut for b in mut
                  if a is not b]
        hists += [[r1, a, r2, b] for r1 in reads[:2] for a in mut
                  for r2 in reads[:2] for b in mut if a is not b]
    else:
        rd = dict(reads)
        byl = dict(ops)

        def H(*labels):
            return [(lab, byl[lab]) for lab in labels]
        hists = [[]] + [[r, a] for r in reads[:2] for a in mut]
        hists += [
            H("read out", "f2 removed", "read out", "f2 added (version 5)"),
            H("read out", "[calculation] k1 removed", "read out",
              "[calculation] k1 = 2"),
            H("read deriv", "f1 edited in place (version 3)"),
            H("read deriv", "[calculation] k1 = 2", "read out",
              "[calculation] k1 = 1"),
            H("read pair2", "f1 replaced (version 2)"),
            H("temporary feature t1 set (version 7)", "read tout",
              "temporary feature t1 replaced (version 8)"),
            H("temporary feature t1 set (version 7)", "read tout",
              "temporary feature t1 removed"),
            H("read out", "f2 edited in place (version 6)", "read deriv",
              "f2 removed"),
            H("read out", "f2 removed", "f1 replaced (version 2)",
              "f2 added (version 5)"),
            H("read out", "temporary feature `out` set (version 9)",
              "read deriv", "temporary feature `out` removed"),
            H("read deriv", "temporary feature `out` set (version 9)"),
        ]
    conc = ("read out while another thread sets [calculation] k1 = 2 "
            "during the computation", {"read": "out", "k1": 2})
    conc_d = ("read deriv while another thread sets [calculation] k1 = 2 "
              "during the computation of `out`", {"read": "deriv", "k1": 2})
    hists += [[conc], [conc_d], [conc, dict(ops)["read deriv"]
                                 and ("read deriv", "deriv")]]
    replug = ("plugin recipe `plug` removed and registered again under the "
              "same name with another method (other identifier)",
              {"replug": True})
    hists += [[("read plug", "plug"), replug], [replug],
              [("read plug", "plug"), replug, ("read plug", "plug")]]
    for h in hists:
        run_history(list(h))
    ctx.stat("R6.2 model histories", len(hists))
    if len(hists) < 30:
        raise AnalysisError(f"only {len(hists)} model histories")
    # ---- basins: order of the sources, availability, `in`
    m = CoreModel(repo)
    cfg = {"experiment": {"event count": 4}}
    A, B, C, D = (FeatData(bytes([i] * 4)) for i in (1, 2, 3, 4))
    cases = [
        ("file basin before a remote one, internal first",
         [MBasin("remote", {"bf": A}, label="remote"),
          MBasin("file", {"bf": B}, label="file"),
          MBasin("internal", {"bf": C}, label="internal")], "bf", C),
        ("file basin preferred over a remote one",
         [MBasin("remote", {"bf": A}, label="remote"),
          MBasin("file", {"bf": B}, label="file")], "bf", B),
        ("any basin when no preferred type has it",
         [MBasin("remote", {"bf": A}, label="remote"),
          MBasin("file", {"other": B}, label="file")], "bf", A),
        ("first basin of a type in list order",
         [MBasin("file", {"bf": A}, label="file-1"),
          MBasin("file", {"bf": B}, label="file-2")], "bf", A),
        ("unavailable basin skipped",
         [MBasin("file", {"bf": A}, available=False, label="gone"),
          MBasin("remote", {"bf": B}, label="remote")], "bf", B),
        ("feature of no basin", [MBasin("file", {"x": A}, label="file")],
         "bf", None),
        ("innate feature wins over a basin",
         [MBasin("file", {"f1": A}, label="file")], "f1", D),
    ]
    for label, basins, feat, want in cases:
        ds = m.dataset({"f1": D}, cfg, basins=basins)
        c = m.contains(ds, feat)
        r = m.getitem(ds, feat)
        if want is None:
            if c != ("ok", False) or not (r[0] == "raise"
                                          and r[1] == "KeyError"):
                fail("basin sources", f"{label}: `in` -> {c!r}, access -> "
                     f"{r!r}, expected False / KeyError")
        elif c[0] != "ok" or not c[1] or r[0] != "ok" or r[1] is not want:
            fail("basin sources", f"{label}: `in` -> {c!r}, access -> {r!r}, "
                 f"expected True / the data of that source")
    # a transient fault of a basin (failing range request of a remote
    # basin): the access that hits it may fail, the next one is served
    bt = MBasin("remote", {"bf": A}, label="remote", transient=1)
    ds = m.dataset({"f1": D}, cfg, basins=[bt])
    r1 = m.getitem(ds, "bf")
    c2 = m.contains(ds, "bf")
    r2 = m.getitem(ds, "bf")
    if not (c2 == ("ok", True) and r2[0] == "ok" and r2[1] is A):
        fail("basin sources", "a basin whose first access fails with a "
             f"transient OSError: first access -> {r1!r}, afterwards `in` "
             f"-> {c2!r}, access -> {r2!r}; expected the basin's data (the "
             "basin must not be dropped for good: the dataset keeps listing "
             "the feature but can never read it)")
    get = repo.func(CORE, "RTDCBase.__getitem__")
    anc = repo.func(CORE, "RTDCBase._get_ancillary_feature_data")
    # ---- size correction of computed features
    from ..lib_C06 import DS as _DS, Model as _Model, SizeArr
    nanv = float("nan")
    m4 = _Model(repo)
    dsz = _DS({}, {"experiment": {"event count": 4}}, n=4)

    def same(a, b):
        return len(a) == len(b) and all(
            (x != x and y != y) or x == y for x, y in zip(a, b))
    for label, given, want in (
            ("two values short", [1.0, 2.0], [1.0, 2.0, nanv, nanv]),
            ("one value short", [1.0, 2.0, 3.0], [1.0, 2.0, 3.0, nanv]),
            ("exact", [1.0, 2.0, 3.0, 4.0], [1.0, 2.0, 3.0, 4.0]),
            ("two values long", [1.0, 2.0, 3.0, 4.0, 5.0, 6.0],
             [1.0, 2.0, 3.0, 4.0])):
        arr_ = SizeArr(given)
        r = m4.static("check_data_size", dsz, {"out": arr_})
        if r[0] != "ok" or not isinstance(r[1], dict) or "out" not in r[1] \
                or not isinstance(r[1]["out"], SizeArr):
            fail("size correction", f"check_data_size, feature {label}: "
                 f"-> {r!r}")
            continue
        got = r[1]["out"]
        if not same(got.values, want):
            fail("size correction", f"check_data_size, feature {label} "
                 f"({given} for 4 events): -> {got.values}, expected {want} "
                 "(values kept, missing events nan)")
        if got.flags.writeable:
            fail("size correction", f"check_data_size, feature {label}: the "
                 "corrected array is handed out writable: an in-place edit "
                 "of ds[feat] changes what every later access returns")
    litems = [SizeArr([1.0]), SizeArr([2.0]), SizeArr([3.0]), SizeArr([4.0])]
    r = m4.static("check_data_size", dsz, {"out": litems})
    if r[0] != "ok" or any(x.flags.writeable for x in litems):
        fail("size correction", "check_data_size, list of arrays: "
             f"-> {r!r}; the items must be read-only")
    obs = [
        ("R6.2", "access returns current data", anc, f"{len(hists)} "
         "histories of reads and changes (feature replaced / edited in "
         "place / removed, setting changed / removed, temporary feature "
         "set / replaced / removed; single- and multi-output recipes, two "
         "priorities, a recipe that depends on a computed feature): every "
         "access equals a fresh computation on the current state"),
        ("R6.3", "availability agrees with access", get, "`feat in ds` is "
         "True exactly when `ds[feat]` yields data, after every history"),
        ("R6.3", "basin sources", get, "innate > internal > file > any "
         "basin, unavailable basins skipped, a transient fault does not "
         "drop a basin, `in` agrees"),
        ("R6.2", "size correction", repo.func(
            FA + "ancillary_feature.py", "AncillaryFeature.check_data_size"),
         "computed data of the wrong length are cut / padded with nan, "
         "values kept, and handed out read-only"),
    ]
    for rule, key, node, good in obs:
        ok = key not in fails
        ctx.ob(rule, ok, good if ok else fails[key], node=node,
               label="model: " + key)
    unknown = set(fails) - {k for _, k, _, _ in obs}
    if unknown:
        raise AnalysisError(f"r62_eval: unregistered verdicts {unknown}")



def _ancestors(n):
    n = getattr(n, "parent", None)
    while n is not None:
        yield n
        n = getattr(n, "parent", None)


# ----------------------------------------------------------------------
# R6.3

def r63(ctx, repo):
    # (sources of __contains__ / __getitem__, the cached-ancillary shortcut
    # and the precedence of temporary features are decided by r62_eval on
    # the model dataset)
    # `features` derives from __contains__
    feats = repo.func(CORE, "RTDCBase.features")
    ok = any(isinstance(n, ast.Compare) and isinstance(n.ops[0], ast.In)
             and txt(n.comparators[0]) == "self" for n in walk(feats))
    ctx.ob("R6.3", ok, "`features` lists exactly the candidates for which "
           "`in` holds" if ok else "`features` no longer derives from "
           "__contains__", node=feats, label="features-from-contains")


# ----------------------------------------------------------------------
# R6.4

def r64(ctx, instances):
    emo = [i for i in instances if i.feature_name == "emodulus"]
    by_case = {}
    for i in emo:
        if not isinstance(i.data, str) or not i.data.startswith("case "):
            raise AnalysisError("emodulus recipe without case label")
        by_case.setdefault(i.data[-1], []).append(i)
    for hi, lo in (("C", "B"), ("B", "A"), ("C", "A")):
        if hi not in by_case or lo not in by_case:
            raise AnalysisError(f"emodulus case {hi}/{lo} not registered")
        for a in by_case[hi]:
            for b in by_case[lo]:
                ok = a.priority > b.priority
                ctx.ob("R6.4", ok,
                       f"{a.label} has precedence over {b.label}" if ok else
                       f"{a.label} (priority {a.priority}) does not take "
                       f"precedence over {b.label} (priority {b.priority})",
                       node=a.node,
                       key=f"{a.rel}::register::{a.label} > {b.label}")
    # the cases are distinguishable by at least one requirement
    for x in emo:
        for y in emo:
            if x is y or x.data == y.data:
                continue
            dx = (set(x.req_features) | x.cfg_keys) - (
                set(y.req_features) | y.cfg_keys)
            if x.priority > y.priority:
                ctx.ob("R6.4", bool(dx),
                       f"{x.label} requires something {y.label} does not "
                       f"({sorted(map(str, dx))[:2]})" if dx else
                       f"{x.label} outranks {y.label} but needs nothing "
                       f"extra: {y.label} can never be selected",
                       node=x.node,
                       key=f"{x.rel}::register::{x.label} distinct from "
                           f"{y.label}", nontrivial=False)


def r64_eval(ctx, repo):
    """`compute_emodulus` (loaded from its syntax tree, the two computing
    functions replaced by recording stand-ins) on the table of settings:
    which scenario of the documentation is chosen."""
    import itertools
    from ..lib_C06 import EmodDispatchModel, FeatData
    func = repo.func(FA + "af_emodulus.py", "compute_emodulus")
    m = EmodDispatchModel(repo)
    known = [x for x in m.known_media if x != x.lower() or x == "water"]
    media = [None, "other", "Other", "OTHER"] + known[:3] + [
        x.lower() for x in known[:2]] + ["no such medium"]
    bad = None
    n = 0
    for med, temp, visc, model, has_temp in itertools.product(
            media, (None, 23.0), (None, 5.0), (None, "herold-2017"),
            (False, True)):
        cfg = {"emodulus lut": "LE-2D-FEM-19"}
        if med is not None:
            cfg["emodulus medium"] = med
        if temp is not None:
            cfg["emodulus temperature"] = temp
        if visc is not None:
            cfg["emodulus viscosity"] = visc
        if model is not None:
            cfg["emodulus viscosity model"] = model
        (r, ds) = m.run(cfg, has_temp)
        n += 1
        is_other = med is None or med.lower() == "other"
        if visc is not None and is_other:
            want = "case B (viscosity given, medium 'other' in any spelling)"
            ok = r == ("ok", ("emodulus", "viscosity only"))
        elif is_other or med == "no such medium":
            want = "ValueError (medium not known)"
            ok = r[0] == "raise" and r[1] == "ValueError"
        elif visc is not None:
            want = "ValueError (viscosity given for a known medium)"
            ok = r[0] == "raise" and r[1] == "ValueError"
        elif temp is not None:
            want = "case C (configured temperature, also when the dataset " \
                   "has a temp feature)"
            ok = r == ("ok", ("emodulus", "known media", temp))
        elif has_temp:
            want = "case A (temperature from the temp feature)"
            ok = r[0] == "ok" and isinstance(r[1], tuple) and len(
                r[1]) == 3 and r[1][1] == "known media" and isinstance(
                r[1][2], FeatData) and r[1][2] is ds.feats["temp"]
        else:
            want = "no result (no temperature source)"
            ok = r == ("ok", None) or r[0] == "raise"
        if not ok and bad is None:
            bad = (f"[calculation] {cfg}, temp feature "
                   f"{'present' if has_temp else 'absent'}: "
                   f"compute_emodulus -> {r!r}, expected {want}")
    if bad and any(k in bad for k in ("'FeatData'", "'DS'")) and (
            "AttributeError" in bad or "TypeError" in bad):
        raise AnalysisError("r64_eval: the model lacks what the code uses: "
                            + bad[:300])
    ctx.ob("R6.4", bad is None, f"{n} settings (medium absent / 'other' in "
           "three spellings / known in original and lower case / unknown; "
           "temperature, viscosity, viscosity model set or not; temp feature "
           "present or not): the scenario chosen is the documented one "
           "(B for a given viscosity with medium 'other', C before A)"
           if bad is None else bad, node=func, label="model: scenario table")
    ctx.stat("R6.4 scenario table rows", n)


# ----------------------------------------------------------------------
# R6.5

def r65_eval(ctx, repo):
    """`AncillaryFeature` and `obj2bytes`, loaded from their syntax trees,
    evaluated on model datasets (sa/lib_C06.py): which states share a hash,
    which recipes are available, what compute hands back."""
    import itertools
    from ..lib_C06 import DS, FeatData, Model
    rel = FA + "ancillary_feature.py"
    cnode = repo.cls(rel, "AncillaryFeature")
    fn = {f.name: f for f in cnode.body if isinstance(f, ast.FunctionDef)}
    for need in ("hash", "is_available", "compute", "available_features",
                 "get_instances"):
        if need not in fn:
            raise AnalysisError(f"AncillaryFeature.{need} vanished")
    fails = {}

    def fail(key, msg):
        # an attribute / operation the *model objects* lack is a gap of the
        # model, not a verdict about the code
        if any(f"'{k}'" in msg or f"model {k}" in msg for k in (
                "FeatData", "DType", "_Flags", "DS", "MD5")) and (
                "AttributeError" in msg or "TypeError" in msg):
            raise AnalysisError("r65_eval: the model lacks what the code "
                                "uses: " + msg[:300])
        fails.setdefault(key, msg)

    # ---- hash: states that differ in one ingredient never share a hash
    D1, D2, D3 = b"\x01\x02\x03\x04", b"\x05\x06\x07\x08", b"\x09\x09\x09\x09"

    def state(f1=D1, f2=D2, k1="Abc", k2=1.5, s1="x y", k3="zz"):
        cfg = {"calculation": {"k1": k1, "k2": k2, "k3": k3},
               "setup": {"s1": s1}}
        return DS({"f1": FeatData(f1), "f2": FeatData(f2),
                   "f3": FeatData(D3)}, cfg,
                  ancillaries={"f1": ("upstream-hash", FeatData(D1)),
                               "f2": ("upstream-hash", FeatData(D2))})
    m = Model(repo)
    box = {"ret": ("medium", 1)}
    inst = m.new("out", lambda ds: None,
                 req_config=[["calculation", ["k1", "k2"]],
                             ["setup", ["s1"]]],
                 req_features=["f1", "f2"],
                 req_func=lambda ds: box["ret"])
    variants = [
        ("the reference state", {}, None),
        ("one byte in the middle of feature f1 changed",
         {"f1": b"\x01\x02\x7f\x04"}, None),
        ("the last byte of feature f2 changed",
         {"f2": b"\x05\x06\x07\x7f"}, None),
        ("the first byte of feature f2 changed",
         {"f2": b"\x7f\x06\x07\x08"}, None),
        ("the data of f1 and f2 exchanged", {"f1": D2, "f2": D1}, None),
        ("[calculation] k1 = 'abc' instead of 'Abc'", {"k1": "abc"}, None),
        ("[calculation] k1 = 'Abc ' (trailing blank)", {"k1": "Abc "}, None),
        ("[calculation] k1 = 'Abd'", {"k1": "Abd"}, None),
        ("[calculation] k1 = 'Abc' with a longer tail", {"k1": "Abcdefgh"},
         None),
        ("[calculation] k2 = 1.25 instead of 1.5", {"k2": 1.25}, None),
        ("[setup] s1 = 'xy' instead of 'x y'", {"s1": "xy"}, None),
        ("[calculation] k2 = 1.5004 instead of 1.5", {"k2": 1.5004}, None),
        ("[calculation] k2 = 1.50000001 instead of 1.5", {"k2": 1.50000001},
         None),
        ("[calculation] k1 = 'Müller' (non-ASCII)", {"k1": "M\u00fcller"},
         None),
        ("[calculation] k1 = 'Möller' (non-ASCII)", {"k1": "M\u00f6ller"},
         None),
        ("requirement function returns ('medium', 2)", {}, ("medium", 2)),
        ("requirement function returns ('other', 1)", {}, ("other", 1)),
        ("requirement function returns 'medium'", {}, "medium"),
        ("requirement function returns True", {}, True),
    ]
    seen = {}
    nh = 0
    for label, kw, ret in variants:
        box["ret"] = ("medium", 1) if ret is None else ret
        ds = state(**kw)
        r1 = m.call(inst, "hash", ds)
        r2 = m.call(inst, "hash", ds)
        nh += 2
        if r1[0] != "ok":
            fail("hash evaluates", f"hash() in {label} -> {r1!r}")
            continue
        if r1 != r2:
            fail("hash deterministic", f"two hash() calls in {label} differ")
        if r1[1] in seen:
            fail("hash separates states", f"{label} and {seen[r1[1]]} share "
                 "a hash: the cached feature data of one state are served "
                 "in the other")
        seen.setdefault(r1[1], label)
    box["ret"] = ("medium", 1)
    # the same feature objects, edited in place (a read-only array handed
    # out by a dataset can be a view of a buffer its owner still writes to)
    for shape in (None, (2, 2)):
        ds = state()
        arr = FeatData(D2, shape)
        ds.feats["f2"] = arr
        r1 = m.call(inst, "hash", ds)
        arr.edit_in_place(b"\x05\x06\x7f\x08")
        r2 = m.call(inst, "hash", ds)
        nh += 2
        if r1[0] != "ok" or r2[0] != "ok":
            fail("hash evaluates", f"hash() with a {arr.ndim}-D feature -> "
                 f"{r1!r}, {r2!r}")
        elif r1 == r2:
            fail("hash separates states", f"a {arr.ndim}-D required feature "
                 "edited in place (same object, other content) keeps its "
                 "hash: the serialisation is remembered by identity")

    # ---- availability: compared with its definition on 96 x 4 cases
    def spec_available(insts, i, ds, rf):
        nm, prio, feats, cfgs, uses_rf = insts[i]
        for sec, keys in cfgs:
            if sec not in ds.config or any(k not in ds.config[sec]
                                           for k in keys):
                return False
        if any(f not in ds for f in feats):
            return False
        for j, other in enumerate(insts):
            if j != i and other[0] == nm and other[1] > prio \
                    and spec_available(insts, j, ds, rf):
                return False
        return bool(rf) if uses_rf else True
    recipes = [("out", 0, ["f1"], [["calculation", ["k1"]]], False),
               ("out", 1, ["f2"], [["setup", ["s1"]]], True),
               ("other", 5, ["f1"], [], False),
               ("out", 1, ["f3"], [], False),
               ("out", 2, ["f1", "f3"], [["calculation", ["k1", "k9"]]],
                False)]
    m2 = Model(repo)
    rfbox = {"v": True}
    objs = []
    for nm, prio, feats, cfgs, uses_rf in recipes:
        kw = dict(req_config=cfgs, req_features=feats, priority=prio)
        if uses_rf:
            kw["req_func"] = lambda ds: rfbox["v"]
        objs.append(m2.new(nm, lambda ds: None, **kw))
    na = 0
    for fs in itertools.chain.from_iterable(
            itertools.combinations(("f1", "f2", "f3"), n) for n in range(4)):
        for calc in ("k1", "k1k9", "nokey", "nosec"):
            for setup in ("s1", "nokey"):
                for rf in (True, False, ("id", 1)):
                    cfg = {"setup": {"s1": 1} if setup == "s1" else {}}
                    if calc == "k1":
                        cfg["calculation"] = {"k1": 1}
                    elif calc == "k1k9":
                        cfg["calculation"] = {"k1": 1, "k9": 2}
                    elif calc == "nokey":
                        cfg["calculation"] = {}
                    ds = DS({f: FeatData(D1) for f in fs}, cfg)
                    rfbox["v"] = rf
                    what = (f"features {list(fs)}, config {cfg}, "
                            f"requirement function -> {rf!r}")
                    want_cols = {}
                    for i, o in enumerate(objs):
                        want = spec_available(recipes, i, ds, rf)
                        r = m2.call(o, "is_available", ds)
                        na += 1
                        if r[0] != "ok" or bool(r[1]) != want \
                                or not isinstance(r[1], bool):
                            fail("availability", f"recipe #{i} "
                                 f"{recipes[i][:2]} on {what}: is_available "
                                 f"-> {r!r}, definition says {want}")
                        if want:
                            want_cols[recipes[i][0]] = o
                    r = m2.static("available_features", ds)
                    if r[0] != "ok" or not isinstance(r[1], dict) or set(
                            r[1]) != set(want_cols) or any(
                            r[1][k] is not want_cols[k] for k in want_cols):
                        fail("available_features", f"{what}: "
                             f"available_features -> {r!r}, expected the "
                             f"available recipe per name "
                             f"{sorted(want_cols)}")
    r = m2.static("get_instances", "out")
    if r[0] != "ok" or list(r[1]) != [objs[0], objs[1], objs[3], objs[4]]:
        fail("get_instances", f"get_instances('out') -> {r!r}, expected the "
             "four recipes of that name in registration order")
    # ---- compute: the method's data, under the recipe's name
    m3 = Model(repo)
    out = FeatData(D1)
    c1 = m3.new("out", lambda ds: out)
    c2 = m3.new("out2", lambda ds: {"out2": out, "side": FeatData(D2)})
    c3 = m3.new("out3", lambda ds: {"side": out})
    ds = state()
    r = m3.call(c1, "compute", ds)
    if r[0] != "ok" or not isinstance(r[1], dict) or set(r[1]) != {"out"} \
            or r[1]["out"] is not out:
        fail("compute", f"compute() of a recipe returning an array -> {r!r}, "
             "expected {'out': <that array>}")
    r = m3.call(c2, "compute", ds)
    if r[0] != "ok" or not isinstance(r[1], dict) \
            or set(r[1]) != {"out2", "side"} or r[1]["out2"] is not out:
        fail("compute", f"compute() of a recipe returning a dict -> {r!r}")
    r = m3.call(c3, "compute", ds)
    if r[0] != "raise" and r[0] != "fault":
        fail("compute", "compute() of a recipe whose method does not return "
             f"its own feature -> {r!r}, expected KeyError")
    ctx.stat("R6.5 model evaluations", nh + na)
    h, ia = fn["hash"], fn["is_available"]
    obs = [
        ("hash evaluates", h, "hash() evaluates on every model state"),
        ("hash deterministic", h, "equal state, equal hash"),
        ("hash separates states", h, f"{len(variants)} states that differ "
         "in one ingredient (a byte of a required feature, the case / a "
         "blank / the tail of a configuration value, a second section, the "
         "requirement function's result) get different hashes"),
        ("availability", ia, "is_available equals its definition on 288 "
         "model datasets x 5 recipes (sections, keys, features, priorities "
         "incl. ties, requirement function)"),
        ("available_features", fn["available_features"], "the available "
         "recipe per name"),
        ("get_instances", fn["get_instances"], "recipes of a name in "
         "registration order"),
        ("compute", fn["compute"], "compute returns the method's data under "
         "the recipe's name"),
    ]
    for key, node, good in obs:
        ok = key not in fails
        ctx.ob("R6.5", ok, good if ok else fails[key], node=node,
               label="model: " + key)
    unknown = set(fails) - {k for k, _, _ in obs}
    if unknown:
        raise AnalysisError(f"r65_eval: unregistered verdicts {unknown}")


def r65(ctx, repo):
    r65_eval(ctx, repo)
    # obj2bytes has a branch per container kind a feature object can have
    o2b = repo.func("dclab/util.py", "obj2bytes")
    tests = " ; ".join(txt(n.test) for n in walk(o2b)
                       if isinstance(n, ast.If))
    for need, why in (("np.ndarray", "arrays"),
                      ("'identifier'", "lazy feature objects / datasets"),
                      ("'__array__'", "array-like objects"),
                      ("h5py.Dataset", "HDF5 datasets")):
        ok = need in tests
        ctx.ob("R6.5", ok, f"obj2bytes has a branch for {why}" if ok else
               f"obj2bytes lost its branch for {why} ({need})",
               node=o2b, label=f"obj2bytes branch {need}", nontrivial=False)
    # ndarray branch digests the full buffer
    nd = None
    for n in walk(o2b):
        if isinstance(n, ast.If) and "np.ndarray" in txt(n.test) \
                and "isinstance" in txt(n.test):
            nd = n
    if nd is not None:
        # every return of the branch hands back the bytes of the whole
        # array (no sampled / truncated digest on any path)
        par = o2b.args.args[0].arg
        r = [x for s_ in nd.body for x in walk(s_)
             if isinstance(x, ast.Return)]

        def whole(v):
            if isinstance(v, ast.Call) and last_attr(v) == "tobytes" \
                    and not v.args and not v.keywords:
                recv = v.func.value
                if txt(recv) == par:
                    return True
                if isinstance(recv, ast.Call) and call_name(recv) in (
                        "np.ascontiguousarray", "np.asarray") and recv.args \
                        and txt(recv.args[0]) == par:
                    return True
            if isinstance(v, ast.Call) and call_name(v) == "bytes" \
                    and len(v.args) == 1 and txt(v.args[0]) == par:
                return True
            return False
        ok = bool(r) and all(whole(x.value) for x in r)
        ctx.ob("R6.5", ok, "ndarray data are digested completely (tobytes)"
               if ok else "ndarray branch of obj2bytes does not digest the "
               "complete buffer", node=nd, label="obj2bytes ndarray complete")


# ----------------------------------------------------------------------
# R6.6

def r66_identifier(ctx, repo):
    """The identifier of a plugin recipe is what `AncillaryFeature.hash`
    knows about the recipe itself (F06h): on *every* path to the digest it
    must cover the recipe's code (file bytes or byte code), its feature
    name, its version and its required features – a recipe registered
    again under the same name with another version must get another
    identifier, whether it comes from a file or from a dictionary."""
    from ..cfg import CFG
    rel = "dclab/rtdc_dataset/feat_anc_plugin/plugin_feature.py"
    proc = inline_helpers(repo, rel, repo.func(
        rel, "PlugInFeature._process_plugin_info"))
    digests = [n for n in walk(proc) if isinstance(n, ast.Call)
               and last_attr(n) == "hexdigest"]
    if len(digests) != 1:
        raise AnalysisError("_process_plugin_info: identifier digest not "
                            "found")
    st = digests[0]
    while not isinstance(st, ast.stmt):
        st = st.parent
    cfg = CFG(proc)
    tids = cfg.ids_of(st)
    if not tids:
        raise AnalysisError("_process_plugin_info: digest not in the CFG")

    def feeds(tokens):
        def pred(n):
            if n.ast is None or n.ast is st:
                return False
            node = n.ast
            if isinstance(node, (ast.For, ast.While)):
                node = node.iter if isinstance(node, ast.For) else node.test
            elif isinstance(node, ast.If):
                return False
            elif not any(isinstance(c, ast.Call) and last_attr(c) == "update"
                         for c in ast.walk(node)):
                return False
            t = txt(node)
            return any(tok in t for tok in tokens)
        return pred
    for what, tokens in (
            ("code of the recipe (file bytes / byte code)",
             ("read_bytes", "co_code", "__code__", "getsource")),
            ("feature name", ("feature_name", "feature name")),
            ("version", ("'version'", '"version"')),
            ("required features", ("features required",))):
        ok = all(cfg.always_before(t, feeds(tokens)) for t in tids)
        ctx.ob("R6.6", ok,
               f"the recipe identifier digests the {what} on every path"
               if ok else
               f"some path to `{short(st, 40)}` does not feed the {what} "
               "into the identifier: two recipes that differ in it share "
               "one identifier, and a dataset that cached the data of the "
               "first keeps serving them after the second was registered "
               "under the same name (the recipe hash cannot tell them "
               "apart)", node=st, label=f"identifier covers {what}")


def r66(ctx, repo):
    r66_identifier(ctx, repo)
    rel = "dclab/rtdc_dataset/feat_anc_plugin/plugin_feature.py"
    init = repo.func(rel, "PlugInFeature.__init__")
    sup = [c for c in find_calls(init, attr="__init__")]
    if not sup:
        raise AnalysisError("PlugInFeature.__init__: super call vanished")
    call = sup[-1]
    proc = repo.func(rel, "PlugInFeature._process_plugin_info")
    # map info key -> original key in _process_plugin_info's dict display
    info = {}
    for n in walk(proc):
        if isinstance(n, ast.Dict):
            for k, v in zip(n.keys, n.values):
                if const_str(k):
                    info[const_str(k)] = v
    for kwname, infokey, orig in (
            ("req_config", "config required", "config required"),
            ("req_features", "features required", "features required"),
            ("req_func", "method check required", "method check required"),
            ("method", "method", "method")):
        v = kwarg(call, kwname)
        ok = v is not None and isinstance(v, ast.Subscript) and const_str(
            v.slice) == infokey
        src = info.get(infokey)
        ok2 = src is not None and any(
            const_str(x) == orig for x in ast.walk(src))
        ctx.ob("R6.6", ok and ok2,
               f"plugin '{orig}' is handed to AncillaryFeature as {kwname} "
               f"unchanged" if ok and ok2 else
               f"plugin '{orig}' does not reach AncillaryFeature.{kwname}",
               node=call, label=f"plugin pass-through {kwname}")
    rel = "dclab/rtdc_dataset/feat_temp.py"
    stf = inline_helpers(repo, rel, repo.func(rel, "set_temporary_feature"))
    # on the hierarchy branch every normal path to the exit passes
    # rejuvenate() after the value was handed to the root
    scfg = CFG(stf)

    def hier_edge(src, lab, dst):
        if src.kind == "test" and lab in ("T", "F"):
            for e, t in branch_facts(src.ast.test, lab == "T"):
                if t and isinstance(e, ast.Call) and call_name(e) == \
                        "isinstance" and "RTDC_Hierarchy" in txt(e):
                    return True
        return False

    def is_rejuv(n_):
        return n_.kind == "stmt" and n_.ast is not None and any(
            isinstance(c, ast.Call) and last_attr(c) == "rejuvenate"
            for c in ast.walk(n_.ast))
    starts = [b for n_ in scfg.nodes for (b, lab) in scfg.succ[n_.id]
              if hier_edge(n_, lab, scfg.nodes[b])]
    if not starts:
        raise AnalysisError("set_temporary_feature: hierarchy branch lost")
    ok = True
    for b in starts:
        if is_rejuv(scfg.nodes[b]):
            continue
        r = scfg.reach([b], avoid_node=is_rejuv,
                       avoid_edge=lambda s_, l_, d_: l_ == "x",
                       include_sources=True)
        if scfg.exit in r:
            ok = False
    hier = [n for n in walk(stf) if isinstance(n, ast.If)
            and "RTDC_Hierarchy" in txt(n.test)]
    ctx.ob("R6.6", ok, "setting a temporary feature on a hierarchy child "
           "ends in rejuvenate()" if ok else
           "hierarchy child is not refreshed after a temporary feature was "
           "set on its root", node=hier[0] if hier else stf,
           label="temp-feature rejuvenate")
    stores = [n for n in walk(stf) if isinstance(n, ast.Assign)
              and "_usertemp" in txt(n.targets[0])]
    ok = False
    for s in stores:
        nm = s.value.id if isinstance(s.value, ast.Name) else None
        for c in find_calls(stf, attr="setflags"):
            if txt(c.func.value) == nm and txt(kwarg(c, "write", 0)) == \
                    "False":
                ok = True
    ctx.ob("R6.6", ok and bool(stores),
           "temporary feature data are stored read-only" if ok else
           "temporary feature data are stored writable",
           node=stores[0] if stores else stf, label="temp-feature read-only")


# ----------------------------------------------------------------------
# R6.8

def r68(ctx, repo):
    """Availability is decided afresh on every call.

    `_get_ancillary_feature_data` uses a cached array only when the feature is
    *currently* available (R6.2); that is only as good as
    `AncillaryFeature.available_features` / `is_available` themselves: a
    result remembered from an earlier call (on the dataset, the class or a
    memoising decorator) goes stale when a setting is removed or a temporary
    feature disappears.  Decided on the CFG: every normal path to a return
    passes the scan of the registered recipes (`is_available` of each); and
    neither function is wrapped by a memoising decorator."""
    rel = FA + "ancillary_feature.py"
    av = inline_helpers(repo, rel, repo.func(
        rel, "AncillaryFeature.available_features"))
    MEMO = ("lru_cache", "cache", "cached_property", "Cache", "memoize")
    for q in ("AncillaryFeature.available_features",
              "AncillaryFeature.is_available", "AncillaryFeature.hash"):
        f = repo.func(rel, q)
        bad = [txt(d) for d in f.decorator_list
               if any(m in txt(d) for m in MEMO)]
        ctx.ob("R6.8", not bad, f"{q} is evaluated on every call" if not bad
               else f"{q} is wrapped by `{bad[0]}`: its result does not "
               f"follow later changes of settings or data", node=f,
               key=f"{rel}::{q}::not memoised")
    cfg = CFG(av)
    scans = []
    for n in walk(av):
        if isinstance(n, (ast.For, ast.ListComp, ast.DictComp, ast.SetComp,
                          ast.GeneratorExp)):
            its = [n.iter] if isinstance(n, ast.For) else [
                g.iter for g in n.generators]
            if any("features" in txt(i) and "AncillaryFeature" in txt(i)
                   or txt(i) in ("cls.features", "AncillaryFeature.features")
                   for i in its) and any(
                    isinstance(c, ast.Call) and last_attr(c) == "is_available"
                    for c in ast.walk(n)):
                st = n
                while not isinstance(st, ast.stmt):
                    st = st.parent
                scans.append(st)
    if not scans:
        raise AnalysisError("available_features: scan of the registered "
                            "recipes not recognised")
    ids = set()
    for st in scans:
        ids |= set(cfg.ids_of(st))
    ok = cfg.must_pass(lambda n_: n_.id in ids,
                       avoid_edge=lambda s_, l_, d_: l_ == "x")
    ctx.ob("R6.8", ok, "every call scans the registered recipes for "
           "availability" if ok else
           "available_features can return without scanning the recipes (a "
           "remembered result): removing a setting or a temporary feature "
           "leaves features 'available' that can no longer be computed",
           node=scans[0], label="availability recomputed on every call")


# ----------------------------------------------------------------------
# R6.7

LUT_LOAD = "dclab/features/emodulus/load.py"


def r67(ctx, repo):
    """The hash of the emodulus recipes contains the *identifier* of the
    look-up table ([calculation] 'emodulus lut'), not the table.  That is
    only sound when an identifier denotes the same table for the life of the
    process: the registry of external tables is write-once (a store is
    reached only when the identifier is in neither registry), and nothing
    else writes it."""
    table = "EXTERNAL_LUTS"
    repo.module_assign(LUT_LOAD, table)
    writers = []
    for rel in sorted(repo.files("dclab/")):
        try:
            tree = repo.tree(rel)
        except AnalysisError:
            continue
        src_names = {table}
        if rel != LUT_LOAD:
            # only modules that can name the table
            if table not in repo.src(rel):
                continue
        for n in ast.walk(tree):
            tgt = None
            if isinstance(n, (ast.Assign, ast.AugAssign, ast.AnnAssign)):
                tgts = n.targets if isinstance(n, ast.Assign) else [n.target]
                for t in tgts:
                    if isinstance(t, ast.Subscript) and last_attr(
                            t.value) == table or isinstance(
                            t.value if isinstance(t, ast.Subscript) else None,
                            ast.Name) and t.value.id == table:
                        tgt = ("store", t, n)
            elif isinstance(n, ast.Delete):
                for t in n.targets:
                    if isinstance(t, ast.Subscript) and table in txt(t.value):
                        tgt = ("delete", t, n)
            elif isinstance(n, ast.Call) and isinstance(
                    n.func, ast.Attribute) and n.func.attr in (
                    "update", "pop", "popitem", "clear", "setdefault",
                    "__setitem__", "__delitem__") and (
                    last_attr(n.func.value) == table or isinstance(
                        n.func.value, ast.Name) and n.func.value.id == table):
                tgt = (n.func.attr, n, n)
            if tgt:
                writers.append((rel, tgt))
    if not writers:
        raise AnalysisError("R6.7: no writer of EXTERNAL_LUTS found")
    for rel, (kind, t, stmt) in writers:
        fn = stmt
        while fn is not None and not isinstance(fn, ast.FunctionDef):
            fn = getattr(fn, "parent", None)
        where = fn.name if fn is not None else "<module>"
        if kind != "store" or fn is None or rel != LUT_LOAD:
            ctx.ob("R6.7", False,
                   f"{rel}::{where} modifies the registry of external LUTs "
                   f"({kind}): an identifier that is part of a recipe hash "
                   f"can come to denote another table", node=stmt,
                   key=f"{rel}::{where}::{kind} {table}")
            continue
        key = txt(t.slice)
        cfg = CFG(fn)
        ids = cfg.ids_of(stmt)
        for reg, label in ((table, "external"),
                           ("get_internal_lut_names_dict()", "internal")):
            def fact(e, truth, reg=reg):
                if isinstance(e, ast.Compare) and len(e.ops) == 1 and txt(
                        e.left) == key and txt(e.comparators[0]) == reg:
                    if isinstance(e.ops[0], ast.In):
                        return truth is False
                    if isinstance(e.ops[0], ast.NotIn):
                        return truth is True
                return False
            ok = all(guarded_by(cfg, i, fact) for i in ids)
            ctx.ob("R6.7", ok,
                   f"{where} stores a table only under an identifier that is "
                   f"not yet an {label} one (write-once)" if ok else
                   f"{where} can store a table under an identifier that is "
                   f"already an {label} LUT identifier: datasets that "
                   f"computed emodulus with the old table keep it (the hash "
                   f"holds the identifier only)", node=stmt,
                   key=f"{rel}::{where}::write-once {label}")
        # the key is not re-bound between the test and the store
        asg = [n for n in walk(fn) if isinstance(n, (ast.Assign, ast.AugAssign))
               and key in {txt(x) for x in (n.targets if isinstance(
                   n, ast.Assign) else [n.target])}]
        late = [a for a in asg if a.lineno >= min(
            (n.lineno for n in walk(fn) if isinstance(n, ast.Compare)
             and txt(n.left) == key and table in txt(n.comparators[0])),
            default=stmt.lineno)]
        ctx.ob("R6.7", not late,
               "the identifier is not re-bound after it was tested" if not
               late else f"`{key}` is re-bound after the registry test",
               node=late[0] if late else stmt,
               key=f"{rel}::{where}::identifier stable", nontrivial=False)


def r69(ctx, repo):
    """`_ancillaries`, `_usertemp`, the basin list, the filter: everything
    a dataset fills lazily must be its own.  An attribute bound at class
    level to a mutable object and mutated in place through ``self`` without
    being re-bound per instance in ``__init__`` is one object for every
    dataset of the process – a feature computed for one measurement would
    be served for another.  Judged for every class of core.py and of the
    format modules (one obligation per class); registries addressed through
    the class name (`AncillaryFeature.features`) are intended sharing."""
    from ..lib_common import shared_class_state
    rels = [CORE, "dclab/rtdc_dataset/feat_temp.py",
            "dclab/rtdc_dataset/fmt_dict.py",
            "dclab/rtdc_dataset/fmt_hdf5/base.py",
            "dclab/rtdc_dataset/fmt_hdf5/events.py",
            "dclab/rtdc_dataset/fmt_hierarchy/base.py",
            "dclab/rtdc_dataset/fmt_hierarchy/events.py",
            "dclab/rtdc_dataset/fmt_tdms/__init__.py",
            FA + "ancillary_feature.py",
            "dclab/rtdc_dataset/feat_anc_plugin/plugin_feature.py"]
    n = 0
    for rel in rels:
        for c in [x for x in ast.walk(repo.tree(rel))
                  if isinstance(x, ast.ClassDef)]:
            n += 1
            found = shared_class_state(c)
            attrs = sorted({a for a, _, _ in found})
            ctx.ob("R6.9", not found,
                   f"{c.name}: no class-level mutable object is mutated "
                   "through an instance" if not found else
                   f"{c.name}: `{attrs[0]}` is bound at class level to a "
                   "mutable object and changed in place through self "
                   f"(`{short(found[0][2], 50)}`), __init__ never gives the "
                   "instance its own: every dataset of the process shares it",
                   node=found[0][2] if found else c,
                   key=f"{rel}::{c.name}::cache state per dataset")
    ctx.stat("R6.9 classes", n)


def run(ctx):
    repo = ctx.repo
    ctx.rule("R6.1", "per registered recipe: every value-affecting read of "
             "a feature / configuration key by the compute function is a "
             "hash ingredient (declared), or its presence is determined "
             "while the recipe is selected", minimum=60)
    ctx.rule("R6.2", "cached data are used only under equal hash and "
             "current availability; stores pair data with the computing "
             "recipe's hash, all outputs (history evaluation)", minimum=1)
    ctx.rule("R6.3", "__contains__ and __getitem__ consult the same sources "
             "under the same conditions (history evaluation)", minimum=3)
    ctx.rule("R6.4", "emodulus precedence case C > B > A", minimum=8)
    ctx.rule("R6.5", "AncillaryFeature.hash digests req_features, "
             "req_config values, non-boolean req_func results; obj2bytes "
             "covers the container kinds", minimum=8)
    ctx.rule("R6.6", "plugin dependency lists passed on unchanged; "
             "temporary features read-only and refresh children", minimum=6)
    ctx.rule("R6.8", "availability of recipes is decided afresh on every "
             "call (no memo, no short-cut return)", minimum=4)
    ctx.rule("R6.7", "the registry of external look-up tables is write-once "
             "(recipe hashes contain the LUT identifier only)", minimum=2)
    ctx.rule("R6.9", "the caches of computed / temporary features belong "
             "to one dataset: no class-level mutable object of the dataset "
             "classes is mutated through self", minimum=8)
    r69(ctx, repo)
    instances = fold_registry(repo)
    ctx.stat("registered recipes folded", len(instances))
    ctx.stat("recipes per module", {
        m: sum(1 for i in instances if i.rel.endswith(m))
        for m in AF_MODULES})
    if len(instances) < 33:
        raise AnalysisError(f"only {len(instances)} recipes folded (33 "
                            f"confirmed by hand)")
    ctx.registry = instances
    r61(ctx, repo, instances)
    r62_eval(ctx, repo)
    r63(ctx, repo)
    r64(ctx, instances)
    r64_eval(ctx, repo)
    r65(ctx, repo)
    r66(ctx, repo)
    r67(ctx, repo)
    r68(ctx, repo)


def crossval(ctx):
    """thorough: compare the folded registry with the imported package"""
    import json
    import subprocess
    code = (
        "import json, dclab\n"
        "from dclab.rtdc_dataset.feat_anc_core import AncillaryFeature as A\n"
        "out=[]\n"
        "for f in A.features:\n"
        "    if type(f).__name__!='AncillaryFeature': continue\n"
        "    out.append([f.feature_name, f.method.__name__, "
        "sorted(f.req_features), sorted([s,sorted(k)] for s,k in "
        "f.req_config), f.priority, getattr(f.req_func,'__name__','')])\n"
        "print(json.dumps(out))\n")
    try:
        r = subprocess.run(["/venv/bin/python", "-c", code],
                           capture_output=True, text=True, timeout=120,
                           cwd="/tmp")
        real = json.loads(r.stdout.strip().splitlines()[-1])
    except Exception as e:
        return {"status": "skipped", "reason": str(e)[:200]}
    mine = []
    for i in ctx.registry:
        mine.append([i.feature_name, i.method[1].name,
                     sorted(i.req_features),
                     sorted([s, sorted(k)] for s, k in i.req_config),
                     i.priority, i.req_func_name() or "<lambda>"])
    a = sorted(json.dumps(x) for x in mine)
    b = sorted(json.dumps(x) for x in real)
    if a != b:
        diff = [x for x in a if x not in b][:3] + [x for x in b
                                                   if x not in a][:3]
        raise AnalysisError("folded registry disagrees with the imported "
                            f"package: {diff}")
    return {"status": "agrees", "recipes": len(a)}


def _drop(s, what):
    return s.replace(what, "")


MUTANTS = [
    ("ancillary cache shared through a class-level dict", CORE,
     [("class RTDCBase(abc.ABC):\n",
       "class RTDCBase(abc.ABC):\n    _ancillaries = {}\n"),
      ("        self._ancillaries = {}\n", "")], "R6.9"),
    ("recipe identifier not part of the hash (F06h returns)",
     "dclab/rtdc_dataset/feat_anc_core/ancillary_feature.py",
     ("        if self.identifier:\n"
      "            hasher.update(obj2bytes(self.identifier))\n", ""), "R6.2"),
    ("temporary features looked up after cached ancillaries (seeded C06_12)",
     CORE,
     [("        elif feat in self._usertemp:\n"
       "            return self._usertemp[feat]\n", ""),
      ("        if data is not None:\n            return data\n"
       "        # 2. Check for h5dataset-based",
       "        if data is not None:\n            return data\n"
       "        if feat in self._usertemp:\n"
       "            return self._usertemp[feat]\n"
       "        # 2. Check for h5dataset-based")], "R6."),
    ("config text lower-cased before hashing (seeded C05_11)",
     FA + "ancillary_feature.py",
     ('                data = "{}:{}={}".format(sec, key, val)\n',
      '                data = "{}:{}={}".format(sec, key, val).lower()\n'),
     "R6.5"),
    ("availability memoised on a revision counter (seeded C06_10)",
     FA + "ancillary_feature.py",
     ("        # TODO: This is quite slow.\n        cols = {}\n",
      "        memo = getattr(rtdc_ds, '_anc_avail', None)\n"
      "        if memo is not None and memo[0] == len(rtdc_ds._usertemp):\n"
      "            return memo[1]\n        cols = {}\n"), "R6.8"),
    ("large arrays digested by head and tail only (seeded C04_8)",
     "dclab/util.py",
     ("    elif isinstance(obj, np.ndarray):\n        return obj.tobytes()\n",
      "    elif isinstance(obj, np.ndarray):\n"
      "        if obj.nbytes > 1048576:\n"
      "            flat = obj.reshape(-1)\n"
      "            return flat[:8192].tobytes() + flat[-8192:].tobytes()\n"
      "        return obj.tobytes()\n"), "R6.5"),
    ("LUT re-registration allowed for the same file name (seeded C06_9)",
     LUT_LOAD,
     ("    if identifier in EXTERNAL_LUTS:\n",
      "    if (identifier in EXTERNAL_LUTS and pathlib.Path(\n"
      "            EXTERNAL_LUTS[identifier]).name != pathlib.Path(path).name):\n"),
     "R6.7"),
    ("LUT registry check dropped", LUT_LOAD,
     ("    if identifier in EXTERNAL_LUTS:\n"
      "        raise ValueError(\"A LUT with an identifier '{}' \".format(identifier)\n"
      "                         + \"has already been registered!\")\n"
      "    elif identifier in", "    if identifier in"), "R6.7"),
    ("case A recipes lose the viscosity model (seeded C06_8)",
     FA + "af_emodulus.py",
     [('                         req_config=[["calculation", vm + [\n'
       '                                        "emodulus lut",\n'
       '                                        "emodulus medium"]],',
       '                         req_config=[["calculation", [\n'
       '                                        "emodulus lut",\n'
       '                                        "emodulus medium"]],'),
      ('                                                "emodulus viscosity",\n'
       '                                                "emodulus viscosity model"]]',
       '                                                "emodulus viscosity"]]')],
     "R6.1"),
    ("area_um: pixel size not declared", FA + "af_basic.py",
     ('                     req_config=[["imaging", ["pixel size"]]],\n'
      '                     req_features=["area_cvx"])',
      '                     req_features=["area_cvx"])'), "R6.1"),
    ("time: frame rate not declared", FA + "af_basic.py",
     ('                 req_config=[["imaging", ["frame rate"]]],\n', ""),
     "R6.1"),
    ("aspect: size_y not declared", FA + "af_basic.py",
     ('req_features=["size_x", "size_y"]', 'req_features=["size_x"]'),
     "R6.1"),
    ("volume: pos_y not declared", FA + "af_image_contour.py",
     ('req_features=["contour", "pos_x", "pos_y"]',
      'req_features=["contour", "pos_x"]'), "R6.1"),
    ("volume: pixel size not declared", FA + "af_image_contour.py",
     ('                     req_features=["contour", "pos_x", "pos_y"],\n'
      '                     req_config=[["imaging", ["pixel size"]]])',
      '                     req_features=["contour", "pos_x", "pos_y"])'),
     "R6.1"),
    ("bright: mask not declared", FA + "af_image_contour.py",
     ('AncillaryFeature(feature_name="bright_avg",\n'
      '                     method=compute_bright,\n'
      '                     req_features=["image", "mask"])',
      'AncillaryFeature(feature_name="bright_avg",\n'
      '                     method=compute_bright,\n'
      '                     req_features=["image"])'), "R6.1"),
    ("emodulus known media: new undeclared read", FA + "af_emodulus.py",
     ('        visc_model=calccfg.get("emodulus viscosity model", '
      '"herold-2017"),\n',
      '        visc_model=calccfg.get("emodulus viscosity model", '
      '"herold-2017"),\n        extrapolate=calccfg.get("emodulus '
      'extrapolate", False),\n'), "R6.1"),
    ("emodulus: channel width undeclared", FA + "af_emodulus.py",
     ('["setup", ["flow rate", "channel width"]]\n'
      '                                     ],\n'
      '                         req_func=check_and_identify,\n'
      '                         priority=0 + pr)',
      '["setup", ["flow rate"]]\n'
      '                                     ],\n'
      '                         req_func=check_and_identify,\n'
      '                         priority=0 + pr)'), "R6.1"),
    ("emodulus: viscosity not hashed (F06a returns)", FA + "af_emodulus.py",
     ('                                                "emodulus viscosity",\n',
      ''), "R6.1"),
    ("emodulus: medium not hashed (F06e returns)", FA + "af_emodulus.py",
     ('for key in ["emodulus medium",\n'
      '                                                "emodulus temperature",',
      'for key in ["emodulus temperature",'), "R6.1"),
    ("emodulus: requirement function boolean again", FA + "af_emodulus.py",
     ("req_func=check_and_identify,\n                         priority=4 + pr)",
      "req_func=is_channel,\n                         priority=4 + pr)"),
     "R6.1"),
    ("ctc two-channel: optional data not hashed (F06b returns)",
     FA + "af_fl_max_ctc.py",
     ("                         req_func=identify_optional_data,\n", "", 0),
     "R6.1"),
    ("ctc: third channel presence not hashed (F06f returns)",
     FA + "af_fl_max_ctc.py",
     ('    idlist.append(("fl3_max", "fl3_max" in mm))\n', ""), "R6.1"),
    ("bright_bc: bg_off not hashed (F06d returns)",
     FA + "af_image_contour.py",
     ('                     req_features=["image", "image_bg", "mask"],\n'
      '                     req_func=identify_bg_off)',
      '                     req_features=["image", "image_bg", "mask"])', 0),
     "R6.1"),
    ("ml_class: temporary score data not hashed (F06c returns)",
     FA + "af_ml_class.py",
     ("idlist.append((feat, tdata, [c.hash(mm) for c in candidates]))",
      "idlist.append((feat, [c.hash(mm) for c in candidates]))"), "R6.1"),
    ("hash: cached upstream hash instead of data (seeded C06_4)",
     FA + "ancillary_feature.py",
     ("            hasher.update(obj2bytes(rtdc_ds[col]))\n",
      "            if col in rtdc_ds._ancillaries:\n"
      "                hasher.update(obj2bytes(rtdc_ds._ancillaries[col][0]))\n"
      "            else:\n"
      "                hasher.update(obj2bytes(rtdc_ds[col]))\n"), "R6.5"),
    ("ml_class: recipe identifiers instead of hashes (seeded C06_5)",
     FA + "af_ml_class.py",
     ("[c.hash(mm) for c in candidates]",
      "[c.identifier for c in candidates]"), "R6.1"),
    ("core: cached shortcut in __contains__ (F06g returns)", CORE,
     ("            if feat in AncillaryFeature.feature_names:\n"
      "                # get all instance",
      "            if feat in self._ancillaries:\n                ct = True\n"
      "            elif feat in AncillaryFeature.feature_names:\n"
      "                # get all instance"), "R6."),
    ("emodulus case A: temp feature undeclared", FA + "af_emodulus.py",
     ('req_features=["area_um", "deform", "temp"]',
      'req_features=["area_um", "deform"]'), "R6.1"),
    ("emodulus: priorities B above C", FA + "af_emodulus.py",
     ("                     priority=2)", "                     priority=6)"),
     "R6.4"),
    ("emodulus: A above B", FA + "af_emodulus.py",
     ("priority=0 + pr)", "priority=3 + pr)"), "R6.4"),
    ("ctc three-channel: key dropped", FA + "af_fl_max_ctc.py",
     ('                 "crosstalk fl13",\n                 "crosstalk fl23"])',
      '                 "crosstalk fl13"])'), "R6.1"),
    ("hash: config values skipped", FA + "ancillary_feature.py",
     ('                data = "{}:{}={}".format(sec, key, val)',
      '                data = "{}:{}".format(sec, key)'), "R6.5"),
    ("hash: features skipped", FA + "ancillary_feature.py",
     ("            hasher.update(obj2bytes(rtdc_ds[col]))",
      "            hasher.update(obj2bytes(col))"), "R6.5"),
    ("hash: req_func result dropped", FA + "ancillary_feature.py",
     ("            hasher.update(obj2bytes(reqret))", "            pass"),
     "R6.5"),
    ("core: hash comparison removed", CORE,
     ("                    if self._ancillaries[feat][0] == anhash:\n",
      "                    if True:\n"), "R6."),
    ("core: availability test removed", CORE,
     ("            if feat in ancol:\n                # The feature is "
      "generally available.",
      "            if True:\n                # The feature is generally "
      "available."), "R6."),
    ("core: __contains__ ignores temporary features", CORE,
     ("                or feat in self._usertemp\n", ""), "R6."),
    ("plugin: required features not passed",
     "dclab/rtdc_dataset/feat_anc_plugin/plugin_feature.py",
     ('            req_features=self.plugin_feature_info["features required"],'
      '\n', ""), "R6.6"),
    ("temp feature writable", "dclab/rtdc_dataset/feat_temp.py",
     ("        data_ro.setflags(write=False)\n", ""), "R6.6"),
    ("temp feature: no rejuvenate", "dclab/rtdc_dataset/feat_temp.py",
     ("        rtdc_ds.rejuvenate()\n", ""), "R6.6"),
    ("obj2bytes: ndarray shape only", "dclab/util.py",
     ("        return obj.tobytes()", "        return str(obj.shape).encode()"),
     "R6.5"),
]

TWINS = [
    ("core: data stored without a hash are never served (recomputed on "
     "every access: slower, not stale)", CORE,
     ("self._ancillaries[okey] = (anhash, data_dict[okey])",
      "self._ancillaries[okey] = (None, data_dict[okey])")),
    ("area_um: local alias of config section", FA + "af_basic.py",
     ('    pxs = mm.config["imaging"]["pixel size"]\n',
      '    imcfg = mm.config["imaging"]\n    pxs = imcfg["pixel size"]\n')),
    ("emodulus: helper extracted", FA + "af_emodulus.py",
     ('    calccfg = mm.config["calculation"]\n\n    medium = ',
      '    calccfg = mm.config["calculation"]\n    _unused = 1\n\n'
      '    medium = ')),
    ("ctc: loops over tuples instead of lists", FA + "af_fl_max_ctc.py",
     ("    for i in [1, 2, 3]:\n        for j in [1, 2, 3]:",
      "    for i in (1, 2, 3):\n        for j in (1, 2, 3):", 0)),
    ("bright: requirement function as lambda", FA + "af_image_contour.py",
     ("                     req_func=identify_bg_off)",
      "                     req_func=lambda mm: identify_bg_off(mm))", 0)),
    ("volume: keyword order", FA + "af_image_contour.py",
     ('        cont=mm["contour"],\n        pos_x=mm["pos_x"],\n',
      '        pos_x=mm["pos_x"],\n        cont=mm["contour"],\n')),
    ("hash: f-string instead of format", FA + "ancillary_feature.py",
     ('                data = "{}:{}={}".format(sec, key, val)',
      '                data = f"{sec}:{key}={val}"')),
]
