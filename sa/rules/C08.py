"""C08 – compress / repack / condense / tdms2rtdc preserve dataset content.

*Finite-model* rules evaluate the syntax of ``copier.py`` and
``condense_dataset`` with the analyser's interpreter (:mod:`sa.lib_C04`) on a
family of model HDF5 files (:mod:`sa.lib_C08`) that enumerates the storage
layouts of the property (contiguous / chunked / chunk larger than the data /
weakly compressed / properly compressed, variable- and fixed-length string
logs, empty logs and datasets, n-d data, groups, compound tables with
attributes, internal basin data, defective-feature markers) and all options of
``rtdc_copy``; the output model is compared with the input model.

R8.1 attribute preservation: every object that a copy route creates from a
     source object carries the source's attributes (file root, feature
     datasets – manual and verbatim route –, group members, logs, tables).
R8.3 input read-only: (a) on the model the source file is sealed – any
     mutation is a violation; (b) taint in ``copier.py``: no write-capable
     operation receives a value derived from a ``src*`` parameter; (c) every
     ``rtdc_copy`` call of the tasks passes the input handle as source and the
     temp-file handle as destination.
R8.4 every layout branch of ``h5ds_copy`` writes the whole destination with
     the source's values (no element left unwritten, strings not truncated),
     under the requested name, and returns it.
R8.5 ``condense_dataset`` stores exactly loaded ∪ basin ∪ ancillary scalar
     features (per option), each once with the dataset's data, none twice;
     logs survive; the defective-feature table of the copier is the reader's.
R8.6 ``rtdc_copy`` selects the documented feature set for every value of
     ``features`` / ``include_*`` and completes on every model file (no
     run-time fault such as dereferencing the result of an ignored dataset).
R8.7 fixpoint: every dataset that the manual route creates satisfies
     ``is_properly_compressed``; copying the copy reproduces it verbatim.
R8.8 ``tdms2rtdc`` exports the dataset's own feature list with the filter
     that removes the empty boundary images and keeps the source logs.
R8.9 the predicates of ``DEFECTIVE_FEATURES`` (shared by copier and reader)
     evaluated on model attribute sets: every entry has a replacing ancillary
     recipe; ``time`` (imprecise, not wrong) is declared defective only when
     that recipe's requirements – folded from its registration – are present
     and usable (frame, non-zero frame rate); each predicate equals its
     documented decision table (software versions, image width, repair log).
"""
from __future__ import annotations

import ast
import itertools
import re as _re

from ..core import (AnalysisError, call_name, const_str, find_calls, kwarg,
                    last_attr, names_in, short, txt, walk)
from .. import lib_C04 as L
from .. import lib_C08 as H
from ..normalize import inline_helpers

ASSUMPTIONS = [
    "NOT decided: value identity over real HDF5 files; decided is the copy "
    "logic on model files (rank <= 2, <= 5 events, one representative per "
    "storage layout) under the analyser's model of h5py / hdf5plugin "
    "(sa/lib_C08.py; its behaviour was compared with h5py at run time).",
    "By design of dclab and not reported: empty datasets (logs, features) are "
    "dropped by h5ds_copy; features unknown to dclab are not copied; "
    "attributes of HDF5 *groups* (e.g. events/trace) are not copied; "
    "`meta_prefix` is applied to logs only although the docstring names "
    "tables too (all tasks pass an empty prefix).",
    "basin_definition_copy (R8.2 = R7.4) is analysed under C07; here it is "
    "replaced by a stub that records the call.",
    "Roles of the task parameters are those of C10 (R10.1 decides that the "
    "input path never reaches a write-capable sink).",
]

COPIER = "dclab/rtdc_dataset/copier.py"
CONDENSE = "dclab/cli/task_condense.py"
COMPRESS = "dclab/cli/task_compress.py"
REPACK = "dclab/cli/task_repack.py"
TDMS = "dclab/cli/task_tdms2rtdc.py"
COMMON = "dclab/cli/common.py"
UTIL = "dclab/util.py"
WRITER = "dclab/rtdc_dataset/writer.py"
DEFECT = "dclab/rtdc_dataset/fmt_hdf5/feat_defect.py"
H5INIT = "dclab/rtdc_dataset/fmt_hdf5/__init__.py"
H5EVENTS = "dclab/rtdc_dataset/fmt_hdf5/events.py"

SCALAR = {"deform", "area_um", "bright_avg", "circ", "aspect", "volume",
          "userdef1", "userdef2", "basinmap0", "basinmap1", "time",
          "emodulus",
          "bright_sd", "area_ratio", "ml_score_abc"}
NONSCALAR = {"image", "trace", "mask", "contour"}


def feature_exists(name, scalar_only=False):
    return name in SCALAR or (not scalar_only and name in NONSCALAR)


def scalar_feature_exists(name):
    return name in SCALAR


class NPStat:
    """np.nanmin & co: a token describing the reduction"""

    def __init__(self, name):
        self.name = name

    def __call__(self, ds, *a, **k):
        if not isinstance(ds, (H.H5Dataset, H.H5Data)):
            raise L.ModelFault("TypeError", f"np.{self.name} of "
                               f"{type(ds).__name__}")
        return f"{self.name}({getattr(ds, 'name', 'data')})"


# ----------------------------------------------------------------------
# model source files

def _vals(n, tag, k=None):
    if k is None:
        return [f"{tag}{i}" for i in range(n)]
    return [f"{tag}{i}.{j}" for i in range(n) for j in range(k)]


def make_source(variant="base", n=5):
    """model input file; `variant` selects the special cases"""
    f = H.H5File(f"input[{variant}]", readonly=True)
    dict.update(f.attrs, {"experiment:event count": n,
                          "setup:software version": "ShapeIn 2.2 | dclab 0.60",
                          "imaging:pixel size": 0.34})
    ev = f.create_group("events")
    z5 = {H.ZSTD: (1, (5,), b"zstd")}
    z3 = {H.ZSTD: (1, (3,), b"zstd")}

    def add(grp, name, shape, dtype, tag, chunks=None, filters=None,
            fl32=False, attrs=None, k=None):
        data = _vals(shape[0], tag, k)
        d = H.H5Dataset(grp, name, shape, dtype, chunks, filters, fl32, data)
        grp.members[name] = d
        # every layout representative carries attributes
        dict.update(d.attrs, attrs or {"origin": f"attr of {name}"})
        return d
    F = H.DType("f")
    add(ev, "deform", (n,), F, "d", chunks=(2,), attrs={"unit": "1"})
    add(ev, "area_um", (n,), F, "a")
    add(ev, "bright_avg", (n,), F, "b", chunks=(100,),
        attrs={"min": "m0", "note": "x"})
    add(ev, "circ", (n,), F, "c", chunks=(3,), filters=z5, fl32=True,
        attrs={"min": "cmin", "max": "cmax", "mean": "cmean"})
    add(ev, "aspect", (n,), F, "s", chunks=(2,), filters=z3)
    add(ev, "volume", (n,), F, "v", chunks=(n,))
    add(ev, "basinmap0", (n,), H.DType("i"), "m", chunks=(n,))
    add(ev, "basinmap1", (n,), H.DType("i"), "q", chunks=(n,))
    add(ev, "image", (n, 2), H.DType("u"), "i", chunks=(2, 1), k=2,
        attrs={"CLASS": "IMAGE", "IMAGE_VERSION": "1.2"})
    add(ev, "not_a_feature", (n,), F, "x")
    tr = ev.create_group("trace")
    add(tr, "fl1_raw", (n, 3), H.DType("i"), "t", chunks=(2, 3), k=3,
        attrs={"ch": 1})
    add(tr, "fl2_raw", (n, 3), H.DType("i"), "u", k=3)
    lg = f.create_group("logs")
    S100 = H.DType("S", 100)
    d = H.H5Dataset(lg, "fixed", (3,), S100, (1,), None, False,
                    [b"line one", b"line two", b"3"])
    lg.members["fixed"] = d
    dict.update(d.attrs, {"origin": "shape-in"})
    long_line = ("x" * 130).encode()
    d = H.H5Dataset(lg, "vlen", (3,), H.DType("O"), None, None, False,
                    [b"short", long_line, b""])
    lg.members["vlen"] = d
    dict.update(d.attrs, {"origin": "old dclab"})
    d = H.H5Dataset(lg, "proper", (2,), S100, (2,), z5, True, [b"p", b"q"])
    lg.members["proper"] = d
    dict.update(d.attrs, {"origin": "dclab"})
    d = H.H5Dataset(lg, "dclab-condense", (1,), S100, (1,), z5, True,
                    [b"old condense log"])
    lg.members["dclab-condense"] = d
    tb = f.create_group("tables")
    d = H.H5Dataset(tb, "tab1", (4,), H.DType("V"), None, None, False,
                    [("r%d" % i, i) for i in range(4)])
    tb.members["tab1"] = d
    dict.update(d.attrs, {"COLOR_a": "red", "unit": "s"})
    be = f.create_group("basin_events")
    add(be, "userdef2", (3,), F, "w", chunks=(3,))
    bs = f.create_group("basins")
    d = H.H5Dataset(bs, "abc123", (2,), S100, (1,), z5, True,
                    [b"{", b"}"])
    bs.members["abc123"] = d
    if variant == "empty-log":
        d = H.H5Dataset(lg, "empty", (0,), S100, (1,), None, False, [])
        lg.members["empty"] = d
    elif variant == "empty-scalar":
        d = H.H5Dataset(ev, "userdef1", (0,), F, (100,), None, False, [])
        ev.members["userdef1"] = d
    elif variant == "empty-image":
        d = H.H5Dataset(ev, "mask", (0, 2), H.DType("u"), (10, 2), None,
                        False, [])
        ev.members["mask"] = d
    elif variant == "defective":
        dict.update(f.attrs, {"model:volume defective": True})
    elif variant == "minimal":
        for k in ("logs", "tables", "basin_events", "basins"):
            del f.members[k]
    elif variant != "base":
        raise AnalysisError(f"unknown model variant {variant}")
    f.seal()
    return f


VARIANTS = ["base", "empty-log", "empty-scalar", "empty-image", "defective",
            "minimal"]


def defective_table():
    return {"volume": lambda h5: bool(h5.attrs.get(
        "model:volume defective", False)),
        "aspect": lambda h5: False}


class Recorder:
    def __init__(self):
        self.calls = []


class MaskedStats:
    """np.ma.masked_invalid(data): provider of min / max / mean tokens (the
    values of the statistics belong to C20)"""
    _strict_attrs = True

    def __init__(self, data):
        if not isinstance(data, (H.H5Dataset, H.H5Data)):
            raise L.ModelFault("TypeError", "masked_invalid of "
                               f"{type(data).__name__}")

    def min(self, *a, **k):
        return "min(masked data)"

    def max(self, *a, **k):
        return "max(masked data)"

    def mean(self, *a, **k):
        return "mean(masked data)"


def copier_env(repo, rec):
    it = L.Interp(repo)
    np_ = L.NPModel({"nanmin": NPStat("nanmin"), "nanmax": NPStat("nanmax"),
                     "nanmean": NPStat("nanmean"),
                     "min": NPStat("min"), "max": NPStat("max"),
                     "mean": NPStat("mean"), "median": NPStat("median"),
                     "std": NPStat("std"), "nanstd": NPStat("nanstd"),
                     "nanmedian": NPStat("nanmedian"),
                     "amin": NPStat("amin"), "amax": NPStat("amax"),
                     "ma": L.namespace("np.ma", masked_invalid=MaskedStats,
                                       masked_array=MaskedStats)})

    def basin_definition_copy(src_h5file, dst_h5file, features_iter):
        rec.calls.append(("basin_definition_copy", src_h5file, dst_h5file,
                          list(features_iter)))
        dst_h5file.require_group("basins")
    ext = {"np": np_, "h5py": H.h5py_namespace(),
           "hdf5plugin": H.hdf5plugin_namespace(), "re": _re,
           "json": L.Opaque("json"), "hashobj": lambda o: "hash",
           "feature_exists": feature_exists,
           "scalar_feature_exists": scalar_feature_exists,
           "DEFECTIVE_FEATURES": defective_table(),
           "RTDC_HDF5": L.Opaque("RTDC_HDF5"),
           "RTDCWriter": L.Opaque("RTDCWriter"),
           "basin_definition_copy": basin_definition_copy}
    return it, it.env(COPIER, ext)


# ----------------------------------------------------------------------
# comparison helpers (specification)

def layout_of(ds):
    if ds.size == 0:
        return "empty"
    if ds.dtype.kind == "O":
        return "variable-length strings"
    z = ds.filters.get(H.ZSTD)
    if z is not None and z[1][0] >= 5:
        return "properly compressed"
    if z is not None:
        return "weakly compressed"
    if ds.chunks is None:
        return "contiguous"
    if ds.chunks[0] > ds.shape[0]:
        return "chunk larger than data"
    return "chunked" if ds.ndim == 1 else "chunked n-d"


def compare_dataset(src, dst, allow_extra=()):
    """-> dict aspect -> problem text (missing aspects are fine)"""
    out = {}
    if not isinstance(dst, H.H5Dataset):
        return {"data": f"destination is {dst!r}, not a dataset"}
    if dst.shape != src.shape:
        out["data"] = f"shape {dst.shape} instead of {src.shape}"
    else:
        sv, dv = src.flat(), dst.flat()
        if any(v is H.FILL for v in dv):
            k = [i for i, v in enumerate(dv) if v is H.FILL]
            out["data"] = (f"{len(k)} of {len(dv)} elements are never "
                           f"written (first: element {k[0]})")
        else:
            if src.dtype.kind in "OS":
                sv = [v.encode() if isinstance(v, str) else v for v in sv]
            if sv != dv:
                k = [i for i, (a, b) in enumerate(zip(sv, dv)) if a != b][0]
                out["data"] = (f"element {k} is {dv[k]!r:.40}, source has "
                               f"{sv[k]!r:.40}")
    sk, dk = src.dtype.kind, dst.dtype.kind
    if not (sk == dk or (sk == "O" and dk == "S")):
        out["dtype"] = f"dtype kind {dk} instead of {sk}"
    sa = dict(src.attrs)
    da = dict(dst.attrs)
    for k in allow_extra:
        if k in da and k not in sa:
            del da[k]
    if sa != da:
        miss = sorted(set(sa) - set(da))
        diff = sorted(k for k in sa if k in da and sa[k] != da[k])
        extra = sorted(set(da) - set(sa))
        out["attrs"] = (f"attributes differ: missing {miss}, changed {diff}, "
                        f"extra {extra}")
    return out


class Agg:
    """aggregates evaluations into one obligation per label"""

    def __init__(self):
        self.items = {}

    def add(self, rule, label, node, ok, detail):
        it = self.items.setdefault((rule, label), [node, 0, None])
        it[1] += 1
        if not ok and it[2] is None:
            it[2] = detail

    def flush(self, ctx, good):
        for (rule, label), (node, n, bad) in self.items.items():
            ctx.ob(rule, bad is None,
                   (good.get((rule, label)) or good.get(rule) or "holds")
                   + f" ({n} model evaluations)" if bad is None else bad,
                   node=node, label=label)


# ----------------------------------------------------------------------
# R8.4 / R8.1 / R8.7 on h5ds_copy

def eval_h5ds_copy(ctx, repo, agg):
    rec = Recorder()
    it, env = copier_env(repo, rec)
    node = repo.func(COPIER, "h5ds_copy")
    ipc_node = func_anywhere(repo, COPIER, "is_properly_compressed")
    fn = env.lookup("h5ds_copy")
    ipc = env.lookup("is_properly_compressed")
    n_eval = 0
    for variant in ("base", "empty-log", "empty-scalar", "empty-image"):
        src = make_source(variant)
        sites = [(src["events"], k) for k in src["events"].keys()] + [
            (src["logs"], k) for k in src["logs"].keys()] + [
            (src["basin_events"], "userdef2"),
            (src["events"]["trace"], "fl1_raw")]
        for (grp, name), ens, dname in itertools.product(
                sites, (True, False), (None, "renamed")):
            obj = grp[name]
            dst = H.H5File("output")
            dloc = dst.create_group("grp")
            n_eval += 1
            kw = dict(src_loc=grp, src_name=name, dst_loc=dloc,
                      ensure_compression=ens)
            if dname:
                kw["dst_name"] = dname
            res = L.run(lambda: fn(**kw))
            want_name = dname or name
            members = ([(obj, None)] if isinstance(obj, H.H5Dataset) else
                       [(m, k) for k, m in obj.members.items()])
            lay = (layout_of(obj) if isinstance(obj, H.H5Dataset)
                   else "group")
            if not ens and lay != "group":
                lay = "compression not requested"
            where = f"{obj.name} ({lay}), ensure_compression={ens}" \
                    f"{', dst_name=' + dname if dname else ''}"
            if res[0] != "ok":
                agg.add("R8.4", f"completes [{lay}]", node, False,
                        f"h5ds_copy fails on {where}: {_res(res)}")
                continue
            agg.add("R8.4", f"completes [{lay}]", node, True, "")
            if src.write_attempts:
                agg.add("R8.3", "model source stays untouched", node, False,
                        f"h5ds_copy writes to the source: "
                        f"{src.write_attempts[0]}")
            if lay == "empty":
                ok = want_name not in dloc or compare_dataset(
                    obj, dloc[want_name]) == {}
                agg.add("R8.4", "data [empty]", node, ok,
                        f"{where}: an empty dataset is neither ignored nor "
                        f"copied faithfully")
                continue
            if want_name not in dloc:
                agg.add("R8.4", f"data [{lay}]", node, False,
                        f"{where}: nothing is created under the name "
                        f"{want_name!r} (destination has "
                        f"{dloc.keys()})")
                continue
            got = dloc[want_name]
            ok = res[1] is got
            agg.add("R8.4", "returns the destination object", node, ok,
                    f"{where}: returns {res[1]!r} instead of "
                    f"dst_loc[{want_name!r}]")
            for m, key in members:
                d = got if key is None else (
                    got.members.get(key) if isinstance(got, H.H5Group)
                    else None)
                if isinstance(m, H.H5Group):
                    continue
                if m.size == 0:
                    continue
                if d is None:
                    agg.add("R8.4", f"data [{lay}]", node, False,
                            f"{where}: member {key!r} is not copied")
                    continue
                cmpd = compare_dataset(m, d)
                lay_m = lay if key is None else f"group member, " \
                    f"{layout_of(m)}"
                agg.add("R8.4", f"data [{lay_m}]", node,
                        "data" not in cmpd and "dtype" not in cmpd,
                        f"{where}: " + (cmpd.get("data") or cmpd.get(
                            "dtype") or ""))
                route = ("verbatim route" if (not ens or layout_of(m)
                                               == "properly compressed")
                         else "manual route")
                agg.add("R8.1", f"dataset attributes [{route}]", node,
                        "attrs" not in cmpd,
                        f"{where}: " + cmpd.get("attrs", ""))
                if ens:
                    r2 = L.run(lambda: ipc(d))
                    agg.add("R8.7", "output of the copy is properly "
                            "compressed", ipc_node, r2 == ("ok", True),
                            f"{where}: is_properly_compressed(copy) is "
                            f"{_res(r2)} – the next compress run would "
                            f"re-encode it again")
                    ok = d.fletcher32 or route == "verbatim route"
                    agg.add("R8.7", "checksums on re-encoded data", node, ok,
                            f"{where}: re-encoded without fletcher32")
    # the chunk-wise branch covers [0, N) for every length: datasets whose
    # elements are so large that any size-based slab is one chunk (2 events)
    for nn in (1, 2, 3, 4, 5, 6, 7):
        srcf = H.H5File("input[slab sizes]", readonly=True)
        g = srcf.create_group("events")
        big = H.DType("V", itemsize=8 * 1024 ** 2)
        d = H.H5Dataset(g, "image", (nn,), big, (2,), None, False,
                        [f"frame{i}" for i in range(nn)])
        g.members["image"] = d
        srcf.seal()
        dst = H.H5File("output")
        dloc = dst.create_group("grp")
        res = L.run(lambda: fn(src_loc=g, src_name="image", dst_loc=dloc))
        where = f"chunked dataset of {nn} events, chunks of 2 events"
        if res[0] != "ok":
            agg.add("R8.4", "data [every length of a chunked dataset]", node,
                    False, f"h5ds_copy fails on a {where}: {_res(res)}")
            continue
        cmpd = compare_dataset(d, dloc.members.get("image"))
        agg.add("R8.4", "data [every length of a chunked dataset]", node,
                "data" not in cmpd, f"{where}: " + cmpd.get("data", ""))
    # non-dataset without recursion is refused
    src = make_source("base")
    dst = H.H5File("output")
    res = L.run(lambda: fn(src_loc=src["events"], src_name="trace",
                           dst_loc=dst, recursive=False))
    agg.add("R8.4", "group without recursion is refused", node,
            res[0] == "raise" and "trace" not in dst,
            f"h5ds_copy(recursive=False) on a group: {_res(res)}")
    # predicate itself: level threshold
    for lvl, want in ((None, False), (3, False), (5, True), (9, True)):
        d = H.H5Dataset(None, "x", (2,), H.DType("f"), (2,),
                        {} if lvl is None else {H.ZSTD: (1, (lvl,), b"z")},
                        False, [1, 2])
        r = L.run(lambda: ipc(d))
        agg.add("R8.7", "compression predicate", ipc_node,
                r[0] == "ok" and bool(r[1]) is want,
                f"is_properly_compressed(zstd level {lvl}) is {_res(r)}, "
                f"expected {want}")
    ctx.stat("h5ds_copy evaluations", n_eval)


def _res(r):
    if r[0] == "ok":
        return repr(r[1])
    return f"{r[0]} {r[1]}: {r[2]}"


# ----------------------------------------------------------------------
# R8.6 / R8.1 / R8.3 on rtdc_copy

def expected_features(src, features, include_basins):
    ev = list(src["events"].keys()) if "events" in src else []
    if include_basins and "basin_events" in src:
        ev = sorted(set(ev + list(src["basin_events"].keys())))
    if isinstance(features, list):
        sel = list(features)
    elif features == "all":
        sel = list(ev)
    elif features == "scalar":
        sel = [f for f in ev if feature_exists(f, scalar_only=True)]
    else:
        sel = []
    bm = [f for f in ev if _re.match("^basinmap[0-9]*$", f)]
    for f in bm:
        if include_basins and f not in sel:
            sel.append(f)
        if not include_basins and f in sel:
            sel.remove(f)
    return sel


def eval_rtdc_copy(ctx, repo, agg):
    rec = Recorder()
    it, env = copier_env(repo, rec)
    node = repo.func(COPIER, "rtdc_copy")
    fn = env.lookup("rtdc_copy")
    dtab = defective_table()
    n_eval = 0
    feats_opts = ["all", "scalar", "none", ["deform", "image", "userdef2"]]
    for variant in VARIANTS:
        for features, ib, il, itb, prefix in itertools.product(
                feats_opts, (True, False), (True, False), (True, False),
                ("", "src_")):
            if variant not in ("base",) and not (il and itb and prefix == ""):
                continue
            src = make_source(variant)
            dst = H.H5File("output")
            del rec.calls[:]
            n_eval += 1
            fa = list(features) if isinstance(features, list) else features
            res = L.run(lambda: fn(src_h5file=src, dst_h5file=dst,
                                   features=fa, include_basins=ib,
                                   include_logs=il, include_tables=itb,
                                   meta_prefix=prefix))
            opts = (f"features={features!r}, include_basins={ib}, "
                    f"include_logs={il}, include_tables={itb}, "
                    f"meta_prefix={prefix!r}")
            lab = {"base": "completes on the reference file",
                   "empty-log": "completes with an empty log",
                   "empty-scalar": "completes with an empty scalar feature "
                                   "dataset",
                   "empty-image": "completes with an empty n-d feature "
                                  "dataset",
                   "defective": "completes with a defective feature",
                   "minimal": "completes without logs/tables/basins"}[variant]
            if res[0] != "ok":
                agg.add("R8.6", lab, node, False,
                        f"rtdc_copy fails on model file {src.label} with "
                        f"{opts}: {_res(res)}")
                if src.write_attempts:
                    agg.add("R8.3", "model source stays untouched", node,
                            False, f"rtdc_copy modifies the input: "
                            f"{src.write_attempts[0]} ({opts})")
                continue
            agg.add("R8.6", lab, node, True, "")
            agg.add("R8.3", "model source stays untouched", node,
                    not src.write_attempts,
                    f"rtdc_copy modifies the input ({opts})")
            # root attributes
            agg.add("R8.1", "file attributes (metadata)", node,
                    dict(dst.attrs) == dict(src.attrs),
                    f"root attributes differ ({opts}): "
                    f"{sorted(set(src.attrs) ^ set(dst.attrs))}")
            # logs
            slogs = src["logs"].members if "logs" in src else {}
            dlogs = dst["logs"].members if "logs" in dst else {}
            if il:
                for k, m in slogs.items():
                    if m.size == 0:
                        continue
                    d = dlogs.get(prefix + k)
                    c = compare_dataset(m, d) if d is not None else {
                        "data": f"log {prefix + k!r} is missing (output has "
                                f"{sorted(dlogs)})"}
                    agg.add("R8.4", "logs copied under the prefixed name",
                            node, "data" not in c and "dtype" not in c,
                            f"log {k!r} ({layout_of(m)}; {opts}): "
                            + (c.get("data") or c.get("dtype") or ""))
                    agg.add("R8.1", "log attributes", node, "attrs" not in c,
                            f"log {k!r}: " + c.get("attrs", ""))
            else:
                agg.add("R8.6", "logs stripped on request", node, not dlogs,
                        f"include_logs=False but the output has logs "
                        f"{sorted(dlogs)}")
            # tables
            stabs = src["tables"].members if "tables" in src else {}
            dtabs = dst["tables"].members if "tables" in dst else {}
            if itb:
                for k, m in stabs.items():
                    d = dtabs.get(k) or dtabs.get(prefix + k)
                    c = compare_dataset(m, d) if d is not None else {
                        "data": f"table {k!r} is missing"}
                    agg.add("R8.4", "tables copied", node,
                            "data" not in c and "dtype" not in c,
                            f"table {k!r} ({opts}): " + (c.get(
                                "data") or c.get("dtype") or ""))
                    agg.add("R8.1", "table attributes", node,
                            "attrs" not in c,
                            f"table {k!r} of the model input has attributes "
                            f"{sorted(m.attrs)}; in the copy: "
                            + c.get("attrs", ""))
            else:
                agg.add("R8.6", "tables stripped on request", node,
                        not dtabs, "include_tables=False but the output has "
                        f"tables {sorted(dtabs)}")
            # features
            sel = expected_features(src, features, ib)
            want_ev, want_be = {}, {}
            for f in sel:
                if not feature_exists(f):
                    continue
                if f in src["events"]:
                    if f in dtab and dtab[f](src):
                        continue
                    want_ev[f] = src["events"][f]
                elif ib and "basin_events" in src and f in src[
                        "basin_events"]:
                    want_be[f] = src["basin_events"][f]
            dev = dst["events"].members if "events" in dst else {}
            dbe = dst["basin_events"].members if "basin_events" in dst \
                else {}
            nonempty = {k for k, m in want_ev.items() if not (
                isinstance(m, H.H5Dataset) and m.size == 0)}
            empties = set(want_ev) - nonempty
            ok = nonempty <= set(dev) <= nonempty | empties
            agg.add("R8.6", "selected feature set", node, ok,
                    f"{opts} on {src.label}: output has features "
                    f"{sorted(dev)}, expected {sorted(nonempty)}")
            ok = set(dbe) == set(want_be)
            agg.add("R8.6", "internal basin data follow include_basins", node,
                    ok, f"{opts}: output basin_events {sorted(dbe)}, "
                    f"expected {sorted(want_be)}")
            if variant == "defective":
                agg.add("R8.5", "defective feature is not copied", node,
                        "volume" not in dev,
                        "a feature flagged by DEFECTIVE_FEATURES is copied "
                        "to the output (the reader would recompute it, the "
                        "copy presents the wrong data as valid)")
            elif "volume" in want_ev:
                agg.add("R8.5", "sound feature with a defect test is copied",
                        node, "volume" in dev,
                        "a feature whose defect test is negative is dropped")
            for k, m in list(want_ev.items()) + list(want_be.items()):
                d = (dev if k in want_ev else dbe).get(k)
                if d is None or (isinstance(m, H.H5Dataset) and m.size == 0):
                    continue
                pairs = ([(m, d, k)] if isinstance(m, H.H5Dataset) else
                         [(mm, d.members.get(kk) if isinstance(
                             d, H.H5Group) else None, f"{k}/{kk}")
                          for kk, mm in m.members.items()])
                for mm, dd, nm in pairs:
                    extra = ("min", "max", "mean") if (
                        scalar_feature_exists(k) and k in want_ev) else ()
                    c = compare_dataset(mm, dd, allow_extra=extra) \
                        if dd is not None else {"data": "missing"}
                    agg.add("R8.4", "feature data copied", node,
                            "data" not in c and "dtype" not in c,
                            f"feature {nm} ({layout_of(mm)}; {opts}): "
                            + (c.get("data") or c.get("dtype") or ""))
                    agg.add("R8.1", "feature attributes", node,
                            "attrs" not in c, f"feature {nm} ({opts}): "
                            + c.get("attrs", ""))
                    if dd is not None and scalar_feature_exists(k) \
                            and k in want_ev:
                        ok = all(a in dd.attrs for a in ("min", "max",
                                                         "mean"))
                        agg.add("R8.4", "scalar statistics complemented",
                                node, ok, f"feature {nm}: min/max/mean "
                                f"attributes not complemented")
                        # scalar features contain nan (invalid events): a
                        # complemented summary must ignore them, like its
                        # siblings and the summaries the writer stores
                        added = {a: str(dd.attrs[a]) for a in (
                            "min", "max", "mean") if a in dd.attrs
                            and a not in mm.attrs}
                        naive = {a: v for a, v in added.items() if not (
                            v.startswith("nan") or "masked" in v)}
                        agg.add("R8.4", "complemented statistics ignore nan",
                                node, not naive,
                                f"feature {nm}: attribute(s) "
                                f"{sorted(naive)} are complemented with "
                                f"{sorted(naive.values())}: one invalid "
                                f"(nan) event makes the stored summary nan "
                                f"(the other summaries use the nan-aware "
                                f"functions)")
            # basin definitions delegated
            calls = [c for c in rec.calls if c[0] == "basin_definition_copy"]
            want_call = ib and "basins" in src
            ok = (len(calls) == 1) == want_call and all(
                c[1] is src and c[2] is dst and sorted(c[3]) == sorted(sel)
                for c in calls)
            agg.add("R8.6", "basin definitions follow include_basins", node,
                    ok, f"{opts}: basin_definition_copy called "
                    f"{len(calls)}x" + (f" with features {calls[0][3]}, "
                                        f"expected {sel}" if calls else ""))
            # argument list must not be modified when features is a list
            # (documented input, reused by callers) – not claimed
            # fixpoint
            if variant == "base" and features == "all" and ib and il \
                    and itb and prefix == "":
                dst.readonly = True
                dst2 = H.H5File("output of second pass")
                r2 = L.run(lambda: fn(src_h5file=dst, dst_h5file=dst2,
                                      features="all", include_basins=True,
                                      include_logs=True, include_tables=True,
                                      meta_prefix=""))
                dst.readonly = False
                same = r2[0] == "ok" and all(
                    H.dump(dst[g]) == H.dump(dst2[g])
                    for g in ("events", "logs", "basin_events")
                    if g in dst) and dict(dst.attrs) == dict(dst2.attrs)
                agg.add("R8.7", "copy of the copy is identical", node, same,
                        f"a second pass over the output changes it "
                        f"({_res(r2) if r2[0] != 'ok' else 'content differs'})")
    ctx.stat("rtdc_copy evaluations", n_eval)


# ----------------------------------------------------------------------
# R8.3 structural: taint from src* parameters in copier.py

WRITE_METHODS = {"create_dataset", "create_group", "require_group",
                 "require_dataset", "move", "resize", "create", "modify",
                 "update", "pop", "clear", "write_direct", "popitem",
                 "setdefault"}


HANDLE_ATTRS = {"attrs", "id", "file", "parent"}


def r83_taint(ctx, repo):
    n = 0
    for q in ("rtdc_copy", "basin_definition_copy", "h5ds_copy"):
        fn = repo.func(COPIER, q)
        params = [a.arg for a in fn.args.args]
        src = {p for p in params if p.startswith("src")}
        if not src:
            raise AnalysisError(f"copier.{q}: no src* parameter")
        tainted = set(src)
        changed = True
        while changed:
            changed = False
            for s in walk(fn):
                tgt = None
                if isinstance(s, ast.Assign) and len(s.targets) == 1 \
                        and isinstance(s.targets[0], ast.Name):
                    v = s.value
                    # handles derive by subscript / attribute, not by
                    # reading data (`[:]`, list(), keys())
                    base = v
                    while isinstance(base, (ast.Subscript, ast.Attribute)):
                        if isinstance(base, ast.Subscript) and isinstance(
                                base.slice, ast.Slice):
                            base = None
                            break
                        if isinstance(base, ast.Attribute) and base.attr \
                                not in HANDLE_ATTRS:
                            base = None     # plain value (shape, chunks, …)
                            break
                        base = base.value
                    if isinstance(base, ast.Name) and base.id in tainted:
                        tgt = s.targets[0].id
                if tgt and tgt not in tainted:
                    tainted.add(tgt)
                    changed = True

        def root(e):
            while isinstance(e, (ast.Subscript, ast.Attribute)):
                e = e.value
            if isinstance(e, ast.Call) and isinstance(e.func, ast.Attribute):
                return root(e.func.value)
            return e.id if isinstance(e, ast.Name) else None

        def check(node, recv, what):
            nonlocal n
            n += 1
            r = root(recv)
            ok = r not in tainted
            ctx.ob("R8.3", ok,
                   f"{what} acts on `{short(recv, 40)}` (not derived from "
                   f"the source)" if ok else
                   f"{what} acts on `{short(recv, 40)}`, which derives from "
                   f"the source parameter: the input would be modified",
                   node=node, label=f"write sink {short(node, 60)}")
        for s in walk(fn):
            if isinstance(s, (ast.Assign, ast.AugAssign)):
                tg = s.targets if isinstance(s, ast.Assign) else [s.target]
                for t in tg:
                    if isinstance(t, ast.Subscript):
                        check(s, t.value, "item store")
            elif isinstance(s, ast.Delete):
                for t in s.targets:
                    if isinstance(t, ast.Subscript):
                        check(s, t.value, "item delete")
            elif isinstance(s, ast.Call):
                a = last_attr(s)
                if isinstance(s.func, ast.Attribute) and a in WRITE_METHODS:
                    check(s, s.func.value, f".{a}()")
                elif call_name(s) in ("h5py.h5o.copy", "h5o.copy"):
                    d = kwarg(s, "dst_loc", 2)
                    sl = kwarg(s, "src_loc", 0)
                    if d is None or sl is None:
                        raise AnalysisError("h5o.copy: arguments not found")
                    check(s, d, "h5o.copy destination")
                    ok = root(sl) in tainted
                    ctx.ob("R8.3", ok, "h5o.copy reads from the source "
                           "location" if ok else "h5o.copy does not read "
                           "from the source location", node=s,
                           label="h5o.copy source", nontrivial=False)
                elif call_name(s) in ("h5ds_copy", "basin_definition_copy",
                                      "rtdc_copy", "RTDCWriter"):
                    d = (kwarg(s, "dst_loc", 2) if call_name(s)
                         == "h5ds_copy" else kwarg(s, "dst_h5file", 1)
                         if call_name(s) != "RTDCWriter" else
                         kwarg(s, "path_or_h5file", 0))
                    if d is None:
                        raise AnalysisError(f"{call_name(s)}: destination "
                                            f"argument not found")
                    check(s, d, f"{call_name(s)} destination")
    if n < 15:
        raise AnalysisError("copier.py: write sinks lost")


def r83_tasks(ctx, repo):
    """every rtdc_copy call of the tasks: src = input handle (opened without
    a write mode / dataset's h5file), dst = handle of the temp file"""
    def binding(fn, name):
        for w in walk(fn):
            if isinstance(w, ast.With):
                for it in w.items:
                    if isinstance(it.optional_vars, ast.Name) \
                            and it.optional_vars.id == name:
                        return it.context_expr
            # name = stack.enter_context(<context manager>)
            if isinstance(w, ast.Assign) and any(
                    isinstance(t, ast.Name) and t.id == name
                    for t in w.targets) and isinstance(
                    w.value, ast.Call) and last_attr(w.value) \
                    == "enter_context" and len(w.value.args) == 1:
                return w.value.args[0]
        return None
    for rel, q in ((COMPRESS, "compress"), (REPACK, "repack"),
                   (CONDENSE, "condense_dataset")):
        fn = repo.func(rel, q)
        calls = find_calls(fn, name="rtdc_copy")
        if len(calls) != 1:
            raise AnalysisError(f"{rel}::{q}: expected one rtdc_copy call")
        c = calls[0]
        s, d = kwarg(c, "src_h5file", 0), kwarg(c, "dst_h5file", 1)
        if s is None or d is None:
            raise AnalysisError(f"{rel}::{q}: rtdc_copy arguments")
        if q == "condense_dataset":
            ok_s = txt(s) == "ds.h5file"
            ok_d = txt(d) == "h5_cond"
            # caller binds ds from the input and h5_cond from temp "w"
            cf = repo.func(rel, "condense")
            cc = find_calls(cf, name="condense_dataset")
            if len(cc) != 1:
                raise AnalysisError("condense(): condense_dataset call lost")
            b_ds = binding(cf, txt(kwarg(cc[0], "ds", 0)))
            b_h5 = binding(cf, txt(kwarg(cc[0], "h5_cond", 1)))
            ok_s = ok_s and b_ds is not None and call_name(b_ds) \
                == "new_dataset" and bool(b_ds.args or b_ds.keywords)
            ok_d = ok_d and b_h5 is not None and _is_file(b_h5, True)
            if ok_s and ok_d:
                p_s = b_ds.args[0] if b_ds.args else b_ds.keywords[0].value
                ok_d = txt(p_s) != txt(kwarg(b_h5, "name", 0))
        else:
            b_s = binding(fn, txt(s))
            b_d = binding(fn, txt(d))
            ok_s = b_s is not None and _is_file(b_s, False)
            ok_d = b_d is not None and _is_file(b_d, True)
            if ok_s and ok_d:
                # two different paths (which one is the input is decided
                # by C10 R10.1 and, for compress, by the evaluation R8.20)
                ok_d = txt(kwarg(b_s, "name", 0)) != txt(
                    kwarg(b_d, "name", 0))
        ctx.ob("R8.3", ok_s, "rtdc_copy reads from the handle of the input "
               "path (opened read-only)" if ok_s else
               f"source of rtdc_copy is `{txt(s)}`, not a read-only handle "
               f"of the input path", node=c, label="rtdc_copy source role")
        ctx.ob("R8.3", ok_d, "rtdc_copy writes to the handle of the temp "
               "file" if ok_d else f"destination of rtdc_copy is `{txt(d)}`,"
               f" not the temp file opened for writing", node=c,
               label="rtdc_copy destination role")
        # content options: the tasks copy everything unless asked to strip
        want = {"compress": {"features": '"all"|\'all\'',
                             "include_basins": "True", "include_logs": "True",
                             "include_tables": "True"},
                "repack": {"features": "'all'",
                           "include_basins": "not strip_basins",
                           "include_logs": "not strip_logs",
                           "include_tables": "True"},
                "condense_dataset": {"features": "'scalar'",
                                     "include_basins": "True",
                                     "include_logs": "True",
                                     "include_tables": "True"}}[q]
        defaults = {"features": "'all'", "include_basins": "True",
                    "include_logs": "True", "include_tables": "True"}
        for k, w in want.items():
            v = kwarg(c, k)
            got = txt(v) if v is not None else defaults[k]
            ok = got in [x.replace('"', "'") for x in w.split("|")] or (
                k.startswith("include") and w.startswith("not ")
                and _negation_of(fn, v, w[4:]))
            ctx.ob("R8.6", ok,
                   f"{q}: {k}={got}" if ok else
                   f"{q} calls rtdc_copy with {k}={got}, expected {w}: "
                   f"content is dropped without request", node=c,
                   label=f"{q} option {k}")


def _negation_of(fn, v, flag):
    if v is None:
        return False
    if isinstance(v, ast.UnaryOp) and isinstance(v.op, ast.Not):
        return txt(v.operand) == flag
    if isinstance(v, ast.Name):
        for s in walk(fn):
            if isinstance(s, ast.Assign) and any(
                    isinstance(t, ast.Name) and t.id == v.id
                    for t in s.targets):
                return _negation_of(fn, s.value, flag)
    return False


def _is_file(call, writable):
    if call_name(call) not in ("h5py.File", "File"):
        return False
    p = kwarg(call, "name", 0)
    if p is None:
        return False
    mode = kwarg(call, "mode", 1)
    m = const_str(mode) if mode is not None else "r"
    if writable:
        return m in ("w", "w-", "x")
    return m == "r"


def bind_like(repo, rel, qual, impl):
    """stand-in for the repository function `rel::qual`: accepts exactly
    the calls the real signature accepts (positional or keyword) and hands
    the bound arguments to `impl(**bound)`"""
    fn = repo.func(rel, qual)
    a = fn.args
    params = [x.arg for x in a.args]
    if "." in qual and params and params[0] in ("self", "cls"):
        params = params[1:]
    n_def = len(a.defaults)
    required = set(params[:len(params) - n_def]) if n_def else set(params)
    kwonly = [x.arg for x in a.kwonlyargs]
    kw_required = {x.arg for x, d in zip(a.kwonlyargs, a.kw_defaults)
                   if d is None}

    def stub(*args, **kwargs):
        bound = {}
        if len(args) > len(params) and a.vararg is None:
            raise L.ModelFault("TypeError", f"{qual}() takes {len(params)} "
                               f"positional arguments but {len(args)} were "
                               f"given")
        for p_, v in zip(params, args):
            bound[p_] = v
        extra = list(args[len(params):])
        for k, v in kwargs.items():
            if k in bound:
                raise L.ModelFault("TypeError", f"{qual}() got multiple "
                                   f"values for argument '{k}'")
            if k not in params and k not in kwonly and a.kwarg is None:
                raise L.ModelFault("TypeError", f"{qual}() got an "
                                   f"unexpected keyword argument '{k}'")
            bound[k] = v
        miss = (required | kw_required) - set(bound)
        if miss:
            raise L.ModelFault("TypeError", f"{qual}() missing required "
                               f"argument(s) {sorted(miss)}")
        if extra:
            bound["_varargs"] = extra
        return impl(**bound)
    stub.__name__ = qual
    return stub


# ----------------------------------------------------------------------
# R8.5 condense_dataset

class MWriter:
    _strict_attrs = True

    def __init__(self, rec, path_or_h5file, mode="append",
                 compression_kwargs=None, registry=None, **kw):
        self.rec = rec
        self.h5 = path_or_h5file
        if registry is not None and isinstance(self.h5, (MPath, MP, str)):
            key = str(self.h5)
            if key not in registry:
                raise L.ModelFault("FileNotFoundError",
                                   f"no file at {key}")
            self.h5 = registry[key]
        if not isinstance(self.h5, H.H5File):
            raise L.ModelFault("TypeError", "RTDCWriter model needs the "
                               "open output file")
        if mode != "append":
            rec.calls.append(("writer-mode", mode))
        # like RTDCWriter: the "events" group is created by store_feature
        # and when the context is left, not by the constructor

    def __enter__(self):
        return self

    def __exit__(self, *a):
        self.h5.require_group("events")
        return False

    def store_feature(self, feat, data, shape=None):
        ev = self.h5.require_group("events")
        self.rec.calls.append(("store_feature", feat, data,
                               feat in ev.members))
        if feat not in ev.members:
            ev.members[feat] = H.H5Dataset(ev, feat, (1,), H.DType("f"),
                                           None, None, False, [data])

    def store_log(self, name, lines):
        lg = self.h5.require_group("logs")
        self.rec.calls.append(("store_log", name, name in lg.members))
        if name not in lg.members:
            lg.members[name] = H.H5Dataset(lg, name, (1,), H.DType("O"),
                                           None, None, False, [str(lines)])


class MDataset:
    """model RTDCBase for condense_dataset"""
    _strict_attrs = True
    CLASSES = {
        "deform": "innate", "area_um": "innate", "image": "innate-nd",
        "circ": "basin", "mask": "basin-nd", "volume": "anc",
        "area_ratio": "anc-rapid", "userdef2": "basin-internal",
        "emodulus": "cached", "bright_sd": "anc+basin",
    }

    def __init__(self, hdf5):
        c = self.CLASSES
        self.is_hdf5 = hdf5
        self.path = "/model/input.rtdc"
        self.config = {"experiment": {"event count": 3}}
        self.features_innate = sorted(k for k, v in c.items()
                                      if v.startswith("innate"))
        self.features_scalar = sorted(k for k in c if k in SCALAR)
        self.features_loaded = sorted(k for k, v in c.items() if v in (
            "innate", "innate-nd", "anc-rapid", "cached"))
        self.features_basin = sorted(k for k, v in c.items() if v in (
            "basin", "basin-nd", "basin-internal", "anc+basin"))
        self.features_ancillary = sorted(k for k, v in c.items() if v in (
            "anc", "anc-rapid", "anc+basin", "cached"))
        self.features = sorted(c)
        self.logs = {}
        self.h5file = make_source("base", n=3) if hdf5 else None
        self.reads = []

    def __getitem__(self, feat):
        self.reads.append(feat)
        return ("data of", feat)

    def __contains__(self, feat):
        return feat in self.CLASSES


def eval_condense(ctx, repo, agg):
    node = repo.func(CONDENSE, "condense_dataset")
    it = L.Interp(repo)
    rec = Recorder()

    def rtdc_copy_stub(src_h5file, dst_h5file, features="all",
                       include_basins=True, include_logs=True,
                       include_tables=True, meta_prefix=""):
        rec.calls.append(("rtdc_copy", src_h5file, dst_h5file, features,
                          include_basins, include_logs, include_tables,
                          meta_prefix))
        ev = dst_h5file.require_group("events")
        for k in ("deform", "area_um"):
            ev.members[k] = H.H5Dataset(ev, k, (1,), H.DType("f"), None,
                                        None, False, [("copied", k)])
        be = dst_h5file.require_group("basin_events")
        be.members["userdef2"] = H.H5Dataset(be, "userdef2", (1,),
                                             H.DType("f"), None, None, False,
                                             [("copied", "userdef2")])
        lg = dst_h5file.require_group("logs")
        for k in ("fixed", "dclab-condense"):
            lg.members[k] = H.clone(src_h5file["logs"][k], lg, k)

    ext = {"h5py": H.h5py_namespace(),
           "hdf5plugin": H.hdf5plugin_namespace(),
           "fmt_hdf5": L.namespace("fmt_hdf5", RTDC_HDF5=L.ModelType(
               "RTDC_HDF5", lambda o: isinstance(o, MDataset) and o.is_hdf5)),
           "rtdc_copy": rtdc_copy_stub,
           "RTDCWriter": lambda *a, **k: MWriter(rec, *a, **k),
           "RTDCBase": L.ModelType("RTDCBase", lambda o: True),
           "new_dataset": L.Opaque("new_dataset"),
           "util": L.namespace(
               "util",
               hashobj=bind_like(repo, UTIL, "hashobj",
                                 lambda **k: "cfghash"),
               hashfile=bind_like(repo, UTIL, "hashfile",
                                  lambda **k: "filehash")),
           "warnings": L.namespace("warnings", warn=lambda *a, **k: None),
           "version": "0.0", "List": None}
    ext["common"] = CommonNS(it, {
        "get_command_log": bind_like(repo, COMMON, "get_command_log",
                                     lambda **k: ["command log"]),
        "assemble_warnings": bind_like(repo, COMMON, "assemble_warnings",
                                       lambda **k: ["warnings"])},
        ext["warnings"])
    env = it.env(CONDENSE, ext)
    fn = env.lookup("condense_dataset")
    C = MDataset.CLASSES
    for hdf5, sb, sa, wl in itertools.product((True, False), (True, False),
                                              (True, False), (None, ["w"])):
        ds = MDataset(hdf5)
        out = H.H5File("condensed output")
        del rec.calls[:]
        opts = (f"{'hdf5' if hdf5 else 'tdms'} input, store_basin_features="
                f"{sb}, store_ancillary_features={sa}")
        res = L.run(lambda: fn(ds=ds, h5_cond=out,
                               store_ancillary_features=sa,
                               store_basin_features=sb, warnings_list=wl))
        lab = ("completes for an HDF5 source" if hdf5 else
               "completes for a non-HDF5 source (empty output file)")
        if res[0] != "ok":
            agg.add("R8.5", lab, node, False,
                    f"condense_dataset fails ({opts}): {_res(res)}")
            continue
        agg.add("R8.5", lab, node, True, "")
        copied = {"deform", "area_um"} if hdf5 else set()
        internal = {"userdef2"} if hdf5 else set()
        want = {k for k, v in C.items() if k in SCALAR and v in (
            "innate", "anc-rapid", "cached")}
        if sb:
            want |= {k for k, v in C.items() if k in SCALAR and v in (
                "basin", "anc+basin", "basin-internal")} - internal
        if sa:
            want |= {k for k, v in C.items() if k in SCALAR and v in (
                "anc", "anc+basin")}
        got = set(out["events"].members) if "events" in out else set()
        agg.add("R8.5", "stored scalar feature set", node, got == want,
                f"{opts}: output holds {sorted(got)}, expected "
                f"{sorted(want)} (missing {sorted(want - got)}, unexpected "
                f"{sorted(got - want)})")
        stores = [c for c in rec.calls if c[0] == "store_feature"]
        dbl = [c[1] for c in stores if c[3]]
        agg.add("R8.5", "no feature stored twice", node, not dbl and len(
            {c[1] for c in stores}) == len(stores),
            f"{opts}: store_feature appends to the existing feature(s) "
            f"{dbl or sorted(c[1] for c in stores)} – events are duplicated")
        bad = [c[1] for c in stores if c[2] != ("data of", c[1])]
        agg.add("R8.5", "stored data are the dataset's", node, not bad,
                f"{opts}: feature {bad[:1]} is stored with data "
                f"{[c[2] for c in stores if c[1] in bad][:1]}")
        agg.add("R8.5", "non-scalar features are not stored", node,
                not (got - SCALAR), f"{opts}: non-scalar {sorted(got - SCALAR)}")
        cp = [c for c in rec.calls if c[0] == "rtdc_copy"]
        ok = (len(cp) == 1 and cp[0][1] is ds.h5file and cp[0][2] is out
              and cp[0][3] == "scalar" and all(cp[0][4:7])) if hdf5 \
            else not cp
        agg.add("R8.5", "hdf5 input is copied with rtdc_copy(scalar)", node,
                ok, f"{opts}: rtdc_copy calls {[c[3:] for c in cp]}")
        # logs: the old condense log survives under a new name, the source
        # log is untouched, a new command log is written
        lg = out["logs"].members if "logs" in out else {}
        vals = [tuple(d.flat()) for d in lg.values()]
        ok = "dclab-condense" in lg and tuple(
            lg["dclab-condense"].flat()) != (b"old condense log",)
        if hdf5:
            ok = ok and (b"old condense log",) in vals and "fixed" in lg
        agg.add("R8.5", "logs survive, command log added", node, ok,
                f"{opts}: output logs are {sorted(lg)}")
        if wl:
            agg.add("R8.5", "warnings are logged", node,
                    "dclab-condense-warnings" in lg,
                    f"{opts}: warnings log missing")
        if hdf5:
            agg.add("R8.3", "model source stays untouched", node,
                    not ds.h5file.write_attempts,
                    f"condense_dataset modifies the input: "
                    f"{ds.h5file.write_attempts[:1]}")


class MPath:
    """model pathlib.Path for the tasks"""
    _strict_attrs = True

    def __init__(self, name, log):
        self.name = name
        self.suffix = ".rtdc"
        self._log = log

    def rename(self, other):
        self._log.append(("rename", self.name, getattr(other, "name", other)))

    def __str__(self):
        return self.name

    def __format__(self, spec):
        return self.name


class MCatch:
    """warnings.catch_warnings(record=True)"""
    _strict_attrs = True

    def __init__(self, items):
        self.items = items

    def __enter__(self):
        return self.items

    def __exit__(self, *a):
        return False


class CommonNS:
    """`cli.common` for the task evaluations: the stand-ins given, every
    other name (setup_task_paths, helpers and context managers a
    refactoring adds) is the interpreted definition of cli/common.py"""

    def __init__(self, it, stubs, warnings_ns):
        self._stubs = stubs
        self._env = it.env(COMMON, {
            "pathlib": L.namespace("pathlib", Path=MP), "np": L.NPModel(),
            "warnings": warnings_ns,
            "fmt_tdms": L.Opaque("fmt_tdms"), "hashlib": L.Opaque("hashlib"),
            "json": L.Opaque("json"), "numbers": L.Opaque("numbers"),
            "platform": L.Opaque("platform"), "time": L.Opaque("time"),
            "version": "0.0"})

    def __getattr__(self, name):
        if name.startswith("__"):
            raise AttributeError(name)
        if name in self._stubs:
            return self._stubs[name]
        return self._env.lookup(name)


def func_anywhere(repo, rel, name):
    """definition of `name` used in module `rel`: its own or the one it
    imports from another module of the repository"""
    from ..normalize import resolve_from_import
    f = repo.func(rel, name, missing_ok=True)
    if f is not None:
        return f
    r = resolve_from_import(repo, rel, name)
    if r is not None:
        f = repo.func(r[0], r[1], missing_ok=True)
        if f is not None:
            return f
    raise AnalysisError(f"anchor vanished: {rel}::{name}")



def eval_compress(ctx, repo, agg):
    """R8.20: the command logs of the task - logs of earlier runs are kept
    under another name, the logs of this run are written freshly"""
    node = repo.func(COMPRESS, "compress")
    it = L.Interp(repo)
    for old_logs, with_warnings in itertools.product(
            ((), ("dclab-compress",), ("dclab-compress",
                                       "dclab-compress-warnings")),
            (False, True)):
        rec = Recorder()
        log = []
        wlist = []
        src = make_source("base")
        src.readonly = False
        for k in ("dclab-condense",):
            del src["logs"].members[k]
        for k in old_logs:
            src["logs"].members[k] = H.H5Dataset(
                src["logs"], k, (1,), H.DType("S", 100), (1,),
                {H.ZSTD: (1, (5,), b"z")}, True,
                [f"earlier run: {k}".encode()])
        src.seal()
        registry = {}
        del MP.LOG[:]
        log = MP.LOG

        def open_file(path, mode="r", *a, **k):
            name = str(path)
            if mode == "r":
                if name != "in.rtdc":
                    raise L.ModelFault("FileNotFoundError", str(name))
                return src
            f = H.H5File(f"file {name} (mode {mode})")
            registry[name] = f
            return f

        def rtdc_copy_stub(src_h5file, dst_h5file, **kw):
            rec.calls.append(("rtdc_copy", src_h5file, dst_h5file, kw))
            for g in ("events", "logs", "tables"):
                if g in src_h5file:
                    dst_h5file.members[g] = H.clone(src_h5file[g],
                                                    dst_h5file, g)
            if with_warnings:
                wlist.append("a warning raised while copying")

        h5ns = L.namespace("h5py", File=open_file)
        ext = {"h5py": h5ns, "hdf5plugin": H.hdf5plugin_namespace(),
               "rtdc_copy": rtdc_copy_stub,
               "RTDCWriter": lambda *a, **k: MWriter(
                   rec, *a, registry=registry, **k),
               "util": L.namespace("util", hashfile=bind_like(
                   repo, UTIL, "hashfile", lambda **k: "md5sum")),
               "pathlib": L.namespace("pathlib", Path=MP),
               "argparse": L.Opaque("ap"), "version": "0.0"}
        wns = L.namespace(
            "warnings", warn=lambda *a, **k: None,
            simplefilter=lambda *a, **k: None,
            catch_warnings=lambda **k: MCatch(wlist))
        ext["warnings"] = wns
        ext["common"] = CommonNS(it, {
            "get_command_log": bind_like(
                repo, COMMON, "get_command_log",
                lambda **k: ["this run: command log"]),
            "assemble_warnings": bind_like(
                repo, COMMON, "assemble_warnings",
                lambda **k: ["this run: warnings"])}, wns)
        env = it.env(COMPRESS, ext)
        fn = env.lookup("compress")
        res = L.run(lambda: fn(path_in="in.rtdc", path_out="out.rtdc"))
        opts = (f"input with earlier logs {list(old_logs)}, "
                f"{'with' if with_warnings else 'no'} warnings in this run")
        if res[0] != "ok":
            agg.add("R8.20", "compress completes", node, False,
                    f"compress fails on the model ({opts}): {_res(res)}")
            continue
        agg.add("R8.20", "compress completes", node, True, "")
        out = registry.get("out.rtdc~")
        lg = out["logs"].members if out is not None and "logs" in out else {}
        stores = [c for c in rec.calls if c[0] == "store_log"]
        appended = [c[1] for c in stores if c[2]]
        agg.add("R8.20", "logs of this run are written freshly", node,
                not appended,
                f"{opts}: the log(s) {appended} of this run are appended to "
                f"the log of an earlier run of the same name - the earlier "
                f"log is not preserved as it was")
        names = {c[1] for c in stores}
        want = {"dclab-compress"} | ({"dclab-compress-warnings"}
                                     if with_warnings else set())
        agg.add("R8.20", "command and warning logs are written", node,
                names == want, f"{opts}: logs written {sorted(names)}, "
                f"expected {sorted(want)}")
        kept = {}
        for k in old_logs:
            hit = [n_ for n_, d in lg.items()
                   if d.flat() == [f"earlier run: {k}".encode()]]
            kept[k] = hit
        lost = [k for k, h_ in kept.items() if not h_]
        same_name = [k for k, h_ in kept.items() if k in h_]
        agg.add("R8.20", "earlier task logs are kept under another name",
                node, not lost and not same_name,
                f"{opts}: " + (f"earlier log(s) {lost} are gone" if lost else
                               f"earlier log(s) {same_name} keep the name of "
                               f"this run's logs (they pass for logs of this "
                               f"run / get extended)"))
        other = [k for k in ("fixed", "vlen", "proper") if k not in lg]
        agg.add("R8.20", "other logs are untouched", node, not other,
                f"{opts}: logs {other} of the input are missing")
        agg.add("R8.3", "model source stays untouched", node,
                not src.write_attempts, f"compress modifies the input: "
                f"{src.write_attempts[:1]}")
        ok = log == [("rename", "out.rtdc~", "out.rtdc")]
        agg.add("R8.20", "temp file renamed last", node, ok,
                f"{opts}: renames {log}")



class MSkipDS:
    """model dataset for cli.common.skip_empty_image_events"""
    _strict_attrs = True

    def __init__(self, fmt, feats, offset, corrupt_last, wlog, token):
        self.format = fmt
        self.feats = feats
        self.config = ({"fmt_tdms": {"video frame offset": offset}}
                       if fmt == "tdms" else {})
        n = 4
        self.n = n
        self.filter = L.namespace("filter")
        self.filter.manual = L.Arr([True] * n)
        self.calls = []
        self._corrupt = corrupt_last
        self._wlog = wlog
        self._token = token

    def __len__(self):
        return self.n

    def __contains__(self, feat):
        return feat in self.feats

    def __getitem__(self, feat):
        if feat not in self.feats:
            raise L.ModelFault("KeyError", f"Feature '{feat}' does not "
                               f"exist in this dataset")
        frames = self.feats[feat]
        ds = self

        class Frames:
            _strict_attrs = True

            def __getitem__(self_, idx):
                if feat == "image" and ds._corrupt and idx in (
                        ds.n - 1, -1):
                    ds._wlog.append(L.namespace(
                        "warning", category=ds._token))
                return frames[idx]

            def __len__(self_):
                return len(frames)
        return Frames()

    def apply_filter(self, *a, **k):
        self.calls.append(tuple(self.filter.manual.data))


def eval_skip_empty(ctx, repo, agg):
    """R8.8: the boundary-image filter of tdms2rtdc only ever excludes the
    first / last event and only because of an (empty) image or an all-zero
    contour - evaluated on all model datasets"""
    node = repo.func(COMMON, "skip_empty_image_events")
    it = L.Interp(repo)
    token = object()
    wlog = []
    ext = {"np": L.NPModel(),
           "warnings": L.namespace(
               "warnings", warn=lambda *a, **k: None,
               simplefilter=lambda *a, **k: None,
               catch_warnings=lambda **k: MCatch(wlog)),
           "fmt_tdms": L.namespace("fmt_tdms", event_image=L.namespace(
               "event_image", CorruptFrameWarning=token))}
    env = it.env(COMMON, ext)
    fn = env.lookup("skip_empty_image_events")
    zero, full = L.Arr([0, 0, 0]), L.Arr([0, 7, 3])
    n_eval = 0
    for fmt, has_img, has_cnt, off, i0z, ilz, c0z, corrupt, ini, fin in \
            itertools.product(("tdms", "hdf5"), (True, False), (True, False),
                              (0, 1), (True, False), (True, False),
                              (True, False), (True, False), (True, False),
                              (True, False)):
        if fmt != "tdms" and (off or corrupt):
            continue
        if not has_img and (i0z or ilz or corrupt):
            continue
        if not has_cnt and c0z:
            continue
        feats = {"deform": [1, 2, 3, 4]}
        if has_img:
            feats["image"] = [zero if i0z else full, full, full,
                              zero if ilz else full]
        if has_cnt:
            feats["contour"] = [zero if c0z else full, full, full, full]
        del wlog[:]
        ds = MSkipDS(fmt, feats, off, corrupt, wlog, token)
        n_eval += 1
        res = L.run(lambda: fn(ds, initial=ini, final=fin))
        desc = (f"{fmt} dataset, features {sorted(feats)}"
                + (f", video frame offset {off}" if fmt == "tdms" else "")
                + (", first image empty" if i0z else "")
                + (", last image empty" if ilz else "")
                + (", first contour all zero" if c0z else "")
                + (", last frame corrupt" if corrupt else "")
                + f", initial={ini}, final={fin}")
        if res[0] != "ok":
            agg.add("R8.8", "boundary filter completes", node, False,
                    f"skip_empty_image_events fails: {desc}: {_res(res)}")
            continue
        agg.add("R8.8", "boundary filter completes", node, True, "")
        man = ds.filter.manual.data
        excl = {i for i, k in enumerate(man) if not k}
        agg.add("R8.8", "only boundary events are excluded", node,
                excl <= {0, ds.n - 1},
                f"{desc}: events {sorted(excl)} are excluded")
        agg.add("R8.8", "exclusions are applied", node,
                not excl or (ds.calls and ds.calls[-1] == tuple(man)),
                f"{desc}: manual exclusion without apply_filter()")
        no_reason = not has_img and not (has_cnt and c0z)
        if no_reason:
            agg.add("R8.8", "no image, no empty contour: nothing excluded",
                    node, not excl,
                    f"{desc}: event(s) {sorted(excl)} are excluded although "
                    f"the dataset has no image that could be empty - valid "
                    f"events are dropped from the converted file")
        if has_img and not (i0z or ilz or off or corrupt or c0z):
            agg.add("R8.8", "intact boundary images: nothing excluded", node,
                    not excl, f"{desc}: event(s) {sorted(excl)} excluded")
        if has_img and i0z:
            agg.add("R8.8", "empty first image follows `initial`", node,
                    (0 in excl) == ini, f"{desc}: first event "
                    f"{'excluded' if 0 in excl else 'kept'}")
        if has_img and fmt == "tdms" and off:
            agg.add("R8.8", "missing first video frame follows `initial`",
                    node, (0 in excl) == ini, f"{desc}: first event "
                    f"{'excluded' if 0 in excl else 'kept'}")
        if has_img and fmt != "tdms" and ilz:
            agg.add("R8.8", "empty last image follows `final`", node,
                    (ds.n - 1 in excl) == fin, f"{desc}: last event "
                    f"{'excluded' if ds.n - 1 in excl else 'kept'}")
        if has_img and fmt == "tdms":
            agg.add("R8.8", "corrupt last frame follows `final`", node,
                    (ds.n - 1 in excl) == (fin and corrupt),
                    f"{desc}: last event "
                    f"{'excluded' if ds.n - 1 in excl else 'kept'}")
    ctx.stat("skip_empty_image_events evaluations", n_eval)



CORE = "dclab/rtdc_dataset/core.py"


class MBasin:
    _strict_attrs = True

    def __init__(self, features, available):
        self.features = features
        self._av = available
        self.asked = 0

    def is_available(self):
        self.asked += 1
        return self._av


class MBasinDS:
    """model dataset whose `features_basin` property is the one of core.py"""

    def __init__(self, cls, basins):
        self._ast_class = cls
        self._basins_features = None
        self.basins = basins


def eval_features_basin(ctx, repo, agg):
    """R8.5: condense reads ds.features_basin - it must be the union of the
    features of all available basins (a basin may only be skipped when it
    adds nothing)"""
    node = repo.func(CORE, "RTDCBase.features_basin")
    it = L.Interp(repo)
    env = it.env(CORE, {})
    cls = env.lookup("RTDCBase")
    lists = [[], ["a"], ["a", "b"], ["b", "c"], ["c"], ["a", "b", "c"]]
    n = 0
    for k in (1, 2, 3):
        for feats in itertools.product(lists, repeat=k):
            for avail in itertools.product((True, False), repeat=k):
                if k == 3 and not all(avail):
                    continue
                basins = [MBasin(list(f), a) for f, a in zip(feats, avail)]
                ds = MBasinDS(cls, basins)
                n += 1
                res = L.run(lambda: list(L.lookup_attr(
                    it, ds, "features_basin", None)))
                want = sorted(set().union(*[set(b.features) for b in basins
                                            if b._av]))
                ok = res == ("ok", want)
                agg.add("R8.5", "features_basin is the union of the "
                        "available basins", node, ok,
                        f"basins with features {[list(f) for f in feats]} "
                        f"(available: {list(avail)}): features_basin is "
                        f"{_res(res)}, expected {want} - features of a "
                        f"basin that only partly overlaps with earlier ones "
                        f"are lost (dclab-condense does not store them)")
    ctx.stat("features_basin evaluations", n)


class MP:
    """model pathlib.Path for setup_task_paths (pure path + a file system
    that holds nothing)"""
    _strict_attrs = True

    def __init__(self, p):
        import pathlib
        self._p = p._p if isinstance(p, MP) else pathlib.PurePosixPath(p)

    @property
    def suffix(self):
        return self._p.suffix

    @property
    def name(self):
        return self._p.name

    @property
    def parent(self):
        return MP(self._p.parent)

    def with_suffix(self, s):
        return MP(self._p.with_suffix(s))

    def with_name(self, n):
        return MP(self._p.with_name(n))

    def resolve(self):
        return self

    def exists(self):
        return False

    def is_file(self):
        return False

    def unlink(self, *a, **k):
        raise L.ModelFault("FileNotFoundError", str(self._p))

    #: renames performed on model paths (reset by the evaluation)
    LOG = []

    def rename(self, other):
        MP.LOG.append(("rename", str(self), str(other)))
        return MP(other)

    def __eq__(self, o):
        return isinstance(o, MP) and o._p == self._p

    def __lt__(self, o):
        return self._p < o._p

    def __hash__(self):
        return hash(self._p)

    def __str__(self):
        return str(self._p)

    __repr__ = __str__

    def __format__(self, spec):
        return str(self._p)

    def __truediv__(self, o):
        return MP(self._p / (o._p if isinstance(o, MP) else o))


def eval_setup_paths(ctx, repo, agg):
    """R8.6: setup_task_paths keeps the pairing in[i] <-> out[i] <-> temp[i]
    of the lists it is given (tdms2rtdc and split derive the output names
    index-wise before the call)"""
    node = repo.func(COMMON, "setup_task_paths")
    it = L.Interp(repo)
    env = it.env(COMMON, {"pathlib": L.namespace("pathlib", Path=MP),
                          "np": L.NPModel()})
    fn = env.lookup("setup_task_paths")
    cases = [
        (["/d/M2.tdms", "/d/M10.tdms", "/d/M1.tdms"],
         ["/o/M2.rtdc", "/o/M10.rtdc", "/o/M1.rtdc"]),
        (["/d/b.tdms", "/d/a.tdms"], ["/o/b.rtdc", "/o/a.rtdc"]),
        (["/d/a.tdms", "/d/b.tdms"], ["/o/z.rtdc", "/o/y"]),
        (["/d/a.tdms"], ["/o/a.rtdc"]),
    ]
    for ins, outs in cases:
        res = L.run(lambda: fn([MP(x) for x in ins], [MP(x) for x in outs],
                               allowed_input_suffixes=[".tdms"]))
        desc = f"inputs {ins}, outputs {outs}"
        if res[0] != "ok" or not (isinstance(res[1], tuple)
                                  and len(res[1]) == 3):
            agg.add("R8.6", "setup_task_paths keeps input/output pairing",
                    node, False, f"{desc}: {_res(res)}")
            continue
        pin, pout, ptmp = ([str(x) for x in lst] for lst in res[1])
        norm_out = [o if o.endswith(".rtdc") else o + ".rtdc" for o in outs]
        pairs_in = dict(zip(ins, norm_out))
        ok = (sorted(pin) == sorted(ins) and len(pout) == len(pin)
              and all(pairs_in.get(i) == o for i, o in zip(pin, pout))
              and all(t == o + "~" for o, t in zip(pout, ptmp)))
        agg.add("R8.6", "setup_task_paths keeps input/output pairing", node,
                ok, f"{desc}: returned inputs {pin} with outputs {pout} and "
                f"temps {ptmp} - the i-th input is no longer converted to "
                f"the i-th output (one list was re-ordered alone)")
    # single paths stay single
    res = L.run(lambda: fn(MP("/d/a.rtdc"), MP("/o/b.rtdc"),
                           allowed_input_suffixes=[".rtdc"]))
    ok = res[0] == "ok" and [str(x) for x in res[1]] == [
        "/d/a.rtdc", "/o/b.rtdc", "/o/b.rtdc~"]
    agg.add("R8.6", "setup_task_paths keeps input/output pairing", node, ok,
            f"single paths: {_res(res)}")



def r820_hash_sites(ctx, repo):
    """the suffix under which compress keeps an old log is the file digest
    the command log calls "md5-5M": both sites must hash the same number of
    bytes (blocksize * count, defaults from util.hashfile)"""
    hf = repo.func(UTIL, "hashfile")
    params = [a.arg for a in hf.args.args]
    dflt = dict(zip(params[len(params) - len(hf.args.defaults):],
                    hf.args.defaults))

    def fold(e):
        try:
            return ast.literal_eval(e)
        except Exception:
            if isinstance(e, ast.BinOp):
                a, b = fold(e.left), fold(e.right)
                if a is None or b is None:
                    return None
                if isinstance(e.op, ast.Mult):
                    return a * b
                if isinstance(e.op, ast.Pow):
                    return a ** b
                if isinstance(e.op, ast.FloorDiv):
                    return a // b
                if isinstance(e.op, ast.Add):
                    return a + b
            return None

    def nbytes(call):
        vals = {}
        for name in ("blocksize", "count"):
            v = kwarg(call, name, params.index(name))
            v = v if v is not None else dflt.get(name)
            vals[name] = fold(v) if v is not None else None
        if None in vals.values():
            return None
        return vals["blocksize"] * vals["count"]     # count 0 = whole file
    sites = []
    for rel, q in ((COMPRESS, "compress"), (COMMON, "get_command_log")):
        f = repo.func(rel, q)
        cs = [c for c in walk(f) if isinstance(c, ast.Call) and (
            call_name(c) or "").split(".")[-1] == "hashfile"]
        if not cs:
            ctx.note(f"R8.20: {q} has no direct hashfile call (moved to a "
                     f"helper); the two digest sites are not compared")
            return
        ns = {nbytes(c) for c in cs}
        if None in ns:
            ctx.note(f"R8.20: hashfile arguments of {q} cannot be folded; "
                     f"the two digest sites are not compared")
            return
        if len(ns) != 1:
            ctx.ob("R8.20", False, f"{q} hashes different byte counts "
                   f"{sorted(ns)} of the same file", node=cs[0],
                   label="log suffix is the md5-5M digest of the command "
                   "log")
            return
        sites.append((q, cs[0], ns.pop()))
    ok = sites[0][2] == sites[1][2]
    ctx.ob("R8.20", ok,
           f"compress and the command log hash the same {sites[0][2]} bytes "
           f"of the input" if ok else
           f"compress names the kept logs after a digest of "
           f"{sites[0][2]} bytes (`{short(sites[0][1], 60)}`), the command "
           f"log records the digest of {sites[1][2]} bytes as 'md5-5M': the "
           f"two identifiers differ for larger inputs", node=sites[0][1],
           label="log suffix is the md5-5M digest of the command log")



# ----------------------------------------------------------------------
# R8.5 defect table identity, R8.8 tdms2rtdc

def r85_table(ctx, repo):
    tab = repo.module_assign(DEFECT, "DEFECTIVE_FEATURES")
    if not isinstance(tab, ast.Dict) or len(tab.keys) < 5:
        raise AnalysisError("feat_defect.DEFECTIVE_FEATURES not a dict")
    funcs = {n for n, _f in repo.all_functions(DEFECT)}
    bad = [txt(v) for v in tab.values if not (isinstance(v, ast.Name)
                                              and v.id in funcs)]
    ctx.ob("R8.5", not bad, "every entry of DEFECTIVE_FEATURES is a test "
           "function of the module" if not bad else
           f"entries {bad} are not functions of feat_defect.py",
           node=tab, key=f"{DEFECT}::DEFECTIVE_FEATURES::entries callable",
           nontrivial=False)

    def resolves(rel, name):
        """does `name` in file rel resolve to feat_defect.DEFECTIVE_FEATURES"""
        for st in repo.tree(rel).body:
            if isinstance(st, ast.ImportFrom):
                for a in st.names:
                    if (a.asname or a.name) != name:
                        continue
                    mod = (st.module or "")
                    if mod.endswith("feat_defect") and a.name \
                            == "DEFECTIVE_FEATURES":
                        return True
                    if mod.endswith("fmt_hdf5") and rel != H5INIT:
                        return resolves(H5INIT, a.name)
        return False
    ok = resolves(COPIER, "DEFECTIVE_FEATURES")
    fn = repo.func(COPIER, "rtdc_copy")
    ctx.ob("R8.5", ok, "the copier's defect table is "
           "fmt_hdf5.feat_defect.DEFECTIVE_FEATURES" if ok else
           "the copier's DEFECTIVE_FEATURES does not resolve to "
           "fmt_hdf5.feat_defect.DEFECTIVE_FEATURES", node=fn,
           label="defect table identity (copier)")
    rd = repo.func(H5EVENTS, "H5Events._is_defective_feature")
    uses = [n for n in walk(rd) if isinstance(n, ast.Attribute)
            and n.attr == "DEFECTIVE_FEATURES"]
    imp = any(isinstance(st, ast.ImportFrom) and any(
        a.name == "feat_defect" for a in st.names)
        for st in repo.tree(H5EVENTS).body)
    ok = bool(uses) and all(txt(u.value) == "feat_defect" for u in uses) \
        and imp
    ctx.ob("R8.5", ok, "the reader tests defects with the same table" if ok
           else "the reader no longer uses feat_defect.DEFECTIVE_FEATURES",
           node=rd, label="defect table identity (reader)")
    # both apply the test to the file root
    c_calls = [c for c in walk(fn) if isinstance(c, ast.Call) and isinstance(
        c.func, ast.Subscript) and txt(c.func.value) == "DEFECTIVE_FEATURES"]
    r_calls = [c for c in walk(rd) if isinstance(c, ast.Call) and isinstance(
        c.func, ast.Subscript) and txt(c.func.value).endswith(
        "DEFECTIVE_FEATURES")]
    ok = (len(c_calls) == 1 and len(r_calls) == 1
          and txt(c_calls[0].args[0]) == "src_h5file"
          and txt(r_calls[0].args[0]) == "self.h5file"
          and txt(c_calls[0].func.slice) == "feat")
    ctx.ob("R8.5", ok, "copier and reader evaluate TABLE[feat](file root)"
           if ok else "copier and reader apply the defect test differently",
           node=c_calls[0] if c_calls else fn,
           label="defect test applied to the file root")


def r88(ctx, repo):
    fn = repo.func(TDMS, "tdms2rtdc")
    ex = [c for c in walk(fn) if isinstance(c, ast.Call) and last_attr(c)
          == "hdf5" and "export" in txt(c.func)]
    if len(ex) != 1:
        raise AnalysisError("tdms2rtdc: export.hdf5 call lost")
    ex = ex[0]
    fv = kwarg(ex, "features", 1)
    # which list is exported under which value of `compute_features`:
    # if-statement or conditional expression, either polarity
    choice = {}       # truth value of compute_features -> source text

    def polarity(test):
        if txt(test) == "compute_features":
            return True
        if isinstance(test, ast.UnaryOp) and isinstance(test.op, ast.Not) \
                and txt(test.operand) == "compute_features":
            return False
        return None
    fname = txt(fv) if fv is not None else None
    for n in walk(fn):
        if isinstance(n, ast.Assign) and any(
                isinstance(t, ast.Name) and t.id == fname
                for t in n.targets):
            v = n.value
            if isinstance(v, ast.IfExp):
                pol = polarity(v.test)
                if pol is None:
                    raise AnalysisError("tdms2rtdc: feature selection "
                                        f"`{short(v, 60)}` not recognised")
                choice.setdefault(pol, set()).add(txt(v.body))
                choice.setdefault(not pol, set()).add(txt(v.orelse))
                continue
            # inside an if / else on compute_features?
            par, child = n.parent, n
            pol = None
            while par is not None and not isinstance(par, ast.FunctionDef):
                if isinstance(par, ast.If) and polarity(par.test) is not None:
                    pol = polarity(par.test)
                    if any(child is x for x in par.orelse):
                        pol = not pol
                    break
                child, par = par, getattr(par, "parent", None)
            if pol is None:
                choice.setdefault(True, set()).add(txt(v))
                choice.setdefault(False, set()).add(txt(v))
            else:
                choice.setdefault(pol, set()).add(txt(v))
    srcs = sorted(set().union(*choice.values())) if choice else []
    ok = srcs == ["ds.features", "ds.features_innate"]
    ctx.ob("R8.8", ok, "exported features are ds.features (computed) or "
           "ds.features_innate" if ok else
           f"exported feature list derives from {srcs}", node=ex,
           label="exported feature list")
    # compute_features selects the full list
    ok = choice.get(True) == {"ds.features"} and choice.get(False) == {
        "ds.features_innate"}
    ctx.ob("R8.8", ok, "without compute_features only innate features are "
           "exported" if ok else "feature selection by compute_features "
           f"changed: with the option {sorted(choice.get(True, []))}, "
           f"without {sorted(choice.get(False, []))}", node=ex,
           label="feature selection polarity")
    filt = kwarg(ex, "filtered", 2)
    ok = filt is not None and txt(filt) == "True"
    sk = find_calls(fn, name="common.skip_empty_image_events")
    ctx.ob("R8.8", ok and len(sk) == 1 and sk[0].lineno < ex.lineno,
           "the empty boundary images are excluded by a manual filter that "
           "the export honours (filtered=True)" if ok else
           "export does not apply the filter that skips empty boundary "
           "images", node=ex, label="export honours the boundary filter")
    if sk:
        ini = kwarg(sk[0], "initial", 1)
        fin = kwarg(sk[0], "final", 2)
        ok = txt(ini) == "skip_initial_empty_image" and txt(fin) \
            == "skip_final_empty_image"
        ctx.ob("R8.8", ok, "both skip options reach the filter helper" if ok
               else f"skip options passed as initial={txt(ini)}, "
               f"final={txt(fin)}", node=sk[0], label="skip options")
    sh = inline_helpers(repo, COMMON, repo.func(
        COMMON, "skip_empty_image_events"))
    stores = [s for s in walk(sh) if isinstance(s, ast.Assign) and any(
        "filter.manual" in txt(t) for t in s.targets)]
    ok = bool(stores) and all(txt(s.value) == "False" for s in stores) \
        and len(find_calls(sh, name="ds.apply_filter")) >= len(stores)
    ctx.ob("R8.8", ok, "the helper only excludes events (manual=False) and "
           "applies the filter" if ok else "skip_empty_image_events changed",
           node=sh, label="boundary filter only excludes", nontrivial=False)
    lg = [c for c in walk(fn) if isinstance(c, ast.Call) and last_attr(c)
          == "update" and txt(c.func.value) == "logs" and c.args
          and txt(c.args[0]) == "ds.logs"]
    ok = bool(lg)
    ctx.ob("R8.8", ok, "the logs of the source are written to the output"
           if ok else "the source logs are no longer written", node=lg[0]
           if lg else fn, label="source logs kept")
    p = kwarg(ex, "path", 0)
    ok = p is not None and txt(p) == "path_temp"
    ctx.ob("R8.8", ok, "export goes to the temp path", node=ex,
           label="export target", nontrivial=False)


# ----------------------------------------------------------------------
# R8.9 defect predicates on model attribute sets

ANCDIR = "dclab/rtdc_dataset/feat_anc_core/"
MISSING = "<missing>"

#: predicates that flag data which are merely imprecise: hiding the stored
#: values is only allowed when the replacing recipe can run
RECOMPUTE_GUARDED = {
    "is_defective_feature_time":
        "float32 time is low-precision information, not wrong data "
        "(docstring: 'If we cannot compute the ancillary feature, then we "
        "cannot ignore (even inaccurate) information')",
}
#: predicates that flag data known to be *wrong*; dclab hides them whether
#: or not they can be recomputed (by design, not reported)
WRONG_DATA = {"is_defective_feature_aspect", "is_defective_feature_volume",
              "is_defective_feature_inert_ratio",
              "is_defective_feature_inert_ratio_raw_cvx"}


def model_parse_version(v):
    if not isinstance(v, str):
        raise L.ModelFault("TypeError", f"parse_version({v!r})")
    nums = _re.findall(r"\d+", v.split("+")[0])
    if not nums:
        return (-1,)
    return tuple(int(n) for n in nums[:4])


def recipe_requirements(repo, feat):
    """(req_features, [(section, key)…]) of the ancillary recipe(s) that
    compute `feat` – folded from the AncillaryFeature(...) registrations"""
    found = []
    for rel in repo.files(ANCDIR):
        if f'"{feat}"' not in repo.src(rel):
            continue
        for c in ast.walk(repo.tree(rel)):
            if isinstance(c, ast.Call) and (call_name(c) or "").endswith(
                    "AncillaryFeature"):
                fn = kwarg(c, "feature_name", 0)
                if const_str(fn) != feat:
                    continue
                try:
                    rf = kwarg(c, "req_features")
                    rc = kwarg(c, "req_config")
                    rf = ast.literal_eval(rf) if rf is not None else []
                    rc = ast.literal_eval(rc) if rc is not None else []
                except ValueError:
                    raise AnalysisError(f"recipe of {feat}: requirements "
                                        f"are not literals")
                cfg = [(sec, k) for sec, keys in rc for k in keys]
                found.append((list(rf), cfg, c))
    return found


def defect_file(sw=MISSING, events=("time",), tsize=8, attrs=None, logs=()):
    f = H.H5File("model file")
    if sw is not MISSING:
        dict.update(f.attrs, {"setup:software version": sw})
    dict.update(f.attrs, attrs or {})
    ev = f.create_group("events")
    for k in events:
        dt = H.DType("f", tsize) if k == "time" else H.DType("f", 8)
        ev.members[k] = H.H5Dataset(ev, k, (2,), dt, None, None, False,
                                    [1, 2])
    if logs:
        lg = f.create_group("logs")
        for k in logs:
            lg.members[k] = H.H5Dataset(lg, k, (1,), H.DType("S", 100),
                                        None, None, False, [b"x"])
    return f


def r89(ctx, repo):
    tab = repo.module_assign(DEFECT, "DEFECTIVE_FEATURES")
    entries = {const_str(k): txt(v) for k, v in zip(tab.keys, tab.values)}
    it = L.Interp(repo)
    env = it.env(DEFECT, {"parse_version": model_parse_version})
    preds = sorted(set(entries.values()))
    for p in preds:
        if p not in RECOMPUTE_GUARDED and p not in WRONG_DATA:
            raise AnalysisError(f"feat_defect.{p}: unknown defect predicate "
                                f"(classify it in rules/C08.py)")
    # a replacing recipe exists for every entry
    reqs = {}
    for feat in sorted(entries):
        r = recipe_requirements(repo, feat)
        reqs[feat] = r
        ctx.ob("R8.9", bool(r),
               f"'{feat}': an ancillary recipe replaces the hidden data "
               f"(needs {r[0][0]} {r[0][1]})" if r else
               f"'{feat}' can be declared defective but no ancillary recipe "
               f"computes it: the data would just disappear",
               node=tab, key=f"{DEFECT}::DEFECTIVE_FEATURES::recipe for "
               f"{feat}")

    def evaluate(pname, f):
        fn = env.lookup(pname)
        res = L.run(lambda: fn(f))
        if res[0] == "ok":
            if isinstance(res[1], L.Opaque):
                raise AnalysisError(f"{pname}: un-modelled result")
            return ("ok", bool(res[1]))
        return res

    # ---- time: defective => the recipe can run --------------------------
    for feat, pname in sorted(entries.items()):
        if pname not in RECOMPUTE_GUARDED:
            continue
        node = repo.func(DEFECT, pname)
        if not reqs[feat]:
            continue
        rf, rc, _c = reqs[feat][0]
        softwares = [MISSING, "", "ShapeIn 2.2.0",
                     "ShapeIn 2.2.0 | dclab 0.47.5",
                     "ShapeIn 2.2.0 | dclab 0.47.6",
                     b"ShapeIn 2.2.0 | dclab 0.40.0", "dclab 0.40.0"]
        cfg_vals = [MISSING, 0, 0.0, 2000.0]
        bad_guard = bad_tab = None
        n = 0
        for present in itertools.product((True, False), repeat=len(rf)):
            for vals in itertools.product(cfg_vals, repeat=len(rc)):
                for tsize, sw in itertools.product((4, 8), softwares):
                    evs = [feat] + [x for x, p_ in zip(rf, present) if p_]
                    attrs = {f"{sec}:{k}": v for (sec, k), v in zip(rc, vals)
                             if v is not MISSING}
                    f = defect_file(sw, evs, tsize, attrs)
                    n += 1
                    res = evaluate(pname, f)
                    can = all(present) and all(
                        v is not MISSING and v != 0 for v in vals)
                    desc = (f"events {evs}, "
                            + ", ".join(f"{sec}:{k}="
                                        f"{'missing' if v is MISSING else v}"
                                        for (sec, k), v in zip(rc, vals))
                            + f", stored as float{tsize * 8}, software "
                            f"{'missing' if sw is MISSING else repr(sw)}")
                    if res[0] != "ok":
                        bad_tab = bad_tab or (desc, _res(res), "a verdict")
                        continue
                    if res[1] and not can and bad_guard is None:
                        bad_guard = desc
                    sws = (sw.decode() if isinstance(sw, bytes) else
                           "" if sw is MISSING else sw)
                    last = sws.split("|")[-1].strip()
                    want = can and (tsize == 4 or (
                        "ShapeIn" in sws and last.startswith("dclab")
                        and model_parse_version(last.split()[1])
                        < (0, 47, 6)))
                    if res[1] != want and bad_tab is None:
                        bad_tab = (desc, res[1], want)
        ctx.ob("R8.9", bad_guard is None,
               f"'{feat}' is only declared defective when its recipe can "
               f"run ({', '.join(rf)} present, "
               f"{', '.join(s_ + ':' + k for s_, k in rc)} non-zero) – {n} "
               f"model files" if bad_guard is None else
               f"'{feat}' is declared defective for a file with "
               f"{bad_guard}: the recipe that replaces it needs "
               f"{rf} and a usable {[s_ + ':' + k for s_, k in rc]} – "
               f"compress/repack drop the stored data, condense stores "
               f"inf/nan, the reader hides the only information",
               node=node, label="defective only if recomputable")
        ctx.ob("R8.9", bad_tab is None,
               f"decision table of '{feat}' (float32, or Shape-In data "
               f"last written by dclab < 0.47.6) – {n} model files"
               if bad_tab is None else
               f"{bad_tab[0]}: verdict {bad_tab[1]}, documented "
               f"{bad_tab[2]}", node=node, label="decision table")

    # ---- wrong-data predicates: documented decision tables ---------------
    def table(pname, files, want, label, doc):
        node = repo.func(DEFECT, pname)
        bad = None
        for desc, f, w in files:
            res = evaluate(pname, f)
            if res != ("ok", w) and bad is None:
                bad = (desc, _res(res), w)
        ctx.ob("R8.9", bad is None, f"{doc} – {len(files)} model files"
               if bad is None else f"{bad[0]}: verdict {bad[1]}, documented "
               f"{bad[2]}", node=node, label=label)

    if "is_defective_feature_aspect" in preds:
        files = []
        for sw in (MISSING, "", "ShapeIn 2.0.6", b"ShapeIn 2.0.7",
                   "ShapeIn 2.0.5", "ShapeIn 2.0.8", "dclab 0.30.0"):
            sws = sw.decode() if isinstance(sw, bytes) else sw
            files.append((f"software {sw!r}", defect_file(sw, ("aspect",)),
                          sws in ("ShapeIn 2.0.6", "ShapeIn 2.0.7")))
        table("is_defective_feature_aspect", files, None, "decision table",
              "aspect is defective exactly for Shape-In 2.0.6 / 2.0.7")
    if "is_defective_feature_volume" in preds:
        files = []
        for sw, w in ((MISSING, False), ("", False), ("ShapeIn 2.0.5", False),
                      ("ShapeIn 2.0.5 | dclab 0.36.1", True),
                      (b"ShapeIn 2.0.5 | dclab 0.36.1", True),
                      ("ShapeIn 2.0.5 | dclab 0.37.0", False),
                      ("dclab 0.20.0", True),
                      ("ShapeIn 2 | dclab 0.36.1 | dclab 0.50.0", False)):
            for fixed in (False, True):
                files.append((f"software {sw!r}, issue-141 log {fixed}",
                              defect_file(sw, ("volume",), logs=(
                                  "dclab_issue_141",) if fixed else ()),
                              w and not fixed))
        table("is_defective_feature_volume", files, None, "decision table",
              "volume is defective when last written by dclab < 0.37.0 and "
              "not repaired (dclab_issue_141)")
    if "is_defective_feature_inert_ratio" in preds:
        files = []
        for roi in (MISSING, 250, 500, 501, 1000):
            for sw, old in ((MISSING, False), ("ShapeIn 2.2.0", False),
                            ("ShapeIn 2.2.0 | dclab 0.48.2", True),
                            ("ShapeIn 2.2.0 | dclab 0.48.3", False),
                            # only the LAST dclab step decides (a newer
                            # dclab recomputed the features)
                            ("ShapeIn 2.0.6 | dclab 0.48.0 | dclab 0.62.7",
                             False),
                            ("ShapeIn 2.0.6 | dclab 0.62.7 | dclab 0.48.0",
                             True),
                            ("dclab 0.30.0", True)):
                attrs = {} if roi is MISSING else {"imaging:roi size x": roi}
                files.append((f"roi size x {roi}, software {sw!r}",
                              defect_file(sw, ("tilt",), attrs=attrs),
                              old and roi is not MISSING and roi > 500))
        table("is_defective_feature_inert_ratio", files, None,
              "decision table", "inertia features are defective for images "
              "wider than 500 px last written by dclab < 0.48.3")
    if "is_defective_feature_inert_ratio_raw_cvx" in preds:
        files = []
        wide = {"imaging:roi size x": 800}
        for sw, logs, w in (
                ("ShapeIn 2.0.4 | dclab 0.48.1", (), True),
                ("ShapeIn 2.0.5 | dclab 0.48.1", (), False),
                ("ShapeIn 2.2.0 | dclab 0.48.1", (), False),
                ("2.2.1.0 | dclab 0.48.1", ("shapein-acquisition",), False),
                ("2.0.4 | dclab 0.48.1", ("shapein-acquisition",), True),
                ("otherdaq 1.0 | dclab 0.48.1", (), True),
                ("dclab 0.30.0", (), True),
                ("ShapeIn 2.0.4 | dclab 0.48.3", (), False),
                ("ShapeIn 2.0.4", (), False)):
            files.append((f"wide image, software {sw!r}, logs {logs}",
                          defect_file(sw, ("inert_ratio_raw",), attrs=wide,
                                      logs=logs), w))
        files.append(("narrow image, software 'dclab 0.30.0'",
                      defect_file("dclab 0.30.0", ("inert_ratio_raw",),
                                  attrs={"imaging:roi size x": 250}), False))
        table("is_defective_feature_inert_ratio_raw_cvx", files, None,
              "decision table", "raw/cvx inertia ratios recorded by "
              "Shape-In >= 2.0.5 are trusted")
    # which predicate guards which feature
    want_map = {"time": "is_defective_feature_time"}
    for feat, pname in want_map.items():
        ok = entries.get(feat) == pname
        ctx.ob("R8.9", ok, f"'{feat}' is tested by {pname}" if ok else
               f"'{feat}' is tested by {entries.get(feat)}: the "
               f"recomputability guard of {pname} is bypassed", node=tab,
               key=f"{DEFECT}::DEFECTIVE_FEATURES::predicate of {feat}")


GOOD = {
    "R8.1": "the copy carries the attributes of the source object",
    "R8.3": "the sealed model input is never modified",
    "R8.4": "destination equals the source on every model layout",
    "R8.5": "as specified on every option combination",
    "R8.6": "as documented on every option combination",
    "R8.7": "copy is a fixpoint of the compression predicate",
    "R8.20": "holds for every combination of earlier logs and warnings",
    "R8.8": "holds on every model dataset",
}


def run(ctx):
    repo = ctx.repo
    ctx.rule("R8.1", "attributes of every copied object are preserved "
             "(root, features, logs, tables; manual and verbatim route)",
             minimum=6)
    ctx.rule("R8.3", "input read-only: sealed model source, taint in "
             "copier.py, handle roles at the rtdc_copy calls", minimum=25)
    ctx.rule("R8.4", "every layout branch of h5ds_copy / rtdc_copy writes "
             "the whole destination with the source's values", minimum=15)
    ctx.rule("R8.5", "condense stores loaded ∪ basin ∪ ancillary scalar "
             "features once; defect table shared with the reader",
             minimum=12)
    ctx.rule("R8.6", "rtdc_copy selects the documented content for every "
             "option and completes on every model file", minimum=15)
    ctx.rule("R8.7", "output of the manual route satisfies "
             "is_properly_compressed; second pass is the identity",
             minimum=4)
    ctx.rule("R8.8", "tdms2rtdc exports the dataset's feature list, honours "
             "the boundary filter, keeps the logs", minimum=12)
    ctx.rule("R8.20", "dclab-compress: logs of earlier runs are kept under "
             "another name, this run's logs are fresh, other logs untouched",
             minimum=6)
    ctx.rule("R8.9", "defect predicates on model attribute sets: a replacing "
             "recipe exists; imprecise data (time) are hidden only when the "
             "recipe can run; documented decision tables", minimum=14)
    agg = Agg()
    eval_h5ds_copy(ctx, repo, agg)
    eval_rtdc_copy(ctx, repo, agg)
    eval_condense(ctx, repo, agg)
    eval_compress(ctx, repo, agg)
    eval_skip_empty(ctx, repo, agg)
    eval_features_basin(ctx, repo, agg)
    eval_setup_paths(ctx, repo, agg)
    agg.flush(ctx, GOOD)
    r83_taint(ctx, repo)
    r83_tasks(ctx, repo)
    r85_table(ctx, repo)
    r820_hash_sites(ctx, repo)
    r88(ctx, repo)
    r89(ctx, repo)


CROSSVAL = r"""
import json, tempfile, pathlib, warnings
warnings.simplefilter("ignore")
import h5py, hdf5plugin, numpy as np
td = pathlib.Path(tempfile.mkdtemp())
out = {}
with h5py.File(td / "a.h5", "w") as h:
    d = h.create_dataset("a", data=np.arange(5.), chunks=(2,), fletcher32=True,
                         **hdf5plugin.Zstd(clevel=5))
    d.attrs["k"] = 1
    fa = d.id.get_create_plist().get_filter_by_id(32015)
    out["filter_tuple"] = [fa[0], list(fa[1])]
    b = h.create_dataset("b", data=np.arange(5.))
    out["no_filter"] = b.id.get_create_plist().get_filter_by_id(32015) is None
    out["contiguous_chunks"] = b.chunks is None
    try:
        h.create_dataset("c", shape=(5,), dtype=float, chunks=(10,))
        out["chunks_gt_shape"] = "ok"
    except ValueError:
        out["chunks_gt_shape"] = "ValueError"
    try:
        list(b.iter_chunks())
        out["iter_contiguous"] = "ok"
    except TypeError:
        out["iter_contiguous"] = "TypeError"
    out["iter_chunks"] = [[s.start, s.stop] for (s,) in d.iter_chunks()]
    im = h.create_dataset("im", data=np.zeros((5, 2)), chunks=(2, 1))
    out["iter_chunks_2d"] = len(list(im.iter_chunks()))
    g = h.require_group("g")
    h5py.h5o.copy(h.id, b"a", g.id, b"a2")
    out["copy_attrs"] = dict(g["a2"].attrs) == {"k": 1}
    out["copy_filter"] = g["a2"].id.get_create_plist().get_filter_by_id(
        32015) is not None
    try:
        h5py.h5o.copy(h.id, b"a", g.id, b"a2")
        out["copy_exists"] = "ok"
    except RuntimeError:
        out["copy_exists"] = "RuntimeError"
    lg = h.create_dataset("lg", data=np.array(["abc", "defgh"], dtype=object),
                          dtype=h5py.string_dtype())
    out["vlen_kind"] = lg.dtype.kind
    out["vlen_len"] = [len(ii) for ii in lg]
    s3 = h.create_dataset("s3", shape=(2,), dtype="S3", fletcher32=True,
                          **hdf5plugin.Zstd(clevel=5))
    s3[:] = lg[:].astype("S3")
    out["truncate"] = [x.decode() for x in s3[:]]
    out["auto_chunk"] = s3.chunks is not None
    try:
        h.create_dataset("a", data=np.arange(2.))
        out["dup_name"] = "ok"
    except ValueError:
        out["dup_name"] = "ValueError"
with h5py.File(td / "a.h5") as h:
    try:
        h["a"].attrs["x"] = 1
        out["readonly"] = "ok"
    except Exception as e:
        out["readonly"] = "refused"
print(json.dumps(out))
"""

CROSSVAL_EXPECT = {
    "filter_tuple": [1, [5]], "no_filter": True, "contiguous_chunks": True,
    "chunks_gt_shape": "ValueError", "iter_contiguous": "TypeError",
    "iter_chunks": [[0, 2], [2, 4], [4, 5]], "iter_chunks_2d": 6,
    "copy_attrs": True, "copy_filter": True, "copy_exists": "RuntimeError",
    "vlen_kind": "O", "vlen_len": [3, 5], "truncate": ["abc", "def"],
    "auto_chunk": True, "dup_name": "ValueError", "readonly": "refused",
}


def crossval(ctx):
    """thorough tier: the h5py behaviour that sa/lib_C08.py models is
    observed on the installed h5py (validates the analyser's model only;
    dclab is not imported)"""
    import json
    import subprocess
    import sys
    try:
        r = subprocess.run([sys.executable, "-c", CROSSVAL],
                           capture_output=True, text=True, timeout=120,
                           cwd="/tmp")
    except Exception as e:        # pragma: no cover
        return {"status": "skipped", "reason": str(e)}
    if r.returncode != 0:
        return {"status": "skipped", "reason": r.stderr[-300:]}
    got = json.loads(r.stdout.strip().splitlines()[-1])
    diff = {k: (got.get(k), v) for k, v in CROSSVAL_EXPECT.items()
            if got.get(k) != v}
    if diff:
        raise AnalysisError(f"h5py behaves differently from the model of "
                            f"sa/lib_C08.py: {diff}")
    # the model itself
    f = H.H5File("m")
    d = f.create_dataset("a", shape=(5,), dtype=float, chunks=(2,),
                         fletcher32=True, **H.zstd(clevel=5))
    fa = d.id.get_create_plist().get_filter_by_id(H.ZSTD)
    m = {"filter_tuple": [fa[0], list(fa[1])],
         "iter_chunks": [[s.start, s.stop] for (s,) in d.iter_chunks()]}
    for k, v in m.items():
        if v != CROSSVAL_EXPECT[k]:
            raise AnalysisError(f"model disagrees with its own table: {k}")
    return {"status": "agrees", "facts": len(CROSSVAL_EXPECT)}


MUTANTS = [
    ("manual route loses dataset attributes", COPIER,
     ("            # Also write all the attributes\n"
      "            for key in src.attrs:\n"
      "                dst.attrs[key] = src.attrs[key]\n", ""), "R8.1"),
    ("file metadata not copied", COPIER,
     ("    for akey in src_h5file.attrs:\n"
      "        dst_h5file.attrs[akey] = src_h5file.attrs[akey]\n",
      "    pass\n"), "R8.1"),
    ("attributes written back to the source", COPIER,
     ("                dst.attrs[key] = src.attrs[key]\n",
      "                src.attrs[key] = dst.attrs.get(key, src.attrs[key])\n"),
     "R8.3"),
    ("logs group created in the source", COPIER,
     ('        dst_h5file.require_group("logs")\n',
      '        src_h5file.require_group("logs")\n'
      '        dst_h5file.require_group("logs")\n'), "R8.3"),
    ("compress opens the input writable", COMPRESS,
     ("h5py.File(path_in) as h5", 'h5py.File(path_in, "a") as h5'), "R8.3"),
    ("repack swaps source and destination", REPACK,
     ("        rtdc_copy(src_h5file=h5,\n                  dst_h5file=hc,",
      "        rtdc_copy(src_h5file=hc,\n                  dst_h5file=h5,"),
     "R8.3"),
    ("chunk loop writes only the first chunk", COPIER,
     ("                for chunk in src.iter_chunks():\n"
      "                    dst[chunk] = src[chunk]\n",
      "                for chunk in src.iter_chunks():\n"
      "                    dst[chunk] = src[chunk]\n"
      "                    break\n"), "R8.4"),
    ("contiguous data never written", COPIER,
     ("            elif chunks is None:\n                dst[:] = src[:]\n",
      "            elif chunks is None:\n                pass\n"), "R8.4"),
    ("oversized chunks not clipped", COPIER,
     ("            elif src.chunks and src.chunks[0] > src.shape[0]:",
      "            elif src.chunks and src.chunks[0] > src.shape[0] + 1000:"),
     "R8.4"),
    ("fixed-length strings too short", COPIER,
     ("                max_length = max([len(ii) for ii in src] + [100])",
      "                max_length = 100"), "R8.4"),
    ("destination created with the chunk shape", COPIER,
     ("                                         shape=src.shape,",
      "                                         shape=chunks or src.shape,"),
     "R8.4"),
    ("dst_name ignored on the verbatim route", COPIER,
     ("                          dst_name=dst_name.encode(),",
      "                          dst_name=src_name.encode(),"), "R8.4"),
    ("recursion drops the members' compression flag and name", COPIER,
     ("        dst_rec = dst_loc.require_group(dst_name)",
      "        dst_rec = dst_loc.require_group(src_name)"), "R8.4"),
    ("result of the copy is not returned", COPIER,
     ("    return dst_loc[dst_name]\n", "    return None\n"), "R8.4"),
    ("logs lose the name prefix", COPIER,
     ("                      dst_name=meta_prefix + l_key,",
      "                      dst_name=l_key,"), "R8.4"),
    ("scalar statistics not complemented", COPIER,
     ("                        if attr not in dst.attrs:\n"
      "                            dst.attrs[attr] = ufunc(dst)\n",
      "                        pass\n"), "R8.4"),
    ("defective features are copied", COPIER,
     ("                    if defective:\n                        continue\n",
      "                    if defective:\n                        pass\n"),
     "R8.5"),
    ("condense forgets the loaded features", CONDENSE,
     ("    features = set(feats_sc_loaded)\n", "    features = set()\n"),
     "R8.5"),
    ("condense ignores store_basin_features", CONDENSE,
     ("    if store_basin_features:\n        feats_sc_basin",
      "    if True:\n        feats_sc_basin"), "R8.5"),
    ("condense drops the ancillary features", CONDENSE,
     ("            features |= set(feats_sc_anc)\n", ""), "R8.5"),
    ("condense appends to copied features", CONDENSE,
     ('            if feat not in h5_cond["events"]:\n'
      "                hw.store_feature(feat=feat, data=ds[feat])",
      "            if True:\n"
      "                hw.store_feature(feat=feat, data=ds[feat])"), "R8.5"),
    ("condense stores non-scalar basin features", CONDENSE,
     ("                          (f in feats_sc and f not in feats_exclude)]\n"
      '        cmd_dict["features_basin"]',
      "                          (f not in feats_exclude)]\n"
      '        cmd_dict["features_basin"]'), "R8.5"),
    ("condense deletes the old log without keeping it", CONDENSE,
     ('                h5_cond["logs"][f"{l_key}_{md5_cfg}"] = '
      'h5_cond["logs"][l_key]\n', "                pass\n"), "R8.5"),
    ("reader uses a private defect table", H5EVENTS,
     ("                defective = feat_defect.DEFECTIVE_FEATURES[feat]"
      "(self.h5file)",
      "                defective = OWN_TABLE[feat](self.h5file)"), "R8.5"),
    ("scalar selection keeps all features", COPIER,
     ("                        if feature_exists(feat, scalar_only=True)]",
      "                        if feature_exists(feat)]"), "R8.6"),
    ("basinmap features dropped although basins are kept", COPIER,
     ("            if feat not in feature_iter:\n"
      "                feature_iter.append(feat)\n",
      "            pass\n"), "R8.6"),
    ("internal basin data copied although basins are stripped", COPIER,
     ('            elif (include_basins\n'
      '                    and "basin_events" in src_h5file',
      '            elif ("basin_events" in src_h5file'), "R8.6"),
    ("include_tables ignored", COPIER,
     ('    if include_tables and "tables" in src_h5file:',
      '    if "tables" in src_h5file:'), "R8.6"),
    ("repack always strips the logs", REPACK,
     ("                  include_logs=not strip_logs,",
      "                  include_logs=strip_logs,"), "R8.6"),
    ("compress drops the tables", COMPRESS,
     ("                      include_tables=True,",
      "                      include_tables=False,"), "R8.6"),
    ("compression predicate demands a higher level", COPIER,
     ("filter_args[1][0] >= 5", "filter_args[1][0] > 5"), "R8.7"),
    ("re-encoding uses a weaker level", COPIER,
     ("    compression_kwargs = hdf5plugin.Zstd(clevel=5)",
      "    compression_kwargs = hdf5plugin.Zstd(clevel=3)"), "R8.7"),
    ("tdms2rtdc exports unfiltered", TDMS,
     ("                               filtered=True,",
      "                               filtered=False,"), "R8.8"),
    ("tdms2rtdc drops the source logs", TDMS,
     ("                logs.update(ds.logs)\n", ""), "R8.8"),
    ("tdms2rtdc selection inverted", TDMS,
     ("                if compute_features:\n"
      "                    features = ds.features\n",
      "                if not compute_features:\n"
      "                    features = ds.features\n"), "R8.8"),
]

TWINS = [
    ("attributes copied with update()", COPIER,
     ("            for key in src.attrs:\n"
      "                dst.attrs[key] = src.attrs[key]\n",
      "            dst.attrs.update(src.attrs)\n")),
    ("chunk branches reordered", COPIER,
     ("            if convert_to_s_fixed:\n"
      "                # We are looking at old variable-length log strings.\n"
      "                dst[:] = src[:].astype(dtype)\n"
      "            elif chunks is None:\n"
      "                dst[:] = src[:]\n"
      "            else:\n"
      "                for chunk in src.iter_chunks():\n"
      "                    dst[chunk] = src[chunk]\n",
      "            if convert_to_s_fixed:\n"
      "                dst[:] = src[:].astype(dtype)\n"
      "            elif chunks is not None:\n"
      "                for cc in src.iter_chunks():\n"
      "                    dst[cc] = src[cc]\n"
      "            else:\n"
      "                dst[...] = src[...]\n")),
    ("feature selection as a dict dispatch-free chain", COPIER,
     ('    elif features == "none":\n        feature_iter = []\n',
      '    elif features in ("none",):\n        feature_iter = list()\n')),
    ("compression predicate with early returns", COPIER,
     ("    if filter_args is not None and filter_args[1][0] >= 5:\n"
      "        properly_compressed = True\n"
      "    else:\n"
      "        properly_compressed = False\n"
      "    return properly_compressed\n",
      "    if filter_args is None:\n        return False\n"
      "    return filter_args[1][0] >= 5\n")),
    ("condense feature algebra with set operations", CONDENSE,
     ("        feats_sc_anc = [f for f in ds.features_ancillary if\n"
      "                        (f in feats_sc and f not in feats_exclude)]\n",
      "        feats_sc_anc = sorted((set(ds.features_ancillary)\n"
      "                               & set(feats_sc)) - set(feats_exclude))\n"
      )),
    ("repack options via local names", REPACK,
     ("                  include_basins=not strip_basins,\n"
      "                  include_logs=not strip_logs,",
      "                  include_basins=(not strip_basins),\n"
      "                  include_logs=(not strip_logs),")),
    ("compress: local rename of the handles", COMPRESS,
     lambda s: s.replace(" as h5,", " as h5_in,").replace(
         "src_h5file=h5,", "src_h5file=h5_in,")),
]

# mutants that re-introduce the repaired defects (apply to the fixed tree)
MUTANTS = list(MUTANTS) + [
    ("table attributes dropped (F08a returns)",
     "dclab/rtdc_dataset/copier.py",
     ("                dst_tab.attrs[akey] = src_tab.attrs[akey]\n",
      "                pass\n"), "R8.1"),
    ("empty dataset dereferenced (F08b returns)",
     "dclab/rtdc_dataset/copier.py",
     ("if dst is not None and scalar_feature_exists(feat):",
      "if scalar_feature_exists(feat):"), "R8.6"),
]

# seeded change /tmp/seed/out_C08/patch3 and relatives (R8.9)
MUTANTS = list(MUTANTS) + [
    ("time defective although the frame rate is zero (seeded)", DEFECT,
     ('    has_ancil = "frame" in h5["events"] and h5.attrs.get('
      '"imaging:frame rate",\n'
      '                                                         0) != 0\n',
      '    has_ancil = "frame" in h5["events"] and "imaging:frame rate" '
      'in h5.attrs\n'), "R8.9"),
    ("time defective although there is no frame feature", DEFECT,
     ('    has_ancil = "frame" in h5["events"] and h5.attrs.get(',
      '    has_ancil = "time" in h5["events"] and h5.attrs.get('), "R8.9"),
    ("time: recomputability test dropped", DEFECT,
     ("    if not has_ancil:\n        return False\n\n    # If we have a 32",
      "    # If we have a 32"), "R8.9"),
    ("volume: version threshold moved", DEFECT,
     ('parse_version(dclab_version) < parse_version("0.37.0")',
      'parse_version(dclab_version) < parse_version("0.36.0")'), "R8.9"),
    ("volume: repair log ignored", DEFECT,
     ('    if "dclab_issue_141" in list(h5.get("logs", {}).keys()):\n'
      "        return False\n", ""), "R8.9"),
    ("inertia: width threshold inclusive", DEFECT,
     ('h5.attrs.get("imaging:roi size x", 0) > 500',
      'h5.attrs.get("imaging:roi size x", 0) >= 500'), "R8.9"),
    ("aspect: Shape-In 2.0.7 forgotten", DEFECT,
     ('["ShapeIn 2.0.6", "ShapeIn 2.0.7"]', '["ShapeIn 2.0.6"]'), "R8.9"),
    ("raw/cvx: trusted Shape-In version raised", DEFECT,
     ('parse_version(si_version) >= parse_version("2.0.5")',
      'parse_version(si_version) > parse_version("2.0.5")'), "R8.9"),
    ("time tested by the volume predicate", DEFECT,
     ('    "time": is_defective_feature_time,',
      '    "time": is_defective_feature_volume,'), "R8.9"),
]

TWINS = list(TWINS) + [
    ("time: recomputability test with early returns", DEFECT,
     ('    has_ancil = "frame" in h5["events"] and h5.attrs.get('
      '"imaging:frame rate",\n'
      '                                                         0) != 0\n'
      "    if not has_ancil:\n        return False\n",
      '    if "frame" not in h5["events"]:\n        return False\n'
      '    frame_rate = h5.attrs.get("imaging:frame rate", 0)\n'
      "    if not frame_rate:\n        return False\n")),
    ("volume: repair log tested by membership", DEFECT,
     ('    if "dclab_issue_141" in list(h5.get("logs", {}).keys()):',
      '    if "dclab_issue_141" in h5.get("logs", {}):')),
]

# round-2 seeded changes (/tmp/seed/out2_C08/patch1-3) and the repaired
# .tdms condense defect (3c0a5ba)
MUTANTS = list(MUTANTS) + [
    ("attributes only copied on the chunk-wise route (seeded)", COPIER,
     ("            # Also write all the attributes\n"
      "            for key in src.attrs:\n"
      "                dst.attrs[key] = src.attrs[key]\n",
      "                # Also write all the attributes\n"
      "                for key in src.attrs:\n"
      "                    dst.attrs[key] = src.attrs[key]\n"), "R8.1"),
    ("compress renames only the logs known so far (seeded)", COMPRESS,
     ('            for lkey in ["dclab-compress", "dclab-compress-warnings"]:',
      "            for lkey in logs:"), "R8.20"),
    ("compress overwrites nothing: old logs not renamed at all", COMPRESS,
     ('                    hc["logs"][f"{lkey}_{md55m}"] = hc["logs"][lkey]\n'
      '                    del hc["logs"][lkey]\n',
      "                    pass\n"), "R8.20"),
    ("compress drops the old logs instead of renaming", COMPRESS,
     ('                    hc["logs"][f"{lkey}_{md55m}"] = hc["logs"][lkey]\n',
      ""), "R8.20"),
    ("compress forgets the warnings log", COMPRESS,
     ('            logs["dclab-compress-warnings"] = '
      'common.assemble_warnings(w)\n', "            pass\n"), "R8.20"),
    ("condense: ancillary features only with basin features (seeded)",
     CONDENSE,
     ("    if store_ancillary_features:\n"
      "        feats_sc_anc = [f for f in ds.features_ancillary if\n"
      "                        (f in feats_sc and f not in feats_exclude)]\n"
      '        cmd_dict["features_ancillary"] = feats_sc_anc\n'
      "        if feats_sc_anc:\n"
      "            features |= set(feats_sc_anc)\n"
      '            print(f"Using ancillary features {feats_sc_anc}")\n',
      "        if store_ancillary_features:\n"
      "            feats_sc_anc = [f for f in ds.features_ancillary if\n"
      "                            (f in feats_sc and f not in "
      "feats_exclude)]\n"
      '            cmd_dict["features_ancillary"] = feats_sc_anc\n'
      "            if feats_sc_anc:\n"
      "                features |= set(feats_sc_anc)\n"), "R8.5"),
    ("condense of a non-HDF5 source without events group (3c0a5ba returns)",
     CONDENSE,
     ('    h5_cond.require_group("events")\n', ""), "R8.5"),
]

TWINS = list(TWINS) + [
    ("compress: rename loop over a tuple with a local name", COMPRESS,
     ('            for lkey in ["dclab-compress", "dclab-compress-warnings"]:',
      '            old_names = ("dclab-compress-warnings", "dclab-compress")\n'
      "            for lkey in old_names:")),
    ("condense: groups ensured in one loop", CONDENSE,
     [('    h5_cond.require_group("events")\n', ""),
      ('    h5_cond.require_group("logs")\n',
       '    for grp_name in ("logs", "events"):\n'
       "        h5_cond.require_group(grp_name)\n")]),
]

# round-3 seeded changes (/verif/seeded/C08_7, C08_9)
MUTANTS = list(MUTANTS) + [
    ("boundary filter: frame offset applied to image-less data (seeded)",
     COMMON,
     ('        if (("image" in ds and ds.format == "tdms"',
      '        if ((ds.format == "tdms"'), "R8.8"),
    ("boundary filter: empty last image ignored", COMMON,
     ('            elif np.all(ds["image"][idfin] == 0):\n'
      "                ds.filter.manual[idfin] = False\n"
      "                ds.apply_filter()\n", ""), "R8.8"),
    ("boundary filter: second event excluded", COMMON,
     ("            ds.filter.manual[0] = False\n",
      "            ds.filter.manual[1] = False\n"), "R8.8"),
    ("boundary filter: exclusion not applied", COMMON,
     ("            ds.filter.manual[0] = False\n"
      "            ds.apply_filter()\n",
      "            ds.filter.manual[0] = False\n"), "R8.8"),
    ("basinmap features as a lazy generator over the mutated list (seeded)",
     COPIER,
     ("    src_basin_feats = [f for f in events_src if bn_regexp.match(f)]",
      "    src_basin_feats = (f for f in events_src if bn_regexp.match(f))"),
     "R8.6"),
    ("basinmap features removed while iterating the same list", COPIER,
     ("        for feat in src_basin_feats:\n"
      "            if feat in feature_iter:\n"
      "                feature_iter.remove(feat)\n",
      "        for feat in feature_iter:\n"
      "            if bn_regexp.match(feat):\n"
      "                feature_iter.remove(feat)\n"), "R8.6"),
]

TWINS = list(TWINS) + [
    ("basinmap features stripped by rebuilding the list", COPIER,
     ("        for feat in src_basin_feats:\n"
      "            if feat in feature_iter:\n"
      "                feature_iter.remove(feat)\n",
      "        feature_iter = [feat for feat in feature_iter\n"
      "                        if feat not in src_basin_feats]\n")),
    ("boundary filter: image presence tested once", COMMON,
     ('        if (("image" in ds and ds.format == "tdms"',
      '        has_image = "image" in ds\n'
      '        if ((has_image and ds.format == "tdms"')),
]

# round-3 refactoring campaign/refactorings_round3/C09/refactor5
TWINS = list(TWINS) + [
    ("boundary filter: exclusion extracted into a module-level helper",
     COMMON,
     lambda s: s.replace(
         "def skip_empty_image_events(",
         "def _exclude_event(ds, index):\n"
         "    \"\"\"Exclude the event at `index`\"\"\"\n"
         "    ds.filter.manual[index] = False\n"
         "    ds.apply_filter()\n\n\n"
         "def skip_empty_image_events(").replace(
         "            ds.filter.manual[0] = False\n"
         "            ds.apply_filter()\n",
         "            _exclude_event(ds, 0)\n").replace(
         "                        ds.filter.manual[idfin] = False\n"
         "                        ds.apply_filter()\n",
         "                        _exclude_event(ds, idfin)\n").replace(
         "                ds.filter.manual[idfin] = False\n"
         "                ds.apply_filter()\n",
         "                _exclude_event(ds, idfin)\n")),
]

MUTANTS = list(MUTANTS) + [
    ("boundary filter helper excludes without applying the filter", COMMON,
     lambda s: s.replace(
         "def skip_empty_image_events(",
         "def _exclude_event(ds, index):\n"
         "    ds.filter.manual[index] = False\n\n\n"
         "def skip_empty_image_events(").replace(
         "            ds.filter.manual[0] = False\n"
         "            ds.apply_filter()\n",
         "            _exclude_event(ds, 0)\n"), "R8.8"),
]

# round-4 seeded changes (/verif/seeded/C08_11, C08_12)
MUTANTS = list(MUTANTS) + [
    ("features_basin skips partially overlapping basins (seeded)", CORE,
     ("                    if bn.features and set(bn.features) <= "
      "set(features):",
      "                    if bn.features and set(features).intersection("
      "bn.features):"), "R8.5"),
    ("features_basin ignores availability", CORE,
     ("                    if bn.is_available():\n"
      "                        features += bn.features\n",
      "                    features += bn.features\n"), "R8.5"),
    ("setup_task_paths sorts the inputs alone (seeded)", COMMON,
     ("    paths_in = [pathlib.Path(pi) for pi in paths_in]\n",
      "    paths_in = sorted(pathlib.Path(pi) for pi in paths_in)\n"),
     "R8.6"),
    ("setup_task_paths derives temp names from the sorted outputs", COMMON,
     ('    paths_temp = [po.with_suffix(".rtdc~") for po in paths_out]',
      '    paths_temp = [po.with_suffix(".rtdc~") for po in '
      'sorted(paths_out)]'), "R8.6"),
]

TWINS = list(TWINS) + [
    ("features_basin: subset test via issubset", CORE,
     ("                    if bn.features and set(bn.features) <= "
      "set(features):",
      "                    if bn.features and set(bn.features).issubset("
      "features):")),
    ("setup_task_paths: temp names derived in the suffix loop", COMMON,
     [('    paths_temp = [po.with_suffix(".rtdc~") for po in paths_out]\n',
       '    paths_temp = []\n    for po in paths_out:\n'
       '        paths_temp.append(po.with_suffix(".rtdc~"))\n')]),
]

# round-4 refactorings (campaign/refactorings_round4: C08/refactor5,
# C08/refactor3, C09/refactor4)
TWINS = list(TWINS) + [
    ("compress: calling style of the in-repository calls switched", COMPRESS,
     [("        path_in, path_out, allowed_input_suffixes="
       "allowed_input_suffixes)",
       "        paths_in=path_in,\n        paths_out=path_out,\n"
       "        allowed_input_suffixes=allowed_input_suffixes)"),
      ("common.get_command_log(paths=[path_in])",
       "common.get_command_log([path_in])"),
      ("            rtdc_copy(src_h5file=h5,\n"
       "                      dst_h5file=hc,",
       "            rtdc_copy(h5,\n                      hc,"),
      ("    with RTDCWriter(path_temp,",
       "    with RTDCWriter(path_or_h5file=path_temp,"),
      ("            hw.store_log(name, logs[name])",
       "            hw.store_log(name=name, lines=logs[name])")]),
    ("h5ds_copy: group members copied through functools.partial", COPIER,
     [("import json\n", "import functools\nimport json\n"),
      ("        for key in src:\n"
       "            h5ds_copy(src_loc=src,\n"
       "                      src_name=key,\n"
       "                      dst_loc=dst_rec,\n"
       "                      ensure_compression=ensure_compression,\n"
       "                      recursive=recursive)\n",
       "        copy_member = functools.partial(\n"
       "            h5ds_copy, src_loc=src, dst_loc=dst_rec,\n"
       "            ensure_compression=ensure_compression,\n"
       "            recursive=recursive)\n"
       "        for key in src:\n"
       "            copy_member(src_name=key)\n")]),
    ("setup_task_paths: collision check over itertools.product", COMMON,
     [("import hashlib\n", "import hashlib\nimport itertools\n"),
      ("    for pi in paths_in:\n"
       "        for pp in paths_out + paths_temp:\n"
       "            if pp.resolve() == pi.resolve():\n"
       "                raise ValueError(\n"
       "                    f\"Output path '{pp}' is identical to an input "
       "path!\")\n",
       "    for pi, pp in itertools.product(paths_in, "
       "paths_out + paths_temp):\n"
       "        if pp.resolve() == pi.resolve():\n"
       "            raise ValueError(\n"
       "                f\"Output path '{pp}' is identical to an input "
       "path!\")\n")]),
]

MUTANTS = list(MUTANTS) + [
    ("partial copies every member under the group's own name", COPIER,
     [("import json\n", "import functools\nimport json\n"),
      ("        for key in src:\n"
       "            h5ds_copy(src_loc=src,\n"
       "                      src_name=key,\n"
       "                      dst_loc=dst_rec,\n"
       "                      ensure_compression=ensure_compression,\n"
       "                      recursive=recursive)\n",
       "        copy_member = functools.partial(\n"
       "            h5ds_copy, src_loc=src, dst_loc=dst_loc,\n"
       "            ensure_compression=ensure_compression,\n"
       "            recursive=recursive)\n"
       "        for key in src:\n"
       "            copy_member(src_name=key)\n")], "R8.4"),
    ("compress passes the output as the input of the command log", COMPRESS,
     ("common.get_command_log(paths=[path_in])",
      "common.get_command_log(path=[path_in])"), "R8.20"),
]

# round-5 material: refactorings C10/refactor2, C10/refactor4 (+ `next`,
# itertools.chain in cli/common.py) and seed C08_15
def re_sub_block(src, first_line, last_line, replacement):
    """replace the block from `first_line` to `last_line` (inclusive)"""
    a = src.index(first_line)
    b = src.index(last_line, a) + len(last_line)
    return src[:a] + replacement + src[b:]


TWINS = list(TWINS) + [
    ("tdms2rtdc: exported features chosen by a conditional expression", TDMS,
     lambda s: s.replace(
         "                if compute_features:\n"
         "                    features = ds.features\n"
         "                else:\n",
         "                features = (ds.features if compute_features\n"
         "                            else ds.features_innate)\n"
         "                if False:\n").replace(
         "                    features = ds.features_innate\n",
         "                    pass\n")),
    ("tdms2rtdc: feature selection with inverted test", TDMS,
     lambda s: re_sub_block(
         s, "                if compute_features:\n",
         "                    features = ds.features_innate\n",
         "                if not compute_features:\n"
         "                    features = ds.features_innate\n"
         "                else:\n"
         "                    features = ds.features\n")),
    ("compress: file handles entered through contextlib.ExitStack", COMPRESS,
     [("import argparse\n", "import argparse\nimport contextlib\n"),
      ("        with h5py.File(path_in) as h5, h5py.File(path_temp, \"w\") "
       "as hc:\n",
       "        with contextlib.ExitStack() as stack:\n"
       "            h5 = stack.enter_context(h5py.File(path_in))\n"
       "            hc = stack.enter_context(h5py.File(path_temp, \"w\"))\n")]),
    ("setup_task_paths: suffix validation with next() over a generator",
     COMMON,
     ("    for pi in paths_in:\n"
      "        if pi.suffix not in allowed_input_suffixes:\n"
      "            raise ValueError(f\"Unsupported file type: "
      "'{pi.suffix}'\")\n",
      "    bad = next((pi for pi in paths_in\n"
      "                if pi.suffix not in allowed_input_suffixes), None)\n"
      "    if bad is not None:\n"
      "        raise ValueError(f\"Unsupported file type: "
      "'{bad.suffix}'\")\n")),
]

MUTANTS = list(MUTANTS) + [
    ("missing mean complemented with the nan-unaware np.mean (seeded)",
     COPIER,
     ('                                        (np.nanmean, "mean"),',
      '                                        (np.mean, "mean"),'), "R8.4"),
    ("conditional expression exports all features by default", TDMS,
     lambda s: s.replace(
         "                if compute_features:\n"
         "                    features = ds.features\n"
         "                else:\n",
         "                features = (ds.features_innate if compute_features\n"
         "                            else ds.features)\n"
         "                if False:\n").replace(
         "                    features = ds.features_innate\n",
         "                    pass\n"), "R8.8"),
    ("ExitStack opens the input for writing", COMPRESS,
     [("import argparse\n", "import argparse\nimport contextlib\n"),
      ("        with h5py.File(path_in) as h5, h5py.File(path_temp, \"w\") "
       "as hc:\n",
       "        with contextlib.ExitStack() as stack:\n"
       "            h5 = stack.enter_context(h5py.File(path_in, \"a\"))\n"
       "            hc = stack.enter_context(h5py.File(path_temp, \"w\"))\n")],
     "R8.3"),
]

# seed /verif/seeded/C20_15
MUTANTS = list(MUTANTS) + [
    ("slab-wise copy loop stops one slab early (seeded C20_15)", COPIER,
     ("                for chunk in src.iter_chunks():\n"
      "                    dst[chunk] = src[chunk]\n",
      "                cbytes = int(np.prod(chunks)) * src.dtype.itemsize\n"
      "                step = chunks[0] * max(1, 8 * 1024**2 // cbytes)\n"
      "                for start in range(0, src.shape[0] - step, step):\n"
      "                    dst[start:start + step] = src[start:start + step]"
      "\n"
      "                rem = src.shape[0] % step\n"
      "                if rem:\n"
      "                    dst[-rem:] = src[-rem:]\n"), "R8.4"),
]

TWINS = list(TWINS) + [
    ("slab-wise copy loop over the whole range", COPIER,
     ("                for chunk in src.iter_chunks():\n"
      "                    dst[chunk] = src[chunk]\n",
      "                cbytes = int(np.prod(chunks)) * src.dtype.itemsize\n"
      "                step = chunks[0] * max(1, 8 * 1024**2 // cbytes)\n"
      "                for start in range(0, src.shape[0], step):\n"
      "                    dst[start:start + step] = src[start:start + step]"
      "\n")),
]

# round-6 refactorings (campaign/refactorings_round6: C08/refactor2,
# C10/refactor2, C10/refactor5; C08/refactor1 spans two files and is
# replayed from the campaign directory only)
TWINS = list(TWINS) + [
    ("setup_task_paths returns a named tuple", COMMON,
     [("import hashlib\n", "import collections\nimport hashlib\n"),
      ("def setup_task_paths(",
       "TaskPaths = collections.namedtuple(\n"
       "    \"TaskPaths\", [\"paths_in\", \"paths_out\", \"paths_temp\"])\n"
       "\n\ndef setup_task_paths("),
      ("    return paths_in, paths_out, paths_temp\n",
       "    return TaskPaths(paths_in=paths_in,\n"
       "                     paths_out=paths_out,\n"
       "                     paths_temp=paths_temp)\n")]),
    ("compress: warnings recorded through a local context manager", COMPRESS,
     [("import argparse\n", "import argparse\nimport contextlib\n"),
      ("    with warnings.catch_warnings(record=True) as w:\n"
       "        warnings.simplefilter(\"always\")\n",
       "    with record_all_warnings() as w:\n"),
      ("def compress(\n",
       "@contextlib.contextmanager\n"
       "def record_all_warnings():\n"
       "    with warnings.catch_warnings(record=True) as w:\n"
       "        warnings.simplefilter(\"always\")\n"
       "        yield w\n\n\n"
       "def compress(\n")]),
]

MUTANTS = list(MUTANTS) + [
    ("named tuple of setup_task_paths with input and temp swapped", COMMON,
     [("import hashlib\n", "import collections\nimport hashlib\n"),
      ("def setup_task_paths(",
       "TaskPaths = collections.namedtuple(\n"
       "    \"TaskPaths\", [\"paths_in\", \"paths_out\", \"paths_temp\"])\n"
       "\n\ndef setup_task_paths("),
      ("    return paths_in, paths_out, paths_temp\n",
       "    return TaskPaths(paths_in=paths_temp,\n"
       "                     paths_out=paths_out,\n"
       "                     paths_temp=paths_in)\n")], "R8."),
]

# seed /verif/seeded/C08_17
MUTANTS = list(MUTANTS) + [
    ("compress hashes 5,000,000 bytes for the log suffix (seeded)", COMPRESS,
     ("                    md55m = util.hashfile(path_in, count=80)",
      "                    md55m = util.hashfile(path_in, blocksize=5000000, "
      "count=1)"), "R8.20"),
]

TWINS = list(TWINS) + [
    ("compress spells out the default block size of hashfile", COMPRESS,
     ("                    md55m = util.hashfile(path_in, count=80)",
      "                    md55m = util.hashfile(path_in, blocksize=65536,\n"
      "                                          count=80)")),
]

# seed /verif/seeded/C08_16
MUTANTS = list(MUTANTS) + [
    ("inertia defect test looks at every dclab step of the pipeline "
     "(seeded)", DEFECT,
     ("            last_version = version_pipeline[-1]\n"
      "            if last_version.startswith(\"dclab\"):\n"
      "                dclab_version = last_version.split()[1]\n"
      "                # The fix was implemented in 0.48.2, but this method "
      "here\n"
      "                # was only implemented in 0.48.3, so we might have "
      "leaked\n"
      "                # old data into new files.\n"
      "                if parse_version(dclab_version) < parse_version("
      "\"0.48.3\"):\n"
      "                    return True\n",
      "            for step in version_pipeline:\n"
      "                if step.startswith(\"dclab\"):\n"
      "                    dclab_version = step.split()[1]\n"
      "                    if parse_version(dclab_version) < parse_version("
      "\"0.48.3\"):\n"
      "                        return True\n"), "R8.9"),
]
