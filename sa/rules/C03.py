"""C03 – the combined event filter equals the specification of the current
settings.

R3.1 diff completeness + snapshot: the set of min/max keys whose box filter
     is recomputed covers keys present in the previous settings and absent
     now (or stale entries are purged); the remembered settings are a copy.
R3.2 box predicate decided over all order types of (min, max, value) + NaN.
R3.3 conjunction: all = box & invalid & polygon & manual when enabled,
     all-True otherwise; every accumulator is reset before it is AND-ed.
R3.4 polygon cache key ⊇ attributes the polygon evaluation reads; cache
     entries are compared by hash, dropped when the filter leaves the
     settings.
R3.5 event limit: applied inside the enabled branch on the selected events
     with the index mask written back.
R3.7 universe: Filter.features = dataset.features_scalar, selected by the
     definitions' scalar-feature predicate (tabulated + ml_score_???).
R3.6 reset: Filter.reset clears all memo state; reset_filter restores every
     default of the filtering section and keeps the hierarchy parent.
"""
from __future__ import annotations

import ast
import math

from ..absval import eval_pred, orderings
from ..normalize import canon, expand_bool_locals, inline_helpers
from ..core import (AnalysisError, call_name, const_str, dotted, find_calls,
                    is_self_attr, kwarg, last_attr, names_in, short, txt,
                    walk, subscript_key)

ASSUMPTIONS = [
    "NOT decided: equality of the selection with a from-scratch evaluation "
    "for arbitrary data and histories; numpy broadcasting semantics.",
    "R3.2 evaluates the parsed comparison predicate on one representative "
    "per weak ordering of (min, max, value) – exhaustive for predicates that "
    "touch values only through comparisons.",
]

FILT = "dclab/rtdc_dataset/filter.py"
POLY = "dclab/polygon_filter.py"
CORE = "dclab/rtdc_dataset/core.py"
CONF = "dclab/rtdc_dataset/config.py"


def _expand(func, expr, depth=2):
    """normalised text of `expr` with single-assignment locals of `func`
    replaced by their value (a few levels)"""
    class Sub(ast.NodeTransformer):
        def __init__(self, defs):
            self.defs = defs

        def visit_Name(self, node):
            if isinstance(node.ctx, ast.Load) and node.id in self.defs:
                return ast.parse(txt(self.defs[node.id]),
                                 mode="eval").body
            return node
    counts = {}
    for n in walk(func):
        if isinstance(n, ast.Assign) and len(n.targets) == 1 and isinstance(
                n.targets[0], ast.Name):
            counts.setdefault(n.targets[0].id, []).append(n.value)
        elif isinstance(n, (ast.AugAssign, ast.For)):
            t = n.target
            for nm in names_in(t):
                counts.setdefault(nm, []).extend([None, None])
    defs = {k: v[0] for k, v in counts.items() if len(v) == 1
            and v[0] is not None}
    cur = ast.parse(txt(expr), mode="eval").body
    for _ in range(depth):
        cur = ast.fix_missing_locations(Sub(defs).visit(cur))
        cur = ast.parse(txt(cur), mode="eval").body
    return txt(cur)


def _enabled_branches(upd):
    """(if-node, enabled body, disabled body) of the 'enable filters' test,
    whatever its polarity"""
    cands = [n for n in walk(upd) if isinstance(n, ast.If)
             and "enable filters" in _expand(upd, n.test)]
    en = None
    for n in cands:
        t = n.test
        neg = isinstance(t, ast.UnaryOp) and isinstance(t.op, ast.Not)
        core = t.operand if neg else t
        # the branch that combines the filters tests the switch alone; other
        # statements mentioning the switch (short-cuts, …) are judged by the
        # path rules
        if isinstance(core, (ast.Subscript, ast.Name)) and any(
                isinstance(x, ast.BinOp) and isinstance(x.op, ast.BitAnd)
                or isinstance(x, ast.AugAssign) and isinstance(
                    x.op, ast.BitAnd)
                or isinstance(x, ast.Call) and (call_name(x) or "").endswith(
                    "logical_and")
                for x in ast.walk(n)):
            en = (n, neg)
            break
    if en is None:
        raise AnalysisError("Filter.update: 'enable filters' branch lost")
    n, neg = en
    return (n, n.orelse, n.body) if neg else (n, n.body, n.orelse)


def _assigned_from(func, pred):
    """names assigned (single target) from a value satisfying pred"""
    out = {}
    for n in walk(func):
        if isinstance(n, ast.Assign) and len(n.targets) == 1 and isinstance(
                n.targets[0], ast.Name) and pred(n.value):
            out[n.targets[0].id] = n
    return out


def r34(ctx, repo, upd):
    h = repo.func(POLY, "PolygonFilter.hash")
    hashed = {n.attr for n in walk(h) if is_self_attr(n)}
    # (a method body moved into a module-level helper that receives the
    # polygon as a parameter is followed)
    filt = inline_helpers(repo, POLY, repo.func(POLY, "PolygonFilter.filter"))
    read = {n.attr for n in walk(filt) if is_self_attr(n)
            and isinstance(n.ctx, ast.Load)}
    # properties resolve to underlying attributes
    cls = repo.cls(POLY, "PolygonFilter")
    props = {}
    for f in cls.body:
        if isinstance(f, ast.FunctionDef) and any(
                txt(d) == "property" for d in f.decorator_list):
            props[f.name] = {n.attr for n in walk(f) if is_self_attr(n)}
    # in update: pf.<attr>
    pf_reads = set()
    for n in walk(upd):
        if isinstance(n, ast.Attribute) and isinstance(n.value, ast.Name) \
                and n.value.id == "pf" and n.attr not in ("hash", "filter"):
            pf_reads.add(n.attr)
    for a in sorted(read | pf_reads):
        ok = a in hashed
        ctx.ob("R3.4", ok,
               f"polygon attribute `{a}` used for filtering is part of the "
               f"polygon hash" if ok else
               f"polygon attribute `{a}` is used for filtering but not "
               f"hashed: editing it leaves the cached polygon result",
               node=h, key=f"{POLY}::PolygonFilter.hash::covers {a}")
    # inversion inside filter(): on every path on which `self.inverted`
    # holds the result is complemented, on no other path
    from ..cfg import CFG, branch_facts
    fcfg = CFG(filt)

    def is_invert(node):
        if node.ast is None or node.kind not in ("stmt",):
            return False
        for x in ast.walk(node.ast):
            if isinstance(x, ast.Call) and call_name(x) in (
                    "np.invert", "np.logical_not", "numpy.invert"):
                return True
            if isinstance(x, ast.UnaryOp) and isinstance(x.op, ast.Invert):
                return True
        return False

    def inverted_edge(truth):
        def f(src, lab, dst):
            if src.kind == "test" and lab in ("T", "F"):
                for e, t in branch_facts(src.ast.test, lab == "T"):
                    if is_self_attr(e, "inverted") and t == truth:
                        return True
            return False
        return f
    inv_nodes = [n for n in fcfg.nodes if is_invert(n)]
    # (a) no inversion reachable without the inverted=True edge
    r_plain = fcfg.reach([fcfg.entry], avoid_edge=inverted_edge(True),
                         include_sources=True)
    leak = [n for n in inv_nodes if n.id in r_plain]
    # (b) after an inverted=True edge, the exit is not reachable without
    #     passing an inversion
    miss = False
    for n in fcfg.nodes:
        for (b, lab) in fcfg.succ[n.id]:
            if inverted_edge(True)(n, lab, fcfg.nodes[b]):
                if is_invert(fcfg.nodes[b]):
                    continue
                r = fcfg.reach([b], avoid_node=is_invert,
                               avoid_edge=lambda s_, l_, d_: l_ == "x",
                               include_sources=True)
                if fcfg.exit in r:
                    miss = True
    ok = bool(inv_nodes) and not leak and not miss
    ctx.ob("R3.4", ok, "an inverted polygon yields the complement, a "
           "non-inverted one the plain result" if ok else
           "inversion of the polygon result lost or applied on the wrong "
           "branch", node=filt, label="polygon inversion")
    # (c) no return by-passes the inversion decision: a short-cut result
    #     computed before `self.inverted` is consulted is the plain result
    #     for inverted polygons as well (allowed only for empty input, whose
    #     complement is empty too)
    def decides(src, lab, dst):
        if src.kind == "test" and lab in ("T", "F"):
            return any(is_self_attr(e, "inverted")
                       for e, _t in branch_facts(src.ast.test, lab == "T"))
        return False

    def empty_edge(src, lab, dst):
        # edges that establish "the input is empty"
        if src.kind == "test" and lab in ("T", "F"):
            for e, t in branch_facts(src.ast.test, lab == "T"):
                tt = txt(e)
                if isinstance(e, ast.Compare) and len(e.ops) == 1 and (
                        "len(" in tt or ".size" in tt or ".shape[0]" in tt) \
                        and txt(e.comparators[0]) == "0" and (
                        isinstance(e.ops[0], ast.Eq) and t
                        or isinstance(e.ops[0], ast.NotEq) and not t):
                    return True
        return False
    r_nodec = fcfg.reach(
        [fcfg.entry],
        avoid_edge=lambda s_, l_, d_: l_ == "x" or decides(s_, l_, d_)
        or empty_edge(s_, l_, d_), include_sources=True)
    byp = [n for n in fcfg.nodes if n.id in r_nodec and n.kind == "stmt"
           and isinstance(n.ast, ast.Return)]
    # a return whose value is an inversion-aware expression (conditional
    # on self.inverted) decides in place
    byp = [n for n in byp if not any(
        is_self_attr(x, "inverted") for x in ast.walk(n.ast))]
    ctx.ob("R3.4", not byp, "every result passes the inversion decision"
           if not byp else
           f"`{short(byp[0].ast, 50)}` returns before `self.inverted` is "
           f"consulted: for an inverted polygon the short-cut result is not "
           f"complemented", node=byp[0].ast if byp else filt,
           label="no return by-passes inversion")


def r38(ctx, repo):
    """`PolygonFilter` defines ``__eq__`` by value (axes, points,
    inversion), so ``instances.remove(p)`` / ``.index(p)`` / ``p in
    instances`` act on the *first filter that looks like* p, not on p: the
    registry must be searched by identity or by unique id.  (Removing the
    wrong filter leaves the identifier of another one registered – or
    raises when an earlier polygon has another number of vertices.)"""
    cls = repo.cls(POLY, "PolygonFilter")
    by_value = any(isinstance(f, ast.FunctionDef) and f.name == "__eq__"
                   for f in cls.body)
    tree = repo.tree(POLY)

    def is_registry(e):
        return isinstance(e, ast.Attribute) and e.attr == "instances"
    sites = []
    nuse = 0
    for n in ast.walk(tree):
        if is_registry(n):
            nuse += 1
        if isinstance(n, ast.Call) and isinstance(n.func, ast.Attribute) \
                and n.func.attr in ("remove", "index", "count") \
                and is_registry(n.func.value):
            sites.append(n)
        if isinstance(n, ast.Compare) and any(
                isinstance(o, (ast.In, ast.NotIn)) for o in n.ops) and any(
                is_registry(c) for c in n.comparators):
            sites.append(n)
    if nuse < 3:
        raise AnalysisError("PolygonFilter.instances: registry uses lost")
    bad = sites if by_value else []
    for b in bad:
        ctx.ob("R3.8", False, f"`{short(b, 60)}` searches the registry with "
               "`==`, which PolygonFilter defines by value: the first "
               "filter with equal axes, points and inversion is taken "
               "instead of the one meant (and a polygon with another "
               "number of vertices in front of it raises)", node=b,
               label=f"registry searched by identity {short(b, 40)}")
    ctx.ob("R3.8", not bad, f"{nuse} uses of the polygon registry: none "
           "searches it by value equality" if not bad else
           f"{len(bad)} registry operation(s) by value equality",
           node=cls, label="registry searched by identity or id")


def r36(ctx, repo):
    rs = repo.func(FILT, "Filter.reset")
    rs = canon(repo, FILT, rs)
    cleared = {txt(c.func.value) for c in find_calls(rs, attr="clear")}
    # re-binding to a fresh empty container is a reset as well
    for n in walk(rs):
        if isinstance(n, ast.Assign):
            v = n.value
            empty = (isinstance(v, (ast.Dict, ast.List, ast.Set)) and not (
                getattr(v, "keys", None) or getattr(v, "elts", None))) or (
                isinstance(v, ast.Call) and call_name(v) in (
                    "dict", "list", "set", "collections.OrderedDict",
                    "OrderedDict") and not v.args and not v.keywords)
            if empty:
                for t in n.targets:
                    if is_self_attr(t):
                        cleared.add(txt(t))
    for attr in ("_box_filters", "_poly_filters", "_array_props"):
        ok = f"self.{attr}" in cleared
        ctx.ob("R3.6", ok, f"reset clears {attr}" if ok else
               f"reset leaves {attr} in place", node=rs,
               label=f"reset clears {attr}")
    asg = {txt(t): n for n in walk(rs) if isinstance(n, ast.Assign)
           for t in n.targets}
    ok = "self.manual" in asg and "ones" in txt(asg["self.manual"].value)
    ctx.ob("R3.6", ok, "reset re-admits all manually excluded events" if ok
           else "reset keeps manual exclusions", node=rs, label="reset manual")
    ok = "self._old_config" in asg and txt(
        asg["self._old_config"].value) == "{}"
    ctx.ob("R3.6", ok, "reset forgets the remembered settings (forces full "
           "re-evaluation)" if ok else "reset keeps the remembered settings",
           node=rs, label="reset old config")
    # every memo attribute initialised in __init__ is reset
    init = repo.func(FILT, "Filter.__init__")
    memo = {t.attr for n in walk(init) if isinstance(n, ast.Assign)
            for t in n.targets if is_self_attr(t)
            and isinstance(n.value, (ast.Dict, ast.List))}
    miss = {m for m in memo if f"self.{m}" not in cleared
            and f"self.{m}" not in asg}
    ctx.ob("R3.6", not miss, "every container created in __init__ is reset"
           if not miss else f"containers never reset: {sorted(miss)}",
           node=rs, label="reset covers init containers")
    rf = repo.func(CORE, "RTDCBase.reset_filter")
    t = [txt(s) for s in rf.body]
    ok = any("filter.reset()" in x for x in t)
    ctx.ob("R3.6", ok, "reset_filter resets the filter instance" if ok else
           "reset_filter no longer resets the filter instance", node=rf,
           label="reset_filter resets Filter")
    ok = any("_init_default_filter_values" in x for x in t)
    ctx.ob("R3.6", ok, "reset_filter restores the default settings" if ok
           else "reset_filter keeps the filter settings", node=rf,
           label="reset_filter defaults")
    # hierarchy parent preserved: read before, written after
    rd = [i for i, s in enumerate(rf.body) if isinstance(s, ast.Assign)
          and "hierarchy parent" in txt(s.value)]
    wr = [i for i, s in enumerate(rf.body) if isinstance(s, ast.Assign)
          and "hierarchy parent" in txt(s.targets[0])]
    de = [i for i, s in enumerate(rf.body)
          if "_init_default_filter_values" in txt(s)]
    ok = rd and wr and de and rd[0] < de[0] < wr[0]
    ctx.ob("R3.6", bool(ok), "the hierarchy parent survives the reset" if ok
           else "reset_filter loses the hierarchy parent", node=rf,
           label="reset keeps hierarchy parent")
    # defaults cover the table
    table = repo.module_assign("dclab/definitions/meta_const.py",
                               "CFG_ANALYSIS")
    keys = []
    for k, v in zip(table.keys, table.values):
        if const_str(k) == "filtering":
            for item in v.elts:
                keys.append(const_str(item.elts[0]))
    if not keys:
        raise AnalysisError("CFG_ANALYSIS['filtering'] could not be folded")
    dv = canon(repo, CONF, repo.func(
        CONF, "Configuration._init_default_filter_values"))
    assigned = {}
    sec_alias = {n.targets[0].id for n in walk(dv)
                 if isinstance(n, ast.Assign) and isinstance(
                     n.targets[0], ast.Name) and isinstance(
                     n.value, ast.Subscript) and const_str(
                     n.value.slice) == "filtering"}
    for n in walk(dv):
        if isinstance(n, ast.Assign) and isinstance(
                n.targets[0], ast.Subscript) and const_str(
                n.targets[0].slice) and ("filtering" in txt(
                    n.targets[0].value) or txt(
                    n.targets[0].value) in sec_alias):
            assigned[const_str(n.targets[0].slice)] = n.value
    for k in keys:
        ok = k in assigned
        ctx.ob("R3.6", ok, f"default for [filtering] '{k}' is restored"
               if ok else f"no default for [filtering] '{k}'", node=dv,
               key=f"{CONF}::_init_default_filter_values::default {k}")
    exp = {"remove invalid events": "False", "enable filters": "True",
           "limit events": "0", "polygon filters": "[]"}
    for k, v in exp.items():
        if k in assigned:
            ok = txt(assigned[k]) == v
            ctx.ob("R3.6", ok, f"default of '{k}' is the neutral value {v}"
                   if ok else f"default of '{k}' is {txt(assigned[k])}, "
                   f"not the neutral value {v}", node=assigned[k],
                   key=f"{CONF}::_init_default_filter_values::neutral {k}")


def r37(ctx, repo):
    """The universe of features the filter evaluates (`Filter.features`) is
    the dataset's scalar features as decided by the definitions' predicate
    (which also admits the pattern-defined ml_score_??? features) – a range
    on a feature outside that universe is skipped silently."""
    ini = repo.func(FILT, "Filter._init_rtdc_ds")
    src = [n for n in walk(ini) if isinstance(n, ast.Assign)
           and any(is_self_attr(t, "features") for t in n.targets)]
    if len(src) != 1:
        raise AnalysisError("Filter._init_rtdc_ds: binding of self.features "
                            "lost")
    v = src[0].value
    ok = isinstance(v, ast.Attribute) and v.attr == "features_scalar"
    ctx.ob("R3.7", ok, "the filter evaluates the dataset's scalar features"
           if ok else f"the filter's feature universe is `{short(v, 40)}`, "
           f"not the dataset's scalar features", node=src[0],
           label="filter universe = features_scalar")
    fs = canon(repo, CORE, repo.func(CORE, "RTDCBase.features_scalar"))
    # the selection: comprehension or loop over self.features
    conds = None
    for n in ast.walk(fs):
        if isinstance(n, (ast.ListComp, ast.GeneratorExp, ast.SetComp)) \
                and len(n.generators) == 1 and is_self_attr(
                    n.generators[0].iter, "features") and isinstance(
                    n.generators[0].target, ast.Name):
            g = n.generators[0]
            conds = (g.target.id, list(g.ifs), n)
        elif isinstance(n, ast.For) and is_self_attr(n.iter, "features") \
                and isinstance(n.target, ast.Name) and len(n.body) == 1 \
                and isinstance(n.body[0], ast.If) and not n.body[0].orelse:
            conds = (n.target.id, [n.body[0].test], n)
    if conds is None:
        raise AnalysisError("RTDCBase.features_scalar: selection over "
                            "self.features not recognised")
    var, tests, node = conds

    def is_predicate(t):
        if not isinstance(t, ast.Call) or not t.args or txt(
                t.args[0]) != var:
            return False
        name = (call_name(t) or "").split(".")[-1]
        if name == "scalar_feature_exists":
            return len(t.args) == 1 and not t.keywords
        if name == "feature_exists":
            so = kwarg(t, "scalar_only", 1)
            return isinstance(so, ast.Constant) and so.value is True
        return False
    ok = len(tests) == 1 and is_predicate(tests[0])
    if not ok:
        # decidable deviations: a bare table membership (the tables do not
        # hold the pattern-defined features) or no selection at all;
        # anything else may be an equivalent re-implementation
        table_only = len(tests) == 1 and isinstance(
            tests[0], ast.Compare) and len(tests[0].ops) == 1 and isinstance(
            tests[0].ops[0], ast.In) and txt(tests[0].left) == var and txt(
            tests[0].comparators[0]).split(".")[-1] in (
            "scalar_feature_names", "feature_names")
        if tests and not table_only:
            raise AnalysisError(
                "RTDCBase.features_scalar: selection predicate "
                f"`{short(tests[0], 50)}` not understood")
    ctx.ob("R3.7", ok, "scalar-ness is decided by the definitions' "
           "predicate (covers pattern-defined features)" if ok else
           f"features_scalar selects with `"
           f"{' and '.join(short(t, 50) for t in tests)}` instead of the "
           f"definitions' scalar-feature predicate: pattern-defined scalar "
           f"features (ml_score_???) drop out of every filter", node=node,
           label="scalar predicate")
    # the predicate itself admits the table and the pattern
    fe = repo.func("dclab/definitions/feat_logic.py", "feature_exists")
    t = txt(fe)
    ok = "scalar_feature_names" in t and "ml_score_" in t
    ctx.ob("R3.7", ok, "the predicate admits tabulated and pattern-defined "
           "scalar features" if ok else "the scalar-feature predicate lost a "
           "case", node=fe, label="predicate cases", nontrivial=False)
    sf = repo.func("dclab/definitions/feat_logic.py", "scalar_feature_exists")
    calls = [c for c in walk(sf) if isinstance(c, ast.Call)
             and (call_name(c) or "").split(".")[-1] == "feature_exists"]
    ok = len(calls) == 1 and isinstance(
        kwarg(calls[0], "scalar_only", 1), ast.Constant) and kwarg(
        calls[0], "scalar_only", 1).value is True and any(
        isinstance(r, ast.Return) and r.value is calls[0] for r in walk(sf))
    ctx.ob("R3.7", ok, "scalar_feature_exists = feature_exists(.., "
           "scalar_only=True)" if ok else "scalar_feature_exists no longer "
           "wraps feature_exists(scalar_only=True)", node=sf,
           label="predicate wrapper", nontrivial=False)


# ----------------------------------------------------------------------
# finite-model evaluation of Filter over histories (R3.1 – R3.5)

def _ops():
    """name -> function(model) applying one settings change"""
    from ..lib_C03 import Poly

    def rng(feat, lo, hi):
        def f(m):
            m.cfg[feat + " min"] = lo
            m.cfg[feat + " max"] = hi
        return f

    def drop(feat):
        def f(m):
            m.cfg.pop(feat + " min", None)
            m.cfg.pop(feat + " max", None)
        return f

    def setk(k, v):
        def f(m):
            m.cfg[k] = v
        return f

    def padd(uid, axes, rect):
        def f(m):
            if uid not in m.reg.by_id:
                m.reg.by_id[uid] = Poly(uid, axes, rect)
            if uid not in m.cfg["polygon filters"]:
                m.cfg["polygon filters"] = m.cfg["polygon filters"] + [uid]
        return f

    def prem(uid):
        def f(m):
            m.cfg["polygon filters"] = [
                u for u in m.cfg["polygon filters"] if u != uid]
        return f

    def pmove(uid, rect):
        def f(m):
            if uid in m.reg.by_id:
                m.reg.by_id[uid].rect = tuple(rect)
        return f

    def pinv(uid):
        def f(m):
            if uid in m.reg.by_id:
                m.reg.by_id[uid].inverted = not m.reg.by_id[uid].inverted
        return f

    def paxes(uid, axes):
        def f(m):
            if uid in m.reg.by_id:
                m.reg.by_id[uid].axes = tuple(axes)
        return f

    def manual(i, val):
        def f(m):
            m.manual()[i] = val
        return f
    return {
        "deform in [0.2, 0.6]": rng("deform", 0.2, 0.6),
        "deform in [0.05, 0.9]": rng("deform", 0.05, 0.9),
        "deform in [0.4, 0.4]": rng("deform", 0.4, 0.4),
        "deform in [0.6, 0.2]": rng("deform", 0.6, 0.2),
        "deform in [0.3, 0.5]": rng("deform", 0.3, 0.5),
        "deform in [0.4, 0.8]": rng("deform", 0.4, 0.8),
        "deform in [0.3, 0.3 + 1e-9]": rng("deform", 0.3, 0.3 + 1e-9),
        "deform range removed": drop("deform"),
        "area_um in [15, 45]": rng("area_um", 15.0, 45.0),
        "area_um in [20, 50]": rng("area_um", 20.0, 50.0),
        "area_um range removed": drop("area_um"),
        "time in [2, 5]": rng("time", 2.0, 5.0),
        "time in [4, 5]": rng("time", 4.0, 5.0),
        "time range removed": drop("time"),
        "bright_avg in [1, 2] (feature not in the dataset)":
            rng("bright_avg", 1.0, 2.0),
        "remove invalid events on": setk("remove invalid events", True),
        "remove invalid events off": setk("remove invalid events", False),
        "filters disabled": setk("enable filters", False),
        "filters enabled": setk("enable filters", True),
        "polygon 0 added": padd(0, ("area_um", "deform"),
                                (15.0, 45.0, 0.0, 1.0)),
        "polygon 0 removed": prem(0),
        "polygon 0 moved": pmove(0, (35.0, 65.0, 0.0, 1.0)),
        "polygon 0 inverted": pinv(0),
        "polygon 0 on other axes": paxes(0, ("time", "deform")),
        "polygon 1 added": padd(1, ("time", "area_um"),
                                (1.5, 4.5, 0.0, 100.0)),
        "polygon 1 removed": prem(1),
        "deform max -> 0.9": setk("deform max", 0.9),
        "deform max -> 0.4": setk("deform max", 0.4),
        "deform min -> 0.05": setk("deform min", 0.05),
        "deform min -> 0.4": setk("deform min", 0.4),
        "area_um min -> 15": setk("area_um min", 15.0),
        "area_um max -> 45": setk("area_um max", 45.0),
        "deform in [0.2, 0.6] (not applied yet)": rng("deform", 0.2, 0.6),
        "polygon 0 added (not applied yet)": padd(
            0, ("area_um", "deform"), (15.0, 45.0, 0.0, 1.0)),
        "event 1 excluded manually (not applied yet)": manual(1, False),
        "dataset gains feature bright_avg (with nan) (not applied yet)":
            lambda m: m.ds.data.__setitem__(
                "bright_avg", [1.0, float("nan"), 3.0, 4.0, 5.0, 6.0]),
        "dataset gains feature bright_avg (with nan)": lambda m: m.ds.data
        .__setitem__("bright_avg", [1.0, float("nan"), 3.0, 4.0, 5.0, 6.0]),
        "feature bright_avg gets new data": lambda m: m.ds.data
        .__setitem__("bright_avg", [1.0, 2.0, 3.0, 4.0, float("inf"), 6.0]),
        "event 1 excluded manually": manual(1, False),
        "event 1 re-admitted manually": manual(1, True),
        "event 4 excluded manually": manual(4, False),
        "limit events 2": setk("limit events", 2),
        "limit events 1": setk("limit events", 1),
        "limit events 0": setk("limit events", 0),
        "reset": lambda m: m.reset(),
    }


def _histories(tier):
    base = [
        ["deform in [0.2, 0.6]", "deform in [0.05, 0.9]"],
        ["deform in [0.2, 0.6]", "deform range removed"],
        ["deform in [0.2, 0.6]", "deform in [0.4, 0.4]",
         "deform in [0.3, 0.5]"],
        ["deform in [0.6, 0.2]"],
        ["deform in [0.2, 0.6]", "deform max -> 0.9", "deform min -> 0.05",
         "deform max -> 0.4", "deform min -> 0.4"],
        ["remove invalid events on",
         "dataset gains feature bright_avg (with nan)",
         "feature bright_avg gets new data"],
        ["bright_avg in [1, 2] (feature not in the dataset)",
         "dataset gains feature bright_avg (with nan)"],
        ["deform in [0.05, 0.9]", "limit events 2", "deform in [0.2, 0.6]",
         "deform in [0.05, 0.9]", "limit events 1", "limit events 2"],
        ["limit events 2", "event 1 excluded manually",
         "event 1 re-admitted manually"],
        ["limit events 1", "deform in [0.2, 0.6]", "deform in [0.4, 0.8]",
         "limit events 2", "deform in [0.2, 0.6]"],
        ["limit events 1", "deform in [0.2, 0.6]", "deform range removed",
         "time in [4, 5]", "time range removed", "area_um in [15, 45]"],
        ["deform in [0.3, 0.3 + 1e-9]"],
        ["deform in [0.2, 0.6]", "area_um in [15, 45]",
         "area_um range removed", "deform in [0.05, 0.9]"],
        ["time in [2, 5]", "deform in [0.2, 0.6]", "time in [2, 5]"],
        ["bright_avg in [1, 2] (feature not in the dataset)",
         "deform in [0.2, 0.6]"],
        ["remove invalid events on", "deform in [0.05, 0.9]",
         "remove invalid events off"],
        ["deform in [0.05, 0.9]", "remove invalid events on",
         "remove invalid events off", "deform in [0.2, 0.6]"],
        ["filters disabled", "deform in [0.2, 0.6]", "filters enabled"],
        ["deform in [0.2, 0.6]", "filters disabled", "limit events 1",
         "filters enabled", "limit events 0"],
        ["polygon 0 added", "polygon 0 moved", "polygon 0 inverted",
         "polygon 0 removed"],
        ["polygon 0 added", "polygon 0 on other axes"],
        ["polygon 0 added", "polygon 1 added", "polygon 0 removed",
         "polygon 1 removed"],
        ["polygon 0 added", "polygon 0 removed", "polygon 0 moved",
         "polygon 0 added"],
        ["polygon 0 inverted", "polygon 0 added"],
        ["event 1 excluded manually", "deform in [0.05, 0.9]",
         "event 1 re-admitted manually"],
        ["deform in [0.05, 0.9]", "limit events 2",
         "event 1 excluded manually", "limit events 1", "limit events 0"],
        ["limit events 2", "limit events 2", "deform in [0.2, 0.6]",
         "limit events 0"],
        ["limit events 1", "limit events 2"],
        ["polygon 0 added", "limit events 2", "event 4 excluded manually",
         "polygon 0 inverted"],
        ["deform in [0.2, 0.6]", "polygon 0 added",
         "event 1 excluded manually", "remove invalid events on", "reset",
         "deform in [0.05, 0.9]"],
        ["deform in [0.2, 0.6]", "reset"],
        # an application that is refused (one bound only), then repaired
        ["area_um min -> 15", "area_um max -> 45"],
        ["deform in [0.2, 0.6] (not applied yet)", "area_um min -> 15",
         "area_um max -> 45"],
        ["deform in [0.2, 0.6]", "deform in [0.05, 0.9] (not applied yet)"
         if False else "deform range removed", "area_um min -> 15",
         "deform in [0.2, 0.6] (not applied yet)", "area_um max -> 45"],
        ["polygon 0 added (not applied yet)",
         "event 1 excluded manually (not applied yet)", "area_um min -> 15",
         "area_um max -> 45"],
        ["limit events 2", "area_um min -> 15", "limit events 1",
         "area_um max -> 45"],
        ["bright_avg in [1, 2] (feature not in the dataset)",
         "dataset gains feature bright_avg (with nan) (not applied yet)",
         "area_um min -> 15", "area_um max -> 45"],
        ["remove invalid events on", "area_um in [20, 50]",
         "polygon 1 added", "limit events 2", "filters disabled",
         "filters enabled"],
    ]
    if tier == "thorough":
        names = [n for n in _ops() if n != "reset"
                 and not n.endswith("(not applied yet)")]
        core = ["deform in [0.2, 0.6]", "deform in [0.05, 0.9]",
                "deform in [0.4, 0.4]", "deform range removed",
                "area_um in [15, 45]", "remove invalid events on",
                "remove invalid events off", "filters disabled",
                "filters enabled", "polygon 0 added", "polygon 0 moved",
                "polygon 0 removed", "event 1 excluded manually",
                "limit events 2", "limit events 0"]
        base += [[a, b] for a in names for b in names if a != b]
        base += [[a, b, c] for a in core for b in core for c in core
                 if a != b and b != c]
    return base


def r3_eval(ctx, repo):
    """`Filter` (loaded from its syntax tree) driven through histories of
    settings changes on a model dataset; after every update the filter
    arrays are compared with the specification evaluated from scratch."""
    from ..lib_C03 import Model
    upd = repo.func(FILT, "Filter.update")
    ops = _ops()
    fails = {}

    def fail(key, msg):
        fails.setdefault(key, msg)
    n_upd = 0
    hists = _histories(ctx.tier)
    for h in hists:
        m = Model(repo)
        r = m.update()
        if r[0] != "ok":
            raise AnalysisError(f"Filter.update on the model dataset: {r!r}")
        done = []
        for name in h:
            ops[name](m)
            done.append(name)
            if name.endswith("(not applied yet)"):
                continue
            r = m.update()
            n_upd += 1
            where = "after [" + "; ".join(done) + "]"
            half = [ft for ft in ("deform", "area_um", "time", "bright_avg")
                    if (ft + " min" in m.cfg) != (ft + " max" in m.cfg)]
            if half:
                # a range with one bound only is refused; the history goes
                # on: the next application that succeeds must be right
                if not (r[0] == "raise" and r[1] == "ValueError"):
                    fail("half-open range refused", f"{where}: only one "
                         f"bound of {half[0]} is set, update() -> {r!r}, "
                         f"expected ValueError")
                    break
                done[-1] += " (refused)"
                continue
            if r[0] != "ok":
                fail("update evaluates", f"{where}: update() -> {r!r}")
                break
            want = m.spec()
            got = {k: m.arr(k) for k in ("all", "box", "invalid", "polygon")}
            # the same settings on a fresh filter
            f2 = Model(repo)
            f2.reg.by_id = m.reg.by_id
            f2.ds.config["filtering"] = dict(m.cfg)
            f2.manual()[:] = m.manual()
            r2 = f2.update()
            fresh = f2.arr("all") if r2[0] == "ok" else None

            def show(v):
                return "".join("1" if x else "0" for x in v)
            if got["box"] != want["box"]:
                fail("box filters", f"{where}: box filter {show(got['box'])}"
                     f", specification {show(want['box'])} (events "
                     f"deform=0.1,0.3,0.5,nan,0.7,inf; "
                     f"area_um=10,20,nan,40,50,60)")
            if got["invalid"] != want["invalid"]:
                fail("invalid filter", f"{where}: invalid-event filter "
                     f"{show(got['invalid'])}, specification "
                     f"{show(want['invalid'])}")
            if got["polygon"] != want["polygon"]:
                fail("polygon filters", f"{where}: polygon filter "
                     f"{show(got['polygon'])}, specification "
                     f"{show(want['polygon'])}")
            if got["all"] != want["all"]:
                subs_ok = all(got[k] == want[k]
                              for k in ("box", "invalid", "polygon"))
                lim = m.cfg["limit events"] > 0 and m.cfg["enable filters"]
                if subs_ok and lim:
                    fail("event limit", f"{where}: selection "
                         f"{show(got['all'])}, specification "
                         f"{show(want['all'])} (limit "
                         f"{m.cfg['limit events']}, deterministic model "
                         f"draw = the first n)")
                elif subs_ok:
                    fail("combination", f"{where}: combined filter "
                         f"{show(got['all'])}, specification "
                         f"{show(want['all'])} although box, invalid and "
                         f"polygon filters agree")
                if fresh is not None and fresh == want["all"]:
                    fail("history independent", f"{where}: the incremental "
                         f"filter gives {show(got['all'])}, a fresh filter "
                         f"on the same settings {show(fresh)}: state of an "
                         f"earlier update leaks into the result")
    # half-open range is refused
    m = Model(repo)
    m.update()
    m.cfg["deform min"] = 0.2
    r = m.update()
    if not (r[0] == "raise" and r[1] == "ValueError"):
        fail("half-open range refused", "only 'deform min' set: update() -> "
             f"{r!r}, expected ValueError")
    # a forced re-evaluation (apply_filter(force=[...])) of settings that
    # did not change gives the same selection: swap of a reversed range,
    # min == max, NaN handling are properties of every evaluation, not of
    # the application in which the keys changed
    for first in ("deform in [0.6, 0.2]", "deform in [0.2, 0.6]"):
        for force in (["deform"], ["deform", "area_um"], []):
            m = Model(repo)
            m.update()
            ops[first](m)
            r1 = m.update()
            r2 = m.update(force=list(force))
            n_upd += 2
            where = (f"after [{first}; applied; applied again with "
                     f"force={force}]")
            if r1[0] != "ok" or r2[0] != "ok":
                fail("update evaluates", f"{where}: update() -> {r1!r}, "
                     f"{r2!r}")
                continue
            want = m.spec()
            got = {k: m.arr(k) for k in ("all", "box")}

            def show(v):
                return "".join("1" if x else "0" for x in v)
            if got["box"] != want["box"] or got["all"] != want["all"]:
                fail("box filters", f"{where}: box filter "
                     f"{show(got['box'])}, selection {show(got['all'])}; "
                     f"specification {show(want['box'])} / "
                     f"{show(want['all'])}: a re-evaluation that was not "
                     "caused by a change of the range's own keys treats "
                     "the range differently")
    ctx.stat("R3 model histories", len(hists))
    ctx.stat("R3 model updates evaluated", n_upd)
    obs = [
        ("R3.1", "update evaluates", "every model update evaluates"),
        ("R3.1", "history independent", "after every history the "
         "incremental filter equals a fresh filter on the same settings"),
        ("R3.2", "box filters", "the box filter equals the inclusive-range "
         "specification after every history (swap, min == max, removed "
         "keys, NaN, absent feature)"),
        ("R3.2", "half-open range refused", "a range with only one bound "
         "raises"),
        ("R3.3", "invalid filter", "the invalid-event filter equals the "
         "specification after every history"),
        ("R3.3", "combination", "all = box & invalid & polygon & manual "
         "when enabled, all events otherwise"),
        ("R3.4", "polygon filters", "the polygon filter equals the "
         "specification after every history (added, moved, inverted, other "
         "axes, removed)"),
        ("R3.5", "event limit", "the event limit keeps the drawn events "
         "among the currently selected ones, on every update"),
    ]
    for rule, key, good in obs:
        ok = key not in fails
        ctx.ob(rule, ok, good + f" ({len(hists)} histories)" if ok
               else fails[key], node=upd, label="model: " + key)


def r39(ctx, repo):
    """Two datasets of one process must not share filter memo state (the
    list of features seen at the last update, the cached box / polygon
    arrays, the settings snapshot): what one dataset's update records there
    would decide what the other one's update skips."""
    from ..lib_common import shared_class_state
    cls = repo.cls(FILT, "Filter")
    found = shared_class_state(cls)
    seen = set()
    for attr, lvl, node in found:
        if attr in seen:
            continue
        seen.add(attr)
        ctx.ob("R3.9", False,
               f"`{attr}` is bound at class level to a mutable object and "
               f"changed in place through self (`{short(node, 50)}`), "
               "__init__ never gives the instance its own: every Filter of "
               "the process shares it – what one dataset's update records "
               "there decides what another dataset's update recomputes",
               node=node, key=f"{FILT}::Filter::per-instance {attr}")
    ctx.ob("R3.9", not found,
           "no class-level mutable object of Filter is mutated through an "
           "instance" if not found else
           f"{len(seen)} shared attribute(s): {sorted(seen)}",
           node=cls, label="filter state per instance")


def run(ctx):
    repo = ctx.repo
    ctx.rule("R3.1", "settings diff covers removed keys; snapshot is a copy "
             "taken last; min and max keys both trigger", minimum=2)
    ctx.rule("R3.2", "box predicate = inclusive range after swap, inactive "
             "iff min == max, NaN outside – over all order types",
             minimum=2)
    ctx.rule("R3.3", "all = box & invalid & polygon & manual when enabled, "
             "all-True otherwise; accumulators rebuilt from all-True",
             minimum=2)
    ctx.rule("R3.4", "polygon cache: key covers attributes read, compared "
             "by hash, dropped on removal, inversion", minimum=4)
    ctx.rule("R3.5", "event limit on the enabled branch over all[all] with "
             "write-back", minimum=1)
    ctx.rule("R3.6", "reset clears all memo state and restores neutral "
             "defaults, hierarchy parent kept", minimum=15)
    ctx.rule("R3.7", "filter universe = scalar features by the definitions' "
             "predicate (tabulated + pattern-defined)", minimum=2)
    upd = canon(repo, FILT, repo.func(FILT, "Filter.update"),
                keep=("_get_rw_array", "_init_rtdc_ds"))
    r3_eval(ctx, repo)
    r34(ctx, repo, upd)
    r36(ctx, repo)
    ctx.rule("R3.8", "the polygon filter registry is searched by identity "
             "or unique id, never by value equality", minimum=1)
    r38(ctx, repo)
    r37(ctx, repo)
    ctx.rule("R3.9", "the memo state of a Filter belongs to one instance: "
             "no class-level mutable object is mutated through self",
             minimum=1)
    r39(ctx, repo)


MUTANTS = [
    ("registry removal by value equality (F03d returns)", POLY,
     ("        PolygonFilter.instances[:] = [p for p in PolygonFilter.instances\n"
      "                                      if p.unique_id != unique_id]\n",
      "        for p in PolygonFilter.instances:\n"
      "            if p.unique_id == unique_id:\n"
      "                PolygonFilter.instances.remove(p)\n"), "R3.8"),
    ("features of a refused application count as known (F03c returns)", FILT,
     ('features_old = list(getattr(self, "_features_filtered", []))',
      'features_old = list(getattr(self, "features", []))'), "R3."),
    ("settings snapshot taken before the evaluation (round-5 seed)", FILT,
     [("        # Actual filtering is then done during plotting\n"
       "        self._old_config = rtdc_ds.config.copy()[\"filtering\"]\n",
       "        # Actual filtering is then done during plotting\n"),
      ("        # 1. Invalid filters\n",
       "        self._old_config = rtdc_ds.config.copy()[\"filtering\"]\n"
       "        # 1. Invalid filters\n")], "R3."),
    ("range inactive when the bounds are merely close (seeded C03_12)", FILT,
     ("                                and cfg_cur[fstart] != cfg_cur[fend])",
      "                                and not np.isclose(cfg_cur[fstart],\n"
      "                                                   cfg_cur[fend]))"),
     "R3."),
    ("bounding-box short-cut before the inversion (seeded C15_9)", POLY,
     ("        f = points_in_poly(points=points, verts=self.points)\n",
      "        if not len(self.points):\n"
      "            return np.zeros(datax.shape[0], dtype=bool)\n"
      "        f = points_in_poly(points=points, verts=self.points)\n"),
     "R3."),
    ("scalar features by table membership (seeded C03_7)", CORE,
     ("if dfn.scalar_feature_exists(ft)]", "if ft in dfn.scalar_feature_names]"),
     "R3.7"),
    ("filter universe is all features", FILT,
     ("self.features = rtdc_ds.features_scalar",
      "self.features = rtdc_ds.features"), "R3.7"),
    ("invalid filter cached on the setting (seeded C03_5)", FILT,
     ("        arr_invalid[:] = True\n"
      "        if cfg_cur[\"remove invalid events\"]:\n"
      "            for feat in self.features:\n"
      "                data = rtdc_ds[feat]\n"
      "                invalid = np.isinf(data) | np.isnan(data)\n"
      "                arr_invalid &= ~invalid\n",
      "        if \"remove invalid events\" in newkeys:\n"
      "            arr_invalid[:] = True\n"
      "            if cfg_cur[\"remove invalid events\"]:\n"
      "                for feat in self.features:\n"
      "                    data = rtdc_ds[feat]\n"
      "                    invalid = np.isinf(data) | np.isnan(data)\n"
      "                    arr_invalid &= ~invalid\n"), "R3."),
    ("short-cut snapshots without recomputing (seeded C03_6)", FILT,
     ("        # 1. Invalid filters\n",
      "        if not cfg_cur[\"enable filters\"] and not force:\n"
      "            # nothing to compute\n"
      "            self._get_rw_array(\"all\")[:] = True\n"
      "            self._old_config = rtdc_ds.config.copy()[\"filtering\"]\n"
      "            return\n\n        # 1. Invalid filters\n"), "R3."),
    ("diff over current keys only (F03 returns)", FILT,
     ("        for skey in list(cfg_cur.keys()) + removed:",
      "        for skey in list(cfg_cur.keys()):"), "R3."),
    ("snapshot aliases live config", FILT,
     ('self._old_config = rtdc_ds.config.copy()["filtering"]',
      'self._old_config = rtdc_ds.config["filtering"]'), "R3."),
    ("max keys ignored", FILT,
     ('and (k.endswith(" min") or k.endswith(" max"))',
      'and (k.endswith(" min"))'), "R3."),
    ("lower bound exclusive", FILT,
     ("feat_filt[idx] &= ivalstart <= data[idx]",
      "feat_filt[idx] &= ivalstart < data[idx]"), "R3."),
    ("upper bound exclusive", FILT,
     ("feat_filt[idx] &= data[idx] <= ivalend",
      "feat_filt[idx] &= data[idx] < ivalend"), "R3."),
    ("swap removed", FILT,
     ("                        ivalstart, ivalend = ivalend, ivalstart\n",
      ""), "R3."),
    ("upper comparison dropped", FILT,
     ("                    feat_filt[idx] &= data[idx] <= ivalend\n", ""),
     "R3."),
    ("bounds crossed", FILT,
     ("feat_filt[idx] &= ivalstart <= data[idx]",
      "feat_filt[idx] &= ivalend <= data[idx]"), "R3."),
    ("equal bounds active", FILT,
     ("and cfg_cur[fstart] != cfg_cur[fend])", "and True)"), "R3."),
    ("nan kept", FILT,
     ("                        feat_filt[disnan] = False\n",
      "                        feat_filt[disnan] = True\n"), "R3."),
    ("feature filter not reset", FILT,
     ("                feat_filt[:] = True\n", ""), "R3."),
    ("feature filter reset only for active ranges (seeded C03_1)", FILT,
     [("                feat_filt[:] = True\n", ""),
      ("                if must_be_filtered:\n",
       "                if must_be_filtered:\n"
       "                    feat_filt[:] = True\n")], "R3."),
    ("manual dropped from conjunction", FILT,
     ("arr_all[:] = arr_box & arr_invalid & arr_polygon & self.manual",
      "arr_all[:] = arr_box & arr_invalid & arr_polygon"), "R3."),
    ("polygon dropped from conjunction", FILT,
     ("arr_all[:] = arr_box & arr_invalid & arr_polygon & self.manual",
      "arr_all[:] = arr_box & arr_invalid & self.manual"), "R3."),
    ("box accumulator not reset", FILT,
     ("        arr_box[:] = True\n", ""), "R3."),
    ("polygon accumulator not reset", FILT,
     ("        arr_polygon[:] = True\n", ""), "R3."),
    ("invalid accumulator not reset", FILT,
     ("        arr_invalid[:] = True\n", ""), "R3."),
    ("disabled selects none", FILT,
     ("        else:\n            arr_all[:] = True",
      "        else:\n            arr_all[:] = False"), "R3."),
    ("inf not invalid", FILT,
     ("invalid = np.isinf(data) | np.isnan(data)",
      "invalid = np.isnan(data)"), "R3."),
    ("polygon hash loses inverted", POLY,
     ("return hashobj([self.axes, self.points, self.inverted])",
      "return hashobj([self.axes, self.points])"), "R3."),
    ("polygon hash loses points", POLY,
     ("return hashobj([self.axes, self.points, self.inverted])",
      "return hashobj([self.axes, self.inverted])"), "R3."),
    ("polygon hash not compared", FILT,
     ("            if (pf_id not in self._poly_filters\n"
      "                    or pf.hash != self._poly_filters[pf_id][0]):",
      "            if (pf_id not in self._poly_filters):"), "R3."),
    ("removed polygon kept", FILT,
     ("                self._poly_filters.pop(pf_id)\n",
      "                pass\n"), "R3."),
    ("inversion on the wrong branch", POLY,
     ("        if self.inverted:\n            np.invert(f, f)\n",
      "        if not self.inverted:\n            np.invert(f, f)\n"),
     "R3."),
    ("inversion dropped", POLY,
     ("        if self.inverted:\n            np.invert(f, f)\n", ""),
     "R3."),
    ("limit selection memoised (seeded C16_5)", FILT,
     ("                sub = arr_all[arr_all]\n"
      "                _, idx = downsampling.downsample_rand(sub,\n"
      "                                                      samples=limit,\n"
      "                                                      ret_idx=True)\n"
      "                sub[~idx] = False\n"
      "                arr_all[arr_all] = sub\n",
      "                lkey = (limit, int(np.sum(arr_all)))\n"
      "                if getattr(self, \"_limit_cache\", (None, None))[0] "
      "== lkey:\n"
      "                    arr_all &= self._limit_cache[1]\n"
      "                else:\n"
      "                    sub = arr_all[arr_all]\n"
      "                    _, idx = downsampling.downsample_rand(sub,\n"
      "                                                          samples=limit,"
      "\n                                                          "
      "ret_idx=True)\n"
      "                    sub[~idx] = False\n"
      "                    arr_all[arr_all] = sub\n"
      "                    self._limit_cache = (lkey, arr_all.copy())\n"),
     "R3."),
    ("limit applied when disabled", FILT,
     ("            if cfg_cur[\"limit events\"] > 0:\n"
      "                limit = cfg_cur[\"limit events\"]\n"
      "                sub = arr_all[arr_all]\n"
      "                _, idx = downsampling.downsample_rand(sub,\n"
      "                                                      samples=limit,\n"
      "                                                      ret_idx=True)\n"
      "                sub[~idx] = False\n"
      "                arr_all[arr_all] = sub\n"
      "        else:\n            arr_all[:] = True\n",
      "        else:\n            arr_all[:] = True\n"
      "        if cfg_cur[\"limit events\"] > 0:\n"
      "            limit = cfg_cur[\"limit events\"]\n"
      "            sub = arr_all[arr_all]\n"
      "            _, idx = downsampling.downsample_rand(sub,\n"
      "                                                  samples=limit,\n"
      "                                                  ret_idx=True)\n"
      "            sub[~idx] = False\n"
      "            arr_all[arr_all] = sub\n"), "R3."),
    ("limit not written back", FILT,
     ("                arr_all[arr_all] = sub\n", ""), "R3."),
    ("reset keeps box filters", FILT,
     ("        self._box_filters.clear()\n", ""), "R3.6"),
    ("reset keeps old config", FILT,
     ("        # old filter configuration of `rtdc_ds`\n"
      "        self._old_config = {}\n", ""), "R3.6"),
    ("reset_filter drops hierarchy parent", CORE,
     ('        self.config["filtering"]["hierarchy parent"] = hp\n', ""),
     "R3.6"),
    ("default limit non-neutral", CONF,
     ('self["filtering"]["limit events"] = 0',
      'self["filtering"]["limit events"] = 1000'), "R3.6"),
    ("default enable off", CONF,
     ('self["filtering"]["enable filters"] = True',
      'self["filtering"]["enable filters"] = False'), "R3.6"),
]

TWINS = [
    ("conjunction built in steps", FILT,
     ("            arr_all[:] = arr_box & arr_invalid & arr_polygon & self.manual\n",
      "            np.logical_and(arr_box, arr_invalid, out=arr_all)\n"
      "            arr_all &= arr_polygon\n"
      "            arr_all &= self.manual\n")),
    ("accumulator reset with fill()", FILT,
     ("        arr_box[:] = True\n", "        arr_box.fill(True)\n")),
    ("invalid events via isfinite", FILT,
     ("                invalid = np.isinf(data) | np.isnan(data)\n"
      "                arr_invalid &= ~invalid\n",
      "                arr_invalid &= np.isfinite(data)\n")),
    ("reset re-binds the memo containers", FILT,
     ("        self._box_filters.clear()\n", "        self._box_filters = {}\n")),
    ("empty input returned early", POLY,
     ("        f = points_in_poly(points=points, verts=self.points)\n",
      "        if datax.shape[0] == 0:\n"
      "            return np.zeros(0, dtype=bool)\n"
      "        f = points_in_poly(points=points, verts=self.points)\n")),
    ("inversion as early return (refactor C15/1)", POLY,
     ("        if self.inverted:\n            np.invert(f, f)\n\n"
      "        return f\n",
      "        if not self.inverted:\n            return f\n\n"
      "        np.invert(f, f)\n        return f\n")),
    ("limit hoisted into a local (refactor C16/3)", FILT,
     ("            if cfg_cur[\"limit events\"] > 0:\n"
      "                limit = cfg_cur[\"limit events\"]\n",
      "            limit = cfg_cur[\"limit events\"]\n"
      "            if limit > 0:\n")),
    ("enable test inverted (refactor C16/5)", FILT,
     [("        if cfg_cur[\"enable filters\"]:\n",
       "        if not cfg_cur[\"enable filters\"]:\n"
       "            arr_all[:] = True\n        else:\n"),
      ("        else:\n            arr_all[:] = True\n\n"
       "        # Actual filtering", "\n        # Actual filtering")]),
    ("diff loop with intermediate variables (refactor C03/2)", FILT,
     ("            if cfg_cur.get(skey, None) != cfg_old.get(skey, None):\n",
      "            val_cur = cfg_cur.get(skey, None)\n"
      "            val_old = cfg_old.get(skey, None)\n"
      "            if val_cur != val_old:\n")),
    ("event limit extracted into a helper (refactor C03/3)", FILT,
     [("                sub = arr_all[arr_all]\n"
       "                _, idx = downsampling.downsample_rand(sub,\n"
       "                                                      samples=limit,\n"
       "                                                      ret_idx=True)\n"
       "                sub[~idx] = False\n"
       "                arr_all[arr_all] = sub\n",
       "                self._limit_events(arr_all, limit)\n"),
      ("    def reset(self):\n",
       "    @staticmethod\n"
       "    def _limit_events(arr_all, limit):\n"
       "        sub = arr_all[arr_all]\n"
       "        _, idx = downsampling.downsample_rand(sub,\n"
       "                                              samples=limit,\n"
       "                                              ret_idx=True)\n"
       "        sub[~idx] = False\n"
       "        arr_all[arr_all] = sub\n\n"
       "    def reset(self):\n")]),
    ("defaults through a local alias of the section (refactor C03/4)", CONF,
     lambda src: src.replace(
         "        # Do not filter out invalid event values\n",
         "        filt = self[\"filtering\"]\n"
         "        # Do not filter out invalid event values\n", 1).replace(
         'self["filtering"]["remove invalid events"] = False',
         'filt["remove invalid events"] = False').replace(
         'self["filtering"]["enable filters"] = True',
         'filt["enable filters"] = True')),
    ("bounds written the other way round", FILT,
     [("feat_filt[idx] &= ivalstart <= data[idx]",
       "feat_filt[idx] &= data[idx] >= ivalstart"),
      ("feat_filt[idx] &= data[idx] <= ivalend",
       "feat_filt[idx] &= ivalend >= data[idx]")]),
    ("swap test mirrored", FILT,
     ("if ivalstart > ivalend:", "if ivalend < ivalstart:")),
    ("conjunction reordered", FILT,
     ("arr_all[:] = arr_box & arr_invalid & arr_polygon & self.manual",
      "arr_all[:] = self.manual & arr_polygon & arr_box & arr_invalid")),
    ("snapshot via dict()", FILT,
     ('self._old_config = rtdc_ds.config.copy()["filtering"]',
      'self._old_config = dict(rtdc_ds.config["filtering"])')),
    ("diff over union of keys", FILT,
     ("        for skey in list(cfg_cur.keys()) + removed:",
      "        for skey in sorted(set(cfg_cur.keys()) | set(removed)):")),
]
