"""C03 – the combined event filter equals the specification of the current
settings.

R3.1 diff completeness + snapshot: the set of min/max keys whose box filter
     is recomputed covers keys present in the previous settings and absent
     now (or stale entries are purged); the remembered settings are a copy.
R3.2 box predicate decided over all order types of (min, max, value) + NaN.
R3.3 conjunction: all = box & invalid & polygon & manual when enabled,
     all-True otherwise; every accumulator is reset before it is AND-ed.
R3.4 polygon cache key ⊇ attributes the polygon evaluation reads; cache
     entries are compared by hash, dropped when the filter leaves the
     settings.
R3.5 event limit: applied inside the enabled branch on the selected events
     with the index mask written back.
R3.7 universe: Filter.features = dataset.features_scalar, selected by the
     definitions' scalar-feature predicate (tabulated + ml_score_???).
R3.6 reset: Filter.reset clears all memo state; reset_filter restores every
     default of the filtering section and keeps the hierarchy parent.
"""
from __future__ import annotations

import ast
import math

from ..absval import eval_pred, orderings
from ..normalize import canon, expand_bool_locals
from ..core import (AnalysisError, call_name, const_str, dotted, find_calls,
                    is_self_attr, kwarg, last_attr, names_in, short, txt,
                    walk, subscript_key)

ASSUMPTIONS = [
    "NOT decided: equality of the selection with a from-scratch evaluation "
    "for arbitrary data and histories; numpy broadcasting semantics.",
    "R3.2 evaluates the parsed comparison predicate on one representative "
    "per weak ordering of (min, max, value) – exhaustive for predicates that "
    "touch values only through comparisons.",
]

FILT = "dclab/rtdc_dataset/filter.py"
POLY = "dclab/polygon_filter.py"
CORE = "dclab/rtdc_dataset/core.py"
CONF = "dclab/rtdc_dataset/config.py"


def _expand(func, expr, depth=2):
    """normalised text of `expr` with single-assignment locals of `func`
    replaced by their value (a few levels)"""
    class Sub(ast.NodeTransformer):
        def __init__(self, defs):
            self.defs = defs

        def visit_Name(self, node):
            if isinstance(node.ctx, ast.Load) and node.id in self.defs:
                return ast.parse(txt(self.defs[node.id]),
                                 mode="eval").body
            return node
    counts = {}
    for n in walk(func):
        if isinstance(n, ast.Assign) and len(n.targets) == 1 and isinstance(
                n.targets[0], ast.Name):
            counts.setdefault(n.targets[0].id, []).append(n.value)
        elif isinstance(n, (ast.AugAssign, ast.For)):
            t = n.target
            for nm in names_in(t):
                counts.setdefault(nm, []).extend([None, None])
    defs = {k: v[0] for k, v in counts.items() if len(v) == 1
            and v[0] is not None}
    cur = ast.parse(txt(expr), mode="eval").body
    for _ in range(depth):
        cur = ast.fix_missing_locations(Sub(defs).visit(cur))
        cur = ast.parse(txt(cur), mode="eval").body
    return txt(cur)


def _enabled_branches(upd):
    """(if-node, enabled body, disabled body) of the 'enable filters' test,
    whatever its polarity"""
    cands = [n for n in walk(upd) if isinstance(n, ast.If)
             and "enable filters" in _expand(upd, n.test)]
    en = None
    for n in cands:
        t = n.test
        neg = isinstance(t, ast.UnaryOp) and isinstance(t.op, ast.Not)
        core = t.operand if neg else t
        # the branch that combines the filters tests the switch alone; other
        # statements mentioning the switch (short-cuts, …) are judged by the
        # path rules
        if isinstance(core, (ast.Subscript, ast.Name)) and any(
                isinstance(x, ast.BinOp) and isinstance(x.op, ast.BitAnd)
                or isinstance(x, ast.AugAssign) and isinstance(
                    x.op, ast.BitAnd)
                or isinstance(x, ast.Call) and (call_name(x) or "").endswith(
                    "logical_and")
                for x in ast.walk(n)):
            en = (n, neg)
            break
    if en is None:
        raise AnalysisError("Filter.update: 'enable filters' branch lost")
    n, neg = en
    return (n, n.orelse, n.body) if neg else (n, n.body, n.orelse)


def _assigned_from(func, pred):
    """names assigned (single target) from a value satisfying pred"""
    out = {}
    for n in walk(func):
        if isinstance(n, ast.Assign) and len(n.targets) == 1 and isinstance(
                n.targets[0], ast.Name) and pred(n.value):
            out[n.targets[0].id] = n
    return out


def r31(ctx, repo, upd):
    old = _assigned_from(upd, lambda v: is_self_attr(v, "_old_config"))
    cur = _assigned_from(upd, lambda v: isinstance(v, ast.Subscript)
                         and const_str(v.slice) == "filtering")
    if not old or not cur:
        raise AnalysisError("Filter.update: cfg_old / cfg_cur bindings lost")
    old_names, cur_names = set(old), set(cur)
    # lists that feed the recomputation set
    loops = [n for n in walk(upd) if isinstance(n, ast.For)]
    # names derived from the old settings (one level)
    derived_old = set(old_names)
    for n in walk(upd):
        if isinstance(n, ast.Assign) and len(n.targets) == 1 and isinstance(
                n.targets[0], ast.Name) and names_in(n.value) & old_names:
            # e.g. removed = [k for k in cfg_old if k not in cfg_cur]
            if isinstance(n.value, (ast.ListComp, ast.BinOp, ast.Call,
                                    ast.SetComp, ast.GeneratorExp)):
                derived_old.add(n.targets[0].id)
    appenders = []
    for lp in loops:
        apps = [c for c in find_calls(lp, attr="append")
                if isinstance(c.func.value, ast.Name)]
        if not apps:
            continue
        # does the loop compare current and previous values?  (locals bound
        # inside the loop from the old / current settings count as such)
        l_old, l_cur = set(old_names), set(cur_names)
        for n in walk(lp):
            if isinstance(n, ast.Assign) and len(n.targets) == 1 \
                    and isinstance(n.targets[0], ast.Name):
                if names_in(n.value) & old_names:
                    l_old.add(n.targets[0].id)
                if names_in(n.value) & cur_names:
                    l_cur.add(n.targets[0].id)
        cmp_both = any(isinstance(c, ast.Compare)
                       and names_in(c) & l_old and names_in(c) & l_cur
                       for c in walk(lp))
        if cmp_both:
            appenders.append(lp)
    if not appenders:
        raise AnalysisError("Filter.update: settings-diff loop not found")
    covers_removed = any(names_in(lp.iter) & derived_old for lp in appenders)
    # purge idiom
    purge = False
    for lp in loops:
        if "_box_filters" in txt(lp.iter) and (
                find_calls(lp, attr="pop") or any(
                    isinstance(x, ast.Delete) for x in walk(lp))):
            purge = True
    ok = covers_removed or purge
    ctx.ob("R3.1", ok,
           "the settings diff also visits keys that were removed since the "
           "last update" if ok else
           "the settings diff iterates the current keys only: a min/max pair "
           "that was removed keeps its stale box filter in the conjunction",
           node=appenders[0], label="diff covers removed keys")
    # subscripting cfg_cur with a possibly removed key must use .get
    if covers_removed:
        lp = [x for x in appenders if names_in(x.iter) & derived_old][0]
        var = lp.target.id if isinstance(lp.target, ast.Name) else None
        bad = [s for s in walk(lp) if isinstance(s, ast.Subscript)
               and isinstance(s.value, ast.Name) and s.value.id in cur_names
               and isinstance(s.slice, ast.Name) and s.slice.id == var]
        ctx.ob("R3.1", not bad,
               "removed keys are looked up with .get() in the current "
               "settings" if not bad else
               f"`{short(bad[0], 30)}` raises KeyError for a removed key",
               node=bad[0] if bad else lp, label="diff lookup tolerant")
    # snapshot is a copy, taken as the last step
    snaps = [n for n in walk(upd) if isinstance(n, ast.Assign)
             and any(is_self_attr(t, "_old_config") for t in n.targets)]
    if not snaps:
        raise AnalysisError("Filter.update: snapshot of settings lost")
    for s in snaps:
        v = s.value
        copied = any(isinstance(c, ast.Call) and (
            last_attr(c) in ("copy", "deepcopy") or call_name(c) == "dict")
            for c in ast.walk(v))
        ctx.ob("R3.1", copied,
               "the remembered settings are a copy of the current ones"
               if copied else
               "the remembered settings alias the live configuration: later "
               "edits are invisible to the diff",
               node=s, label="snapshot is a copy")
        last = upd.body[-1] is s
        ctx.ob("R3.1", last, "the snapshot is taken as the last step"
               if last else "the snapshot is not the last statement of "
               "update()", node=s, label="snapshot last", nontrivial=False)
    # the settings may only be remembered on a path that recomputed the box
    # filters from the diff (a short-cut that snapshots without recomputing
    # makes the changes made meanwhile invisible for ever)
    from ..cfg import CFG
    ucfg = CFG(upd)
    box_loops = [n for n in walk(upd) if isinstance(n, ast.For)
                 and "feat2filter" in txt(n.iter)]
    if not box_loops:
        raise AnalysisError("Filter.update: box recomputation loop lost")
    heads = set()
    for bl in box_loops:
        heads |= set(ucfg.ids_of(bl))
    for sn in snaps:
        for nid in ucfg.ids_of(sn):
            ok = ucfg.always_before(nid, lambda n_: n_.id in heads)
            ctx.ob("R3.1", ok,
                   "the settings are remembered only after the box filters "
                   "were recomputed from the diff" if ok else
                   "a path remembers the settings without recomputing the "
                   "box filters: edits applied on that path are never seen "
                   "by a later diff", node=sn,
                   label="snapshot after recomputation")
    # feat2filter derives from newkeys with the min/max suffix rule
    suffix = []
    got = set()
    for n in walk(upd):
        if isinstance(n, ast.Call) and last_attr(n) == "endswith" and n.args:
            a0 = n.args[0]
            vals = [const_str(a0)] if const_str(a0) else (
                [const_str(x) for x in a0.elts]
                if isinstance(a0, (ast.Tuple, ast.List)) else [])
            hit = {v for v in vals if v in (" min", " max")}
            if hit:
                suffix.append(n)
                got |= hit
    ctx.ob("R3.1", got == {" min", " max"},
           "both ' min' and ' max' keys trigger a recomputation"
           if got == {" min", " max"} else
           f"only {sorted(got)} keys trigger a recomputation",
           node=suffix[0] if suffix else upd, label="min and max suffixes")


def r32(ctx, repo, upd):
    # locate bound variables
    def is_cfg_sub(v, var):
        return isinstance(v, ast.Subscript) and isinstance(
            v.slice, ast.Name) and v.slice.id == var
    start = _assigned_from(upd, lambda v: isinstance(v, ast.BinOp)
                           and const_str(v.right) == " min")
    end = _assigned_from(upd, lambda v: isinstance(v, ast.BinOp)
                         and const_str(v.right) == " max")
    if len(start) != 1 or len(end) != 1:
        raise AnalysisError("Filter.update: min/max key variables lost")
    fstart, fend = list(start)[0], list(end)[0]
    lo = _assigned_from(upd, lambda v: is_cfg_sub(v, fstart))
    hi = _assigned_from(upd, lambda v: is_cfg_sub(v, fend))
    if len(lo) != 1 or len(hi) != 1:
        raise AnalysisError("Filter.update: bound variables lost")
    lo_n, hi_n = list(lo)[0], list(hi)[0]
    # activity predicate
    def is_activity(v):
        v = expand_bool_locals(upd, v)
        return isinstance(v, ast.BoolOp) and any(
            isinstance(c, ast.Subscript) and is_cfg_sub(c, fstart)
            and isinstance(c.ctx, ast.Load) for c in ast.walk(v))
    mbf = _assigned_from(upd, is_activity)
    if len(mbf) != 1:
        raise AnalysisError("Filter.update: activity predicate lost")
    mname, mnode = list(mbf.items())[0]
    mvalue = expand_bool_locals(upd, mnode.value)

    # tolerance comparisons (np.isclose & co.) are not equality: model them
    # as "equal or CLOSE" with CLOSE an unknown the evaluation ranges over
    class _Tol(ast.NodeTransformer):
        hit = False

        def visit_Call(self, node):
            self.generic_visit(node)
            nm = (call_name(node) or "").split(".")[-1]
            if nm in ("isclose", "allclose") and len(node.args) >= 2:
                _Tol.hit = True
                return ast.BoolOp(op=ast.Or(), values=[
                    ast.Compare(left=node.args[0], ops=[ast.Eq()],
                                comparators=[node.args[1]]),
                    ast.Name(id="CLOSE", ctx=ast.Load())])
            return node
    _Tol.hit = False
    mvalue = ast.fix_missing_locations(_Tol().visit(mvalue))
    tolerant = _Tol.hit

    def res_active(node):
        if isinstance(node, ast.Subscript) and is_cfg_sub(node, fstart):
            return "lo"
        if isinstance(node, ast.Subscript) and is_cfg_sub(node, fend):
            return "hi"
        if isinstance(node, ast.Compare) and isinstance(
                node.ops[0], ast.In):
            return "present"
        return None
    bad = []
    for env in orderings(["lo", "hi"]):
        for close in ((False, True) if tolerant else (False,)):
            e = dict(env)
            e["present"] = True
            e["CLOSE"] = close
            got = bool(eval_pred(mvalue, e, res_active))
            want = env["lo"] != env["hi"]
            if got != want:
                bad.append((dict(env, close_but_distinct=close), got))
    e = {"lo": 0.0, "hi": 1.0, "present": False, "CLOSE": False}
    if eval_pred(mvalue, e, res_active):
        bad.append(("missing key", True))
    ctx.ob("R3.2", not bad,
           "a range is active exactly when both bounds are set and differ "
           "(3 orderings + absent)" if not bad else
           f"activity predicate wrong for {bad[0]}", node=mnode,
           label="range active iff min != max")
    # the guarded block
    mtxt = txt(mvalue)

    def tests_activity(t):
        return isinstance(t, ast.Name) and t.id == mname or txt(
            expand_bool_locals(upd, t)) == mtxt
    guard = [n for n in walk(upd) if isinstance(n, ast.If)
             and tests_activity(n.test)
             and any(isinstance(x, ast.AugAssign) for x in walk(n))]
    if not guard:
        raise AnalysisError("Filter.update: guarded box block lost")
    blk = guard[0]
    # swap
    swap = None
    for n in walk(blk):
        if isinstance(n, ast.If) and isinstance(n.test, ast.Compare) \
                and names_in(n.test) == {lo_n, hi_n}:
            for s in n.body:
                if isinstance(s, ast.Assign) and isinstance(
                        s.targets[0], ast.Tuple) and isinstance(
                        s.value, ast.Tuple):
                    t = [txt(x) for x in s.targets[0].elts]
                    v = [txt(x) for x in s.value.elts]
                    if t == [lo_n, hi_n] and v == [hi_n, lo_n] or \
                            t == [hi_n, lo_n] and v == [lo_n, hi_n]:
                        swap = n
    # comparisons with data
    data_names = set(_assigned_from(
        blk, lambda v: isinstance(v, ast.Subscript) and txt(v.value) in (
            "rtdc_ds",)))
    if not data_names:
        raise AnalysisError("Filter.update: data binding lost")
    comps = []
    for n in walk(blk):
        if isinstance(n, ast.AugAssign) and isinstance(n.op, ast.BitAnd):
            for c in ast.walk(n.value):
                if isinstance(c, ast.Compare) and names_in(c) & data_names:
                    comps.append(c)
        elif isinstance(n, ast.Assign) and any(
                isinstance(c, ast.Compare) and names_in(c) & data_names
                and names_in(c) & {lo_n, hi_n} for c in ast.walk(n.value)):
            for c in ast.walk(n.value):
                if isinstance(c, ast.Compare) and names_in(c) & data_names:
                    comps.append(c)
    if not comps:
        raise AnalysisError("Filter.update: no comparison with the data")

    def res(node):
        if isinstance(node, ast.Name) and node.id == lo_n:
            return "lo"
        if isinstance(node, ast.Name) and node.id == hi_n:
            return "hi"
        if isinstance(node, ast.Subscript) and isinstance(
                node.value, ast.Name) and node.value.id in data_names:
            return "v"
        if isinstance(node, ast.Name) and node.id in data_names:
            return "v"
        return None
    # NaN handling: a statement sets the filter False where isnan(data)
    nanmask = _assigned_from(blk, lambda v: isinstance(v, ast.Call)
                             and call_name(v) in ("np.isnan", "numpy.isnan")
                             and names_in(v) & data_names)
    nan_false = False
    for n in walk(blk):
        if isinstance(n, ast.Assign) and isinstance(
                n.targets[0], ast.Subscript) and isinstance(
                n.value, ast.Constant) and n.value.value is False \
                and names_in(n.targets[0].slice) & set(nanmask):
            nan_false = True
    # are the comparisons restricted to the non-NaN positions?
    restricted = False
    idx_names = set(_assigned_from(
        blk, lambda v: isinstance(v, ast.UnaryOp) and isinstance(
            v.op, ast.Invert) and names_in(v) & set(nanmask)))
    for n in walk(blk):
        if isinstance(n, ast.AugAssign) and isinstance(
                n.target, ast.Subscript) and names_in(
                n.target.slice) & idx_names:
            restricted = True
    bad = []
    n_eval = 0
    for env in orderings(["lo", "hi", "v"], with_nan=("v",)):
        e = dict(env)
        if swap is not None:
            if eval_pred(swap.test, {lo_n: e["lo"], hi_n: e["hi"]}):
                e["lo"], e["hi"] = e["hi"], e["lo"]
        if env["lo"] == env["hi"]:
            continue    # inactive range (decided above)
        if math.isnan(e["v"]):
            got = False if nan_false else (
                True if restricted else all(
                    eval_pred(c, e, res) for c in comps))
            want = False
        else:
            got = all(eval_pred(c, e, res) for c in comps)
            want = min(env["lo"], env["hi"]) <= env["v"] <= max(
                env["lo"], env["hi"])
        n_eval += 1
        if bool(got) != want:
            bad.append((env, bool(got), want))
    ctx.stat("R3.2 order types evaluated", n_eval)
    ctx.ob("R3.2", not bad,
           f"box predicate equals 'lo <= v <= hi after swap; NaN never "
           f"inside' on all {n_eval} order types" if not bad else
           f"box predicate differs from the inclusive-range specification "
           f"for ordering {bad[0][0]}: code says "
           f"{'inside' if bad[0][1] else 'outside'}, specification "
           f"{'inside' if bad[0][2] else 'outside'} "
           f"({len(bad)} of {n_eval} order types)",
           node=comps[0], label="box predicate over order types")
    # the feature filter is reset before it is AND-ed
    resets = [n for n in walk(upd) if isinstance(n, ast.Assign)
              and isinstance(n.targets[0], ast.Subscript)
              and isinstance(n.value, ast.Constant) and n.value.value is True
              and txt(n.targets[0].value) == "feat_filt"]
    ctx.ob("R3.2", bool(resets),
           "the per-feature filter is reset to all-True before the range is "
           "applied" if resets else
           "the per-feature filter is not reset: a widened range cannot "
           "re-admit events", node=resets[0] if resets else blk,
           label="feature filter reset")
    # ... and unconditionally: also when the range became inactive or was
    # removed (the reset must not sit under the activity test)
    if resets:
        under = None
        n = resets[0].parent
        while n is not None and not isinstance(n, ast.FunctionDef):
            if isinstance(n, ast.If) and (
                    mname in names_in(n.test) or mtxt in txt(
                        expand_bool_locals(upd, n.test))):
                under = n
            n = getattr(n, "parent", None)
        ctx.ob("R3.2", under is None,
               "the reset also runs when the range is inactive or removed"
               if under is None else
               "the reset only runs for an active range: a range that is "
               "deactivated (min == max) or removed keeps its old selection",
               node=resets[0], label="feature filter reset unconditional")


def r33(ctx, repo, upd):
    arrs = {}
    for n in walk(upd):
        if isinstance(n, ast.Assign) and isinstance(n.value, ast.Call) \
                and last_attr(n.value) == "_get_rw_array" and n.value.args:
            arrs[n.targets[0].id] = const_str(n.value.args[0])
    inv = {v: k for k, v in arrs.items()}
    for need in ("all", "box", "invalid", "polygon"):
        if need not in inv:
            raise AnalysisError(f"Filter.update: array '{need}' lost")
    # enabled branch (either polarity of the test)
    en, en_body, dis_body = _enabled_branches(upd)

    def all_assign(body):
        for s in body:
            if isinstance(s, ast.Assign) and isinstance(
                    s.targets[0], ast.Subscript) and txt(
                    s.targets[0].value) == inv["all"]:
                return s
        return None
    ops = set()

    def collect(e):
        if isinstance(e, ast.BinOp) and isinstance(e.op, ast.BitAnd):
            collect(e.left)
            collect(e.right)
        elif isinstance(e, ast.Call) and (call_name(e) or "").endswith(
                "logical_and") and len(e.args) == 2:
            collect(e.args[0])
            collect(e.args[1])
        else:
            ops.add(arrs.get(txt(e), txt(e)))
    a = all_assign(en_body)
    all_name = inv["all"]
    # the conjunction may be built in steps: all[:] = a & b ; all &= c ; or
    # np.logical_and(a, b, out=all)
    for s_ in en_body:
        if isinstance(s_, ast.Expr) and isinstance(s_.value, ast.Call) and (
                call_name(s_.value) or "").endswith("logical_and"):
            out_ = kwarg(s_.value, "out", 2)
            if out_ is not None and txt(out_) == all_name:
                if a is None:
                    a = s_
                collect(ast.Call(func=s_.value.func,
                                 args=s_.value.args[:2], keywords=[]))
        elif isinstance(s_, ast.AugAssign) and isinstance(
                s_.op, ast.BitAnd) and txt(s_.target) in (
                all_name, all_name + "[:]"):
            collect(s_.value)
    if a is None:
        raise AnalysisError("Filter.update: assignment of `all` lost")
    if isinstance(a, ast.Assign):
        collect(a.value)
    want = {"box", "invalid", "polygon", "self.manual"}
    ctx.ob("R3.3", ops == want,
           "all = box & invalid & polygon & manual" if ops == want else
           f"conjunction operands are {sorted(ops)}, expected {sorted(want)}",
           node=a, label="conjunction operands")
    b = all_assign(dis_body)
    ok = b is not None and isinstance(b.value, ast.Constant) \
        and b.value.value is True
    ctx.ob("R3.3", ok, "with filters disabled every event is selected"
           if ok else "disabled branch does not select every event",
           node=b or en, label="disabled selects all")
    ctx.ob("R3.3", a is not None, "the conjunction is on the enabled branch",
           node=en, label="enabled polarity", nontrivial=False)
    # accumulators reset before and-ing
    for kind in ("box", "invalid", "polygon"):
        name = inv[kind]
        reset = None
        acc = []
        for n in walk(upd):
            if isinstance(n, ast.Assign) and isinstance(
                    n.targets[0], ast.Subscript) and txt(
                    n.targets[0].value) == name and isinstance(
                    n.value, ast.Constant) and n.value.value is True:
                reset = n
            if isinstance(n, ast.AugAssign) and isinstance(
                    n.op, ast.BitAnd) and txt(n.target) == name:
                acc.append(n)
        ok = reset is not None and acc and all(
            reset.lineno < x.lineno for x in acc)
        ctx.ob("R3.3", bool(ok),
               f"`{kind}` is rebuilt from all-True on every update" if ok
               else f"`{kind}` is not reset before it is AND-ed "
               f"(can only shrink over time)",
               node=reset or (acc[0] if acc else upd),
               label=f"accumulator reset {kind}")
    # ... on *every* path of update(): a reset that only runs when some
    # setting changed turns the accumulator into a cache with an incomplete
    # key (new features, new data are never scanned)
    from ..cfg import CFG
    ucfg = CFG(upd)
    for kind in ("box", "invalid", "polygon"):
        name = inv[kind]
        rs = [n for n in walk(upd) if isinstance(n, ast.Assign) and isinstance(
            n.targets[0], ast.Subscript) and txt(
            n.targets[0].value) == name and isinstance(
            n.value, ast.Constant) and n.value.value is True]
        if not rs:
            continue
        ids = set()
        for r_ in rs:
            ids |= set(ucfg.ids_of(r_))
        ok = ucfg.must_pass(lambda n_: n_.id in ids,
                            avoid_edge=lambda s_, l_, d_: l_ == "x")
        ctx.ob("R3.3", ok,
               f"`{kind}` is rebuilt on every normal path through update()"
               if ok else
               f"`{kind}` is only rebuilt under a condition (e.g. when a "
               f"setting changed): data or features that appear later are "
               f"never evaluated", node=rs[0],
               label=f"accumulator reset unconditional {kind}")
    # box accumulates every per-feature filter; polygon every cached polygon
    for kind, store in (("box", "_box_filters"), ("polygon", "_poly_filters")):
        name = inv[kind]
        ok = False
        for lp in walk(upd):
            if isinstance(lp, ast.For) and is_self_attr(lp.iter, store):
                for n in walk(lp):
                    if isinstance(n, ast.AugAssign) and txt(
                            n.target) == name and store in txt(n.value):
                        ok = True
        ctx.ob("R3.3", ok,
               f"`{kind}` AND-s every entry of {store}" if ok else
               f"`{kind}` does not combine all entries of {store}",
               node=upd, label=f"accumulator complete {kind}")
    # invalid: isinf | isnan over all features under the switch
    inv_if = [n for n in walk(upd) if isinstance(n, ast.If)
              and "remove invalid events" in txt(n.test)
              and any(isinstance(x, ast.AugAssign) for x in walk(n))]
    ok = False
    if inv_if:
        # what is AND-ed into the accumulator, evaluated on the four value
        # classes of a float: kept for finite values, dropped for nan/±inf
        aug = [x for x in walk(inv_if[0]) if isinstance(x, ast.AugAssign)
               and isinstance(x.op, ast.BitAnd)]
        loops = [lp for lp in walk(inv_if[0]) if isinstance(lp, ast.For)
                 and is_self_attr(lp.iter, "features")]

        def ev(e, cls, fn):
            if isinstance(e, ast.UnaryOp) and isinstance(
                    e.op, (ast.Invert, ast.Not)):
                return not ev(e.operand, cls, fn)
            if isinstance(e, ast.BinOp) and isinstance(e.op, ast.BitOr):
                return ev(e.left, cls, fn) or ev(e.right, cls, fn)
            if isinstance(e, ast.BinOp) and isinstance(e.op, ast.BitAnd):
                return ev(e.left, cls, fn) and ev(e.right, cls, fn)
            if isinstance(e, ast.Call):
                nm = (call_name(e) or "").split(".")[-1]
                if nm == "isnan":
                    return cls == "nan"
                if nm == "isinf":
                    return cls in ("+inf", "-inf")
                if nm == "isposinf":
                    return cls == "+inf"
                if nm == "isneginf":
                    return cls == "-inf"
                if nm == "isfinite":
                    return cls == "finite"
                if nm in ("logical_or", "logical_and") and len(e.args) == 2:
                    a_, b_ = (ev(x, cls, fn) for x in e.args)
                    return (a_ or b_) if nm == "logical_or" else (a_ and b_)
                if nm in ("logical_not", "invert") and len(e.args) == 1:
                    return not ev(e.args[0], cls, fn)
            if isinstance(e, ast.Name):
                d = [n_ for n_ in walk(fn) if isinstance(n_, ast.Assign)
                     and len(n_.targets) == 1 and txt(n_.targets[0]) == e.id]
                if len(d) == 1:
                    return ev(d[0].value, cls, fn)
            raise AnalysisError("Filter.update: invalid-event mask "
                                f"`{short(e, 40)}` cannot be evaluated")
        if aug and loops:
            keeps = {c: ev(aug[0].value, c, inv_if[0])
                     for c in ("finite", "nan", "+inf", "-inf")}
            ok = keeps == {"finite": True, "nan": False, "+inf": False,
                           "-inf": False}
    ctx.ob("R3.3", ok, "invalid-event removal excludes inf and nan of every "
           "scalar feature when switched on" if ok else
           "invalid-event removal no longer covers inf and nan of all "
           "features", node=inv_if[0] if inv_if else upd,
           label="invalid removal")


def r34(ctx, repo, upd):
    h = repo.func(POLY, "PolygonFilter.hash")
    hashed = {n.attr for n in walk(h) if is_self_attr(n)}
    filt = repo.func(POLY, "PolygonFilter.filter")
    read = {n.attr for n in walk(filt) if is_self_attr(n)
            and isinstance(n.ctx, ast.Load)}
    # properties resolve to underlying attributes
    cls = repo.cls(POLY, "PolygonFilter")
    props = {}
    for f in cls.body:
        if isinstance(f, ast.FunctionDef) and any(
                txt(d) == "property" for d in f.decorator_list):
            props[f.name] = {n.attr for n in walk(f) if is_self_attr(n)}
    # in update: pf.<attr>
    pf_reads = set()
    for n in walk(upd):
        if isinstance(n, ast.Attribute) and isinstance(n.value, ast.Name) \
                and n.value.id == "pf" and n.attr not in ("hash", "filter"):
            pf_reads.add(n.attr)
    for a in sorted(read | pf_reads):
        ok = a in hashed
        ctx.ob("R3.4", ok,
               f"polygon attribute `{a}` used for filtering is part of the "
               f"polygon hash" if ok else
               f"polygon attribute `{a}` is used for filtering but not "
               f"hashed: editing it leaves the cached polygon result",
               node=h, key=f"{POLY}::PolygonFilter.hash::covers {a}")
    # cache compare by hash and store pairs (hash, result)
    cmp_ok = any(isinstance(n, ast.Compare) and "pf.hash" in txt(n)
                 and "_poly_filters" in txt(n) and isinstance(
                     n.ops[0], ast.NotEq) for n in walk(upd))
    ctx.ob("R3.4", cmp_ok, "cached polygon results are compared by hash"
           if cmp_ok else "cached polygon results are reused without "
           "comparing the polygon hash", node=upd, label="polygon hash test")
    st_ok = False
    for n in walk(upd):
        if isinstance(n, ast.Assign) and "_poly_filters" in txt(
                n.targets[0]) and isinstance(n.value, ast.Tuple) \
                and len(n.value.elts) == 2 and txt(
                    n.value.elts[0]) == "pf.hash" and "filter" in txt(
                    n.value.elts[1]):
            st_ok = True
    ctx.ob("R3.4", st_ok, "polygon results are stored with the hash they "
           "were computed for" if st_ok else
           "polygon cache store lost its hash", node=upd,
           label="polygon store pairs hash")
    # loop over current settings
    lp_ok = any(isinstance(n, ast.For) and "polygon filters" in txt(n.iter)
                for n in walk(upd))
    ctx.ob("R3.4", lp_ok, "every polygon id of the current settings is "
           "evaluated" if lp_ok else "polygon ids of the settings are not "
           "iterated", node=upd, label="polygon loop", nontrivial=False)
    # removal in _init_rtdc_ds
    init = repo.func(FILT, "Filter._init_rtdc_ds")
    ok = False
    for lp in walk(init):
        if isinstance(lp, ast.For) and "_poly_filters" in txt(lp.iter):
            t = txt(lp)
            ok = "polygon filters" in t and find_calls(lp, attr="pop")
    ctx.ob("R3.4", bool(ok), "cached results of polygons no longer in the "
           "settings are dropped" if ok else
           "polygon filters removed from the settings keep filtering",
           node=init, label="polygon removal")
    called = any(last_attr(c) == "_init_rtdc_ds" for c in find_calls(
        upd, attr="_init_rtdc_ds"))
    ctx.ob("R3.4", called, "update() re-initialises before evaluating"
           if called else "update() no longer calls _init_rtdc_ds",
           node=upd, label="update calls init", nontrivial=False)
    # inversion inside filter(): on every path on which `self.inverted`
    # holds the result is complemented, on no other path
    from ..cfg import CFG, branch_facts
    fcfg = CFG(filt)

    def is_invert(node):
        if node.ast is None or node.kind not in ("stmt",):
            return False
        for x in ast.walk(node.ast):
            if isinstance(x, ast.Call) and call_name(x) in (
                    "np.invert", "np.logical_not", "numpy.invert"):
                return True
            if isinstance(x, ast.UnaryOp) and isinstance(x.op, ast.Invert):
                return True
        return False

    def inverted_edge(truth):
        def f(src, lab, dst):
            if src.kind == "test" and lab in ("T", "F"):
                for e, t in branch_facts(src.ast.test, lab == "T"):
                    if is_self_attr(e, "inverted") and t == truth:
                        return True
            return False
        return f
    inv_nodes = [n for n in fcfg.nodes if is_invert(n)]
    # (a) no inversion reachable without the inverted=True edge
    r_plain = fcfg.reach([fcfg.entry], avoid_edge=inverted_edge(True),
                         include_sources=True)
    leak = [n for n in inv_nodes if n.id in r_plain]
    # (b) after an inverted=True edge, the exit is not reachable without
    #     passing an inversion
    miss = False
    for n in fcfg.nodes:
        for (b, lab) in fcfg.succ[n.id]:
            if inverted_edge(True)(n, lab, fcfg.nodes[b]):
                if is_invert(fcfg.nodes[b]):
                    continue
                r = fcfg.reach([b], avoid_node=is_invert,
                               avoid_edge=lambda s_, l_, d_: l_ == "x",
                               include_sources=True)
                if fcfg.exit in r:
                    miss = True
    ok = bool(inv_nodes) and not leak and not miss
    ctx.ob("R3.4", ok, "an inverted polygon yields the complement, a "
           "non-inverted one the plain result" if ok else
           "inversion of the polygon result lost or applied on the wrong "
           "branch", node=filt, label="polygon inversion")
    # (c) no return by-passes the inversion decision: a short-cut result
    #     computed before `self.inverted` is consulted is the plain result
    #     for inverted polygons as well (allowed only for empty input, whose
    #     complement is empty too)
    def decides(src, lab, dst):
        if src.kind == "test" and lab in ("T", "F"):
            return any(is_self_attr(e, "inverted")
                       for e, _t in branch_facts(src.ast.test, lab == "T"))
        return False

    def empty_edge(src, lab, dst):
        # edges that establish "the input is empty"
        if src.kind == "test" and lab in ("T", "F"):
            for e, t in branch_facts(src.ast.test, lab == "T"):
                tt = txt(e)
                if isinstance(e, ast.Compare) and len(e.ops) == 1 and (
                        "len(" in tt or ".size" in tt or ".shape[0]" in tt) \
                        and txt(e.comparators[0]) == "0" and (
                        isinstance(e.ops[0], ast.Eq) and t
                        or isinstance(e.ops[0], ast.NotEq) and not t):
                    return True
        return False
    r_nodec = fcfg.reach(
        [fcfg.entry],
        avoid_edge=lambda s_, l_, d_: l_ == "x" or decides(s_, l_, d_)
        or empty_edge(s_, l_, d_), include_sources=True)
    byp = [n for n in fcfg.nodes if n.id in r_nodec and n.kind == "stmt"
           and isinstance(n.ast, ast.Return)]
    # a return whose value is an inversion-aware expression (conditional
    # on self.inverted) decides in place
    byp = [n for n in byp if not any(
        is_self_attr(x, "inverted") for x in ast.walk(n.ast))]
    ctx.ob("R3.4", not byp, "every result passes the inversion decision"
           if not byp else
           f"`{short(byp[0].ast, 50)}` returns before `self.inverted` is "
           f"consulted: for an inverted polygon the short-cut result is not "
           f"complemented", node=byp[0].ast if byp else filt,
           label="no return by-passes inversion")


def r35(ctx, repo, upd):
    en, en_body, dis_body = _enabled_branches(upd)
    calls = [c for c in find_calls(upd, attr="downsample_rand")]
    site = None
    body_fn = upd
    limit_arg = None
    if not calls:
        # the limit code may live in a helper method of the same class
        for hc in [c for c in walk(upd) if isinstance(c, ast.Call)]:
            nm = last_attr(hc)
            if nm and isinstance(hc.func, ast.Attribute) and txt(
                    hc.func.value) in ("self", "Filter"):
                helper = repo.func(FILT, f"Filter.{nm}", missing_ok=True)
                if helper is not None and find_calls(
                        helper, attr="downsample_rand"):
                    site = hc
                    body_fn = helper
                    calls = find_calls(helper, attr="downsample_rand")
                    # which helper parameter carries the limit?
                    params = [a.arg for a in helper.args.args
                              if a.arg != "self"]
                    for prm, a in zip(params, hc.args):
                        if "limit" in txt(a):
                            limit_arg = prm
                    break
    if not calls:
        raise AnalysisError("Filter.update: event limit lost")
    c = calls[0]
    anchor = site if site is not None else c
    inside = any(x is anchor for x in walk(ast.Module(body=list(en_body),
                                                      type_ignores=[])))
    ctx.ob("R3.5", inside, "the event limit is applied on the enabled "
           "branch only" if inside else "event limit applied although "
           "filters are disabled", node=c, label="limit in enabled branch")
    lim = [n for n in walk(en) if isinstance(n, ast.If)
           and "limit events" in _expand(upd, n.test)]
    ok = False
    if lim and isinstance(lim[0].test, ast.Compare) \
            and len(lim[0].test.ops) == 1:
        t = lim[0].test
        l, r = _expand(upd, t.left), _expand(upd, t.comparators[0])
        ok = (isinstance(t.ops[0], ast.Gt) and "limit events" in l
              and r == "0") or (isinstance(t.ops[0], ast.Lt) and l == "0"
                                and "limit events" in r)
    ctx.ob("R3.5", ok, "limit is applied only for a positive setting" if ok
           else "guard `limit events > 0` changed", node=lim[0] if lim
           else en, label="limit positive")
    # the limit is drawn afresh from the current selection on every update:
    # every normal path through the (positive) limit block passes the random
    # draw, and the block keeps no state on the Filter instance
    if lim:
        from ..cfg import CFG
        lcfg = CFG(upd)
        lim_if = lim[0]
        draw_stmt = anchor
        while not isinstance(draw_stmt, ast.stmt):
            draw_stmt = draw_stmt.parent
        dids = set(lcfg.ids_of(draw_stmt))
        ok_draw = True
        for tid in lcfg.ids_of(lim_if):
            tsucc = [b for (b, l) in lcfg.succ[tid] if l == "T"]
            for b in tsucc:
                if b in dids:
                    continue
                # where does the block end?  the first node after the If
                r_ = lcfg.reach([b], avoid_node=lambda n_: n_.id in dids,
                                avoid_edge=lambda s_, l_, d_: l_ == "x",
                                include_sources=True)
                if lcfg.exit in r_:
                    ok_draw = False
        ctx.ob("R3.5", ok_draw,
               "every path through the limit block draws the selection "
               "afresh" if ok_draw else
               "a path through the limit block skips the random draw (e.g. "
               "re-uses a remembered selection): after the eligible events "
               "changed, fewer than `limit` events (or the wrong ones) pass",
               node=lim_if, label="limit drawn on every update")
        state = [n for n in ast.walk(lim_if) if is_self_attr(n)
                 and n.attr.startswith("_") and not isinstance(
                     getattr(n, "parent", None), ast.Call)
                 or (is_self_attr(n) and isinstance(n.ctx, ast.Store))]
        state = [n for n in state if not (
            isinstance(getattr(n, "parent", None), ast.Attribute))]
        ctx.ob("R3.5", not state,
               "the limit block keeps no state on the filter instance"
               if not state else
               f"the limit block reads/writes `self.{state[0].attr}`: a "
               f"selection remembered from an earlier update leaks into "
               f"this one", node=state[0] if state else lim_if,
               label="limit block stateless")
    ret_idx = kwarg(c, "ret_idx")
    ok = ret_idx is not None and txt(ret_idx) == "True"
    sub = c.args[0] if c.args else kwarg(c, "a")
    subdef = _assigned_from(body_fn, lambda v: isinstance(v, ast.Subscript)
                            and txt(v.value) == txt(v.slice))
    ok2 = isinstance(sub, ast.Name) and sub.id in subdef
    ctx.ob("R3.5", ok and ok2,
           "the limit samples among the currently selected events and asks "
           "for the index mask" if ok and ok2 else
           "the limit does not operate on all[all] with ret_idx=True",
           node=c, label="limit on selected events")
    samples = kwarg(c, "samples", 1)
    ok = samples is not None and ("limit" in _expand(upd, samples)
                                  or txt(samples) == limit_arg)
    ctx.ob("R3.5", ok, "requested size is the configured limit" if ok else
           "requested size is not the configured limit", node=c,
           label="limit size", nontrivial=False)
    # write-back
    scope = en if body_fn is upd else body_fn
    wb = [n for n in walk(scope) if isinstance(n, ast.Assign) and isinstance(
        n.targets[0], ast.Subscript) and txt(n.targets[0].value) == txt(
        n.targets[0].slice) and isinstance(n.value, ast.Name)
        and n.value.id in subdef]
    neg = [n for n in walk(scope) if isinstance(n, ast.Assign) and isinstance(
        n.targets[0], ast.Subscript) and isinstance(
        n.targets[0].slice, ast.UnaryOp) and isinstance(
        n.targets[0].slice.op, ast.Invert) and isinstance(
        n.value, ast.Constant) and n.value.value is False]
    ctx.ob("R3.5", bool(wb) and bool(neg),
           "events not drawn are deselected and the result is written back "
           "into the selected positions" if wb and neg else
           "limit result is not written back into all[all]",
           node=(wb or neg or [c])[0], label="limit write-back")


def r36(ctx, repo):
    rs = repo.func(FILT, "Filter.reset")
    rs = canon(repo, FILT, rs)
    cleared = {txt(c.func.value) for c in find_calls(rs, attr="clear")}
    # re-binding to a fresh empty container is a reset as well
    for n in walk(rs):
        if isinstance(n, ast.Assign):
            v = n.value
            empty = (isinstance(v, (ast.Dict, ast.List, ast.Set)) and not (
                getattr(v, "keys", None) or getattr(v, "elts", None))) or (
                isinstance(v, ast.Call) and call_name(v) in (
                    "dict", "list", "set", "collections.OrderedDict",
                    "OrderedDict") and not v.args and not v.keywords)
            if empty:
                for t in n.targets:
                    if is_self_attr(t):
                        cleared.add(txt(t))
    for attr in ("_box_filters", "_poly_filters", "_array_props"):
        ok = f"self.{attr}" in cleared
        ctx.ob("R3.6", ok, f"reset clears {attr}" if ok else
               f"reset leaves {attr} in place", node=rs,
               label=f"reset clears {attr}")
    asg = {txt(t): n for n in walk(rs) if isinstance(n, ast.Assign)
           for t in n.targets}
    ok = "self.manual" in asg and "ones" in txt(asg["self.manual"].value)
    ctx.ob("R3.6", ok, "reset re-admits all manually excluded events" if ok
           else "reset keeps manual exclusions", node=rs, label="reset manual")
    ok = "self._old_config" in asg and txt(
        asg["self._old_config"].value) == "{}"
    ctx.ob("R3.6", ok, "reset forgets the remembered settings (forces full "
           "re-evaluation)" if ok else "reset keeps the remembered settings",
           node=rs, label="reset old config")
    # every memo attribute initialised in __init__ is reset
    init = repo.func(FILT, "Filter.__init__")
    memo = {t.attr for n in walk(init) if isinstance(n, ast.Assign)
            for t in n.targets if is_self_attr(t)
            and isinstance(n.value, (ast.Dict, ast.List))}
    miss = {m for m in memo if f"self.{m}" not in cleared
            and f"self.{m}" not in asg}
    ctx.ob("R3.6", not miss, "every container created in __init__ is reset"
           if not miss else f"containers never reset: {sorted(miss)}",
           node=rs, label="reset covers init containers")
    rf = repo.func(CORE, "RTDCBase.reset_filter")
    t = [txt(s) for s in rf.body]
    ok = any("filter.reset()" in x for x in t)
    ctx.ob("R3.6", ok, "reset_filter resets the filter instance" if ok else
           "reset_filter no longer resets the filter instance", node=rf,
           label="reset_filter resets Filter")
    ok = any("_init_default_filter_values" in x for x in t)
    ctx.ob("R3.6", ok, "reset_filter restores the default settings" if ok
           else "reset_filter keeps the filter settings", node=rf,
           label="reset_filter defaults")
    # hierarchy parent preserved: read before, written after
    rd = [i for i, s in enumerate(rf.body) if isinstance(s, ast.Assign)
          and "hierarchy parent" in txt(s.value)]
    wr = [i for i, s in enumerate(rf.body) if isinstance(s, ast.Assign)
          and "hierarchy parent" in txt(s.targets[0])]
    de = [i for i, s in enumerate(rf.body)
          if "_init_default_filter_values" in txt(s)]
    ok = rd and wr and de and rd[0] < de[0] < wr[0]
    ctx.ob("R3.6", bool(ok), "the hierarchy parent survives the reset" if ok
           else "reset_filter loses the hierarchy parent", node=rf,
           label="reset keeps hierarchy parent")
    # defaults cover the table
    table = repo.module_assign("dclab/definitions/meta_const.py",
                               "CFG_ANALYSIS")
    keys = []
    for k, v in zip(table.keys, table.values):
        if const_str(k) == "filtering":
            for item in v.elts:
                keys.append(const_str(item.elts[0]))
    if not keys:
        raise AnalysisError("CFG_ANALYSIS['filtering'] could not be folded")
    dv = canon(repo, CONF, repo.func(
        CONF, "Configuration._init_default_filter_values"))
    assigned = {}
    sec_alias = {n.targets[0].id for n in walk(dv)
                 if isinstance(n, ast.Assign) and isinstance(
                     n.targets[0], ast.Name) and isinstance(
                     n.value, ast.Subscript) and const_str(
                     n.value.slice) == "filtering"}
    for n in walk(dv):
        if isinstance(n, ast.Assign) and isinstance(
                n.targets[0], ast.Subscript) and const_str(
                n.targets[0].slice) and ("filtering" in txt(
                    n.targets[0].value) or txt(
                    n.targets[0].value) in sec_alias):
            assigned[const_str(n.targets[0].slice)] = n.value
    for k in keys:
        ok = k in assigned
        ctx.ob("R3.6", ok, f"default for [filtering] '{k}' is restored"
               if ok else f"no default for [filtering] '{k}'", node=dv,
               key=f"{CONF}::_init_default_filter_values::default {k}")
    exp = {"remove invalid events": "False", "enable filters": "True",
           "limit events": "0", "polygon filters": "[]"}
    for k, v in exp.items():
        if k in assigned:
            ok = txt(assigned[k]) == v
            ctx.ob("R3.6", ok, f"default of '{k}' is the neutral value {v}"
                   if ok else f"default of '{k}' is {txt(assigned[k])}, "
                   f"not the neutral value {v}", node=assigned[k],
                   key=f"{CONF}::_init_default_filter_values::neutral {k}")


def r37(ctx, repo):
    """The universe of features the filter evaluates (`Filter.features`) is
    the dataset's scalar features as decided by the definitions' predicate
    (which also admits the pattern-defined ml_score_??? features) – a range
    on a feature outside that universe is skipped silently."""
    ini = repo.func(FILT, "Filter._init_rtdc_ds")
    src = [n for n in walk(ini) if isinstance(n, ast.Assign)
           and any(is_self_attr(t, "features") for t in n.targets)]
    if len(src) != 1:
        raise AnalysisError("Filter._init_rtdc_ds: binding of self.features "
                            "lost")
    v = src[0].value
    ok = isinstance(v, ast.Attribute) and v.attr == "features_scalar"
    ctx.ob("R3.7", ok, "the filter evaluates the dataset's scalar features"
           if ok else f"the filter's feature universe is `{short(v, 40)}`, "
           f"not the dataset's scalar features", node=src[0],
           label="filter universe = features_scalar")
    fs = canon(repo, CORE, repo.func(CORE, "RTDCBase.features_scalar"))
    # the selection: comprehension or loop over self.features
    conds = None
    for n in ast.walk(fs):
        if isinstance(n, (ast.ListComp, ast.GeneratorExp, ast.SetComp)) \
                and len(n.generators) == 1 and is_self_attr(
                    n.generators[0].iter, "features") and isinstance(
                    n.generators[0].target, ast.Name):
            g = n.generators[0]
            conds = (g.target.id, list(g.ifs), n)
        elif isinstance(n, ast.For) and is_self_attr(n.iter, "features") \
                and isinstance(n.target, ast.Name) and len(n.body) == 1 \
                and isinstance(n.body[0], ast.If) and not n.body[0].orelse:
            conds = (n.target.id, [n.body[0].test], n)
    if conds is None:
        raise AnalysisError("RTDCBase.features_scalar: selection over "
                            "self.features not recognised")
    var, tests, node = conds

    def is_predicate(t):
        if not isinstance(t, ast.Call) or not t.args or txt(
                t.args[0]) != var:
            return False
        name = (call_name(t) or "").split(".")[-1]
        if name == "scalar_feature_exists":
            return len(t.args) == 1 and not t.keywords
        if name == "feature_exists":
            so = kwarg(t, "scalar_only", 1)
            return isinstance(so, ast.Constant) and so.value is True
        return False
    ok = len(tests) == 1 and is_predicate(tests[0])
    if not ok:
        # decidable deviations: a bare table membership (the tables do not
        # hold the pattern-defined features) or no selection at all;
        # anything else may be an equivalent re-implementation
        table_only = len(tests) == 1 and isinstance(
            tests[0], ast.Compare) and len(tests[0].ops) == 1 and isinstance(
            tests[0].ops[0], ast.In) and txt(tests[0].left) == var and txt(
            tests[0].comparators[0]).split(".")[-1] in (
            "scalar_feature_names", "feature_names")
        if tests and not table_only:
            raise AnalysisError(
                "RTDCBase.features_scalar: selection predicate "
                f"`{short(tests[0], 50)}` not understood")
    ctx.ob("R3.7", ok, "scalar-ness is decided by the definitions' "
           "predicate (covers pattern-defined features)" if ok else
           f"features_scalar selects with `"
           f"{' and '.join(short(t, 50) for t in tests)}` instead of the "
           f"definitions' scalar-feature predicate: pattern-defined scalar "
           f"features (ml_score_???) drop out of every filter", node=node,
           label="scalar predicate")
    # the predicate itself admits the table and the pattern
    fe = repo.func("dclab/definitions/feat_logic.py", "feature_exists")
    t = txt(fe)
    ok = "scalar_feature_names" in t and "ml_score_" in t
    ctx.ob("R3.7", ok, "the predicate admits tabulated and pattern-defined "
           "scalar features" if ok else "the scalar-feature predicate lost a "
           "case", node=fe, label="predicate cases", nontrivial=False)
    sf = repo.func("dclab/definitions/feat_logic.py", "scalar_feature_exists")
    calls = [c for c in walk(sf) if isinstance(c, ast.Call)
             and (call_name(c) or "").split(".")[-1] == "feature_exists"]
    ok = len(calls) == 1 and isinstance(
        kwarg(calls[0], "scalar_only", 1), ast.Constant) and kwarg(
        calls[0], "scalar_only", 1).value is True and any(
        isinstance(r, ast.Return) and r.value is calls[0] for r in walk(sf))
    ctx.ob("R3.7", ok, "scalar_feature_exists = feature_exists(.., "
           "scalar_only=True)" if ok else "scalar_feature_exists no longer "
           "wraps feature_exists(scalar_only=True)", node=sf,
           label="predicate wrapper", nontrivial=False)


def run(ctx):
    repo = ctx.repo
    ctx.rule("R3.1", "settings diff covers removed keys; snapshot is a copy "
             "taken last; min and max keys both trigger", minimum=4)
    ctx.rule("R3.2", "box predicate = inclusive range after swap, inactive "
             "iff min == max, NaN outside – over all order types",
             minimum=3)
    ctx.rule("R3.3", "all = box & invalid & polygon & manual when enabled, "
             "all-True otherwise; accumulators rebuilt from all-True",
             minimum=8)
    ctx.rule("R3.4", "polygon cache: key covers attributes read, compared "
             "by hash, dropped on removal, inversion", minimum=8)
    ctx.rule("R3.5", "event limit on the enabled branch over all[all] with "
             "write-back", minimum=5)
    ctx.rule("R3.6", "reset clears all memo state and restores neutral "
             "defaults, hierarchy parent kept", minimum=15)
    ctx.rule("R3.7", "filter universe = scalar features by the definitions' "
             "predicate (tabulated + pattern-defined)", minimum=2)
    upd = canon(repo, FILT, repo.func(FILT, "Filter.update"),
                keep=("_get_rw_array", "_init_rtdc_ds"))
    r31(ctx, repo, upd)
    r32(ctx, repo, upd)
    r33(ctx, repo, upd)
    r34(ctx, repo, upd)
    r35(ctx, repo, upd)
    r36(ctx, repo)
    r37(ctx, repo)


MUTANTS = [
    ("range inactive when the bounds are merely close (seeded C03_12)", FILT,
     ("                                and cfg_cur[fstart] != cfg_cur[fend])",
      "                                and not np.isclose(cfg_cur[fstart],\n"
      "                                                   cfg_cur[fend]))"),
     "R3.2"),
    ("bounding-box short-cut before the inversion (seeded C15_9)", POLY,
     ("        f = points_in_poly(points=points, verts=self.points)\n",
      "        if not len(self.points):\n"
      "            return np.zeros(datax.shape[0], dtype=bool)\n"
      "        f = points_in_poly(points=points, verts=self.points)\n"),
     "R3.4"),
    ("scalar features by table membership (seeded C03_7)", CORE,
     ("if dfn.scalar_feature_exists(ft)]", "if ft in dfn.scalar_feature_names]"),
     "R3.7"),
    ("filter universe is all features", FILT,
     ("self.features = rtdc_ds.features_scalar",
      "self.features = rtdc_ds.features"), "R3.7"),
    ("invalid filter cached on the setting (seeded C03_5)", FILT,
     ("        arr_invalid[:] = True\n"
      "        if cfg_cur[\"remove invalid events\"]:\n"
      "            for feat in self.features:\n"
      "                data = rtdc_ds[feat]\n"
      "                invalid = np.isinf(data) | np.isnan(data)\n"
      "                arr_invalid &= ~invalid\n",
      "        if \"remove invalid events\" in newkeys:\n"
      "            arr_invalid[:] = True\n"
      "            if cfg_cur[\"remove invalid events\"]:\n"
      "                for feat in self.features:\n"
      "                    data = rtdc_ds[feat]\n"
      "                    invalid = np.isinf(data) | np.isnan(data)\n"
      "                    arr_invalid &= ~invalid\n"), "R3.3"),
    ("short-cut snapshots without recomputing (seeded C03_6)", FILT,
     ("        # 1. Invalid filters\n",
      "        if not cfg_cur[\"enable filters\"] and not force:\n"
      "            # nothing to compute\n"
      "            self._get_rw_array(\"all\")[:] = True\n"
      "            self._old_config = rtdc_ds.config.copy()[\"filtering\"]\n"
      "            return\n\n        # 1. Invalid filters\n"), "R3.1"),
    ("diff over current keys only (F03 returns)", FILT,
     ("        for skey in list(cfg_cur.keys()) + removed:",
      "        for skey in list(cfg_cur.keys()):"), "R3.1"),
    ("snapshot aliases live config", FILT,
     ('self._old_config = rtdc_ds.config.copy()["filtering"]',
      'self._old_config = rtdc_ds.config["filtering"]'), "R3.1"),
    ("max keys ignored", FILT,
     ('and (k.endswith(" min") or k.endswith(" max"))',
      'and (k.endswith(" min"))'), "R3.1"),
    ("lower bound exclusive", FILT,
     ("feat_filt[idx] &= ivalstart <= data[idx]",
      "feat_filt[idx] &= ivalstart < data[idx]"), "R3.2"),
    ("upper bound exclusive", FILT,
     ("feat_filt[idx] &= data[idx] <= ivalend",
      "feat_filt[idx] &= data[idx] < ivalend"), "R3.2"),
    ("swap removed", FILT,
     ("                        ivalstart, ivalend = ivalend, ivalstart\n",
      ""), "R3.2"),
    ("upper comparison dropped", FILT,
     ("                    feat_filt[idx] &= data[idx] <= ivalend\n", ""),
     "R3.2"),
    ("bounds crossed", FILT,
     ("feat_filt[idx] &= ivalstart <= data[idx]",
      "feat_filt[idx] &= ivalend <= data[idx]"), "R3.2"),
    ("equal bounds active", FILT,
     ("and cfg_cur[fstart] != cfg_cur[fend])", "and True)"), "R3.2"),
    ("nan kept", FILT,
     ("                        feat_filt[disnan] = False\n",
      "                        feat_filt[disnan] = True\n"), "R3.2"),
    ("feature filter not reset", FILT,
     ("                feat_filt[:] = True\n", ""), "R3.2"),
    ("feature filter reset only for active ranges (seeded C03_1)", FILT,
     [("                feat_filt[:] = True\n", ""),
      ("                if must_be_filtered:\n",
       "                if must_be_filtered:\n"
       "                    feat_filt[:] = True\n")], "R3.2"),
    ("manual dropped from conjunction", FILT,
     ("arr_all[:] = arr_box & arr_invalid & arr_polygon & self.manual",
      "arr_all[:] = arr_box & arr_invalid & arr_polygon"), "R3.3"),
    ("polygon dropped from conjunction", FILT,
     ("arr_all[:] = arr_box & arr_invalid & arr_polygon & self.manual",
      "arr_all[:] = arr_box & arr_invalid & self.manual"), "R3.3"),
    ("box accumulator not reset", FILT,
     ("        arr_box[:] = True\n", ""), "R3.3"),
    ("polygon accumulator not reset", FILT,
     ("        arr_polygon[:] = True\n", ""), "R3.3"),
    ("invalid accumulator not reset", FILT,
     ("        arr_invalid[:] = True\n", ""), "R3.3"),
    ("disabled selects none", FILT,
     ("        else:\n            arr_all[:] = True",
      "        else:\n            arr_all[:] = False"), "R3.3"),
    ("inf not invalid", FILT,
     ("invalid = np.isinf(data) | np.isnan(data)",
      "invalid = np.isnan(data)"), "R3.3"),
    ("polygon hash loses inverted", POLY,
     ("return hashobj([self.axes, self.points, self.inverted])",
      "return hashobj([self.axes, self.points])"), "R3.4"),
    ("polygon hash loses points", POLY,
     ("return hashobj([self.axes, self.points, self.inverted])",
      "return hashobj([self.axes, self.inverted])"), "R3.4"),
    ("polygon hash not compared", FILT,
     ("            if (pf_id not in self._poly_filters\n"
      "                    or pf.hash != self._poly_filters[pf_id][0]):",
      "            if (pf_id not in self._poly_filters):"), "R3.4"),
    ("removed polygon kept", FILT,
     ("                self._poly_filters.pop(pf_id)\n",
      "                pass\n"), "R3.4"),
    ("inversion on the wrong branch", POLY,
     ("        if self.inverted:\n            np.invert(f, f)\n",
      "        if not self.inverted:\n            np.invert(f, f)\n"),
     "R3.4"),
    ("inversion dropped", POLY,
     ("        if self.inverted:\n            np.invert(f, f)\n", ""),
     "R3.4"),
    ("limit selection memoised (seeded C16_5)", FILT,
     ("                sub = arr_all[arr_all]\n"
      "                _, idx = downsampling.downsample_rand(sub,\n"
      "                                                      samples=limit,\n"
      "                                                      ret_idx=True)\n"
      "                sub[~idx] = False\n"
      "                arr_all[arr_all] = sub\n",
      "                lkey = (limit, int(np.sum(arr_all)))\n"
      "                if getattr(self, \"_limit_cache\", (None, None))[0] "
      "== lkey:\n"
      "                    arr_all &= self._limit_cache[1]\n"
      "                else:\n"
      "                    sub = arr_all[arr_all]\n"
      "                    _, idx = downsampling.downsample_rand(sub,\n"
      "                                                          samples=limit,"
      "\n                                                          "
      "ret_idx=True)\n"
      "                    sub[~idx] = False\n"
      "                    arr_all[arr_all] = sub\n"
      "                    self._limit_cache = (lkey, arr_all.copy())\n"),
     "R3.5"),
    ("limit applied when disabled", FILT,
     ("            if cfg_cur[\"limit events\"] > 0:\n"
      "                limit = cfg_cur[\"limit events\"]\n"
      "                sub = arr_all[arr_all]\n"
      "                _, idx = downsampling.downsample_rand(sub,\n"
      "                                                      samples=limit,\n"
      "                                                      ret_idx=True)\n"
      "                sub[~idx] = False\n"
      "                arr_all[arr_all] = sub\n"
      "        else:\n            arr_all[:] = True\n",
      "        else:\n            arr_all[:] = True\n"
      "        if cfg_cur[\"limit events\"] > 0:\n"
      "            limit = cfg_cur[\"limit events\"]\n"
      "            sub = arr_all[arr_all]\n"
      "            _, idx = downsampling.downsample_rand(sub,\n"
      "                                                  samples=limit,\n"
      "                                                  ret_idx=True)\n"
      "            sub[~idx] = False\n"
      "            arr_all[arr_all] = sub\n"), "R3.5"),
    ("limit not written back", FILT,
     ("                arr_all[arr_all] = sub\n", ""), "R3.5"),
    ("reset keeps box filters", FILT,
     ("        self._box_filters.clear()\n", ""), "R3.6"),
    ("reset keeps old config", FILT,
     ("        # old filter configuration of `rtdc_ds`\n"
      "        self._old_config = {}\n", ""), "R3.6"),
    ("reset_filter drops hierarchy parent", CORE,
     ('        self.config["filtering"]["hierarchy parent"] = hp\n', ""),
     "R3.6"),
    ("default limit non-neutral", CONF,
     ('self["filtering"]["limit events"] = 0',
      'self["filtering"]["limit events"] = 1000'), "R3.6"),
    ("default enable off", CONF,
     ('self["filtering"]["enable filters"] = True',
      'self["filtering"]["enable filters"] = False'), "R3.6"),
]

TWINS = [
    ("conjunction built in steps", FILT,
     ("            arr_all[:] = arr_box & arr_invalid & arr_polygon & self.manual\n",
      "            np.logical_and(arr_box, arr_invalid, out=arr_all)\n"
      "            arr_all &= arr_polygon\n"
      "            arr_all &= self.manual\n")),
    ("accumulator reset with fill()", FILT,
     ("        arr_box[:] = True\n", "        arr_box.fill(True)\n")),
    ("invalid events via isfinite", FILT,
     ("                invalid = np.isinf(data) | np.isnan(data)\n"
      "                arr_invalid &= ~invalid\n",
      "                arr_invalid &= np.isfinite(data)\n")),
    ("reset re-binds the memo containers", FILT,
     ("        self._box_filters.clear()\n", "        self._box_filters = {}\n")),
    ("empty input returned early", POLY,
     ("        f = points_in_poly(points=points, verts=self.points)\n",
      "        if datax.shape[0] == 0:\n"
      "            return np.zeros(0, dtype=bool)\n"
      "        f = points_in_poly(points=points, verts=self.points)\n")),
    ("inversion as early return (refactor C15/1)", POLY,
     ("        if self.inverted:\n            np.invert(f, f)\n\n"
      "        return f\n",
      "        if not self.inverted:\n            return f\n\n"
      "        np.invert(f, f)\n        return f\n")),
    ("limit hoisted into a local (refactor C16/3)", FILT,
     ("            if cfg_cur[\"limit events\"] > 0:\n"
      "                limit = cfg_cur[\"limit events\"]\n",
      "            limit = cfg_cur[\"limit events\"]\n"
      "            if limit > 0:\n")),
    ("enable test inverted (refactor C16/5)", FILT,
     [("        if cfg_cur[\"enable filters\"]:\n",
       "        if not cfg_cur[\"enable filters\"]:\n"
       "            arr_all[:] = True\n        else:\n"),
      ("        else:\n            arr_all[:] = True\n\n"
       "        # Actual filtering", "\n        # Actual filtering")]),
    ("diff loop with intermediate variables (refactor C03/2)", FILT,
     ("            if cfg_cur.get(skey, None) != cfg_old.get(skey, None):\n",
      "            val_cur = cfg_cur.get(skey, None)\n"
      "            val_old = cfg_old.get(skey, None)\n"
      "            if val_cur != val_old:\n")),
    ("event limit extracted into a helper (refactor C03/3)", FILT,
     [("                sub = arr_all[arr_all]\n"
       "                _, idx = downsampling.downsample_rand(sub,\n"
       "                                                      samples=limit,\n"
       "                                                      ret_idx=True)\n"
       "                sub[~idx] = False\n"
       "                arr_all[arr_all] = sub\n",
       "                self._limit_events(arr_all, limit)\n"),
      ("    def reset(self):\n",
       "    @staticmethod\n"
       "    def _limit_events(arr_all, limit):\n"
       "        sub = arr_all[arr_all]\n"
       "        _, idx = downsampling.downsample_rand(sub,\n"
       "                                              samples=limit,\n"
       "                                              ret_idx=True)\n"
       "        sub[~idx] = False\n"
       "        arr_all[arr_all] = sub\n\n"
       "    def reset(self):\n")]),
    ("defaults through a local alias of the section (refactor C03/4)", CONF,
     lambda src: src.replace(
         "        # Do not filter out invalid event values\n",
         "        filt = self[\"filtering\"]\n"
         "        # Do not filter out invalid event values\n", 1).replace(
         'self["filtering"]["remove invalid events"] = False',
         'filt["remove invalid events"] = False').replace(
         'self["filtering"]["enable filters"] = True',
         'filt["enable filters"] = True')),
    ("bounds written the other way round", FILT,
     [("feat_filt[idx] &= ivalstart <= data[idx]",
       "feat_filt[idx] &= data[idx] >= ivalstart"),
      ("feat_filt[idx] &= data[idx] <= ivalend",
       "feat_filt[idx] &= ivalend >= data[idx]")]),
    ("swap test mirrored", FILT,
     ("if ivalstart > ivalend:", "if ivalend < ivalstart:")),
    ("conjunction reordered", FILT,
     ("arr_all[:] = arr_box & arr_invalid & arr_polygon & self.manual",
      "arr_all[:] = self.manual & arr_polygon & arr_box & arr_invalid")),
    ("snapshot via dict()", FILT,
     ('self._old_config = rtdc_ds.config.copy()["filtering"]',
      'self._old_config = dict(rtdc_ds.config["filtering"])')),
    ("diff over union of keys", FILT,
     ("        for skey in list(cfg_cur.keys()) + removed:",
      "        for skey in sorted(set(cfg_cur.keys()) | set(removed)):")),
]
