"""C16 – downsampling returns a reproducible subset of the requested size.

The sampling routines live in ``dclab/downsampling.pyx``; the shipped binary
cannot be rebuilt here, so reading the source is the only check that sees an
edit (and defects found there can only be recorded).

R16.1 reproducibility / no duplication: every draw from numpy's random module
      is dominated by a reset of the global state to a literal seed created
      in the same function with no other draw in between (or uses a
      generator seeded with a literal inside the function); every ``choice``
      samples without replacement.
R16.2 mask/data agreement: returned data are ``input[mask]`` for the mask
      that is returned, nothing is stored into the mask or the inputs in
      between; compressing to the valid events and expanding back use the
      same validity mask.
R16.3 sample-size bound: for every ``choice(pool, size=k, replace=False)``
      the inequality k <= len(pool) is derived from the enclosing guards by
      linear reasoning over mask counts / array sizes (or the size is
      clamped with min()).
R16.4 zero-range guard: a division by ``max - min`` of the data is guarded.
R16.5 dataset level: get_downsampled_scatter samples the selected events,
      returns the unscaled data under the routine's mask and writes that
      mask back at the positions of the same selection.
      Every path to a return runs the sampler; the mask handed out is a
      newly allocated array on every path.
R16.6 the event-limit block of Filter.update stores nothing on the Filter
      instance that update() reads, and the draw is not skipped depending on
      instance state: the limited selection is drawn from the current
      eligible events on every update (shape of the block: C03 R3.5).
      Who may write: within dclab/ the 'limit events' key is stored only by
      the configuration code (config.py); no dataset code overwrites it or
      the whole [filtering] section.
"""
from __future__ import annotations

import ast
import itertools

from ..cfg import CFG, branch_facts
from ..normalize import inline_helpers
from ..lib_C15 import inline_tail_call
from ..core import (AnalysisError, call_name, enclosing_stmt, find_calls,
                    kwarg, last_attr, names_in, short, txt, walk)

ASSUMPTIONS = [
    "NOT decided: that the number of returned events equals the request for "
    "arbitrary point distributions (only that no draw can ask for more than "
    "its pool holds); statistical quality of the selection; numpy's "
    "RandomState stream stability across numpy versions.",
    "R16.3 treats np.sum / np.where of a boolean mask as its population "
    "count, array sizes as non-negative integers and an np.uint32 value as "
    "non-negative; facts are taken from the enclosing `if` tests; the "
    "inequality is proved by a sum of at most four facts.",
]

DS = "dclab/downsampling.pyx"
CORE = "dclab/rtdc_dataset/core.py"

DRAW_SKIP = {"RandomState", "set_state", "get_state", "seed", "default_rng",
             "Generator", "SeedSequence", "PCG64", "MT19937"}


# ----------------------------------------------------------------------
# helpers

def stmt_of(node):
    return enclosing_stmt(node)


def assigns(func, name):
    """statements binding the plain name (Assign / AugAssign / For)"""
    out = []
    for n in walk(func):
        if isinstance(n, ast.Assign):
            for t in n.targets:
                for x in ast.walk(t):
                    if isinstance(x, ast.Name) and x.id == name and isinstance(
                            x.ctx, ast.Store):
                        out.append(n)
        elif isinstance(n, (ast.AugAssign, ast.AnnAssign)) and isinstance(
                n.target, ast.Name) and n.target.id == name:
            out.append(n)
        elif isinstance(n, ast.For) and name in names_in(n.target):
            out.append(n)
    return out


def single_def(func, name):
    """value of the only plain assignment `name = value` (else None)"""
    a = assigns(func, name)
    if len(a) == 1 and isinstance(a[0], ast.Assign) and len(
            a[0].targets) == 1 and isinstance(a[0].targets[0], ast.Name):
        return a[0]
    return None


def stores_into(func, name):
    """statements that modify the array bound to `name` in place or rebind
    it"""
    out = list(assigns(func, name))
    for n in walk(func):
        tg = []
        if isinstance(n, ast.Assign):
            tg = n.targets
        elif isinstance(n, ast.AugAssign):
            tg = [n.target]
        for t in tg:
            base = t
            while isinstance(base, (ast.Subscript, ast.Attribute)):
                base = base.value
            if isinstance(t, (ast.Subscript, ast.Attribute)) and isinstance(
                    base, ast.Name) and base.id == name:
                out.append(n)
            if isinstance(n, ast.AugAssign) and isinstance(
                    t, ast.Name) and t.id == name:
                out.append(n)
        if isinstance(n, ast.Call):
            o = kwarg(n, "out")
            if o is None and call_name(n) in ("np.invert", "np.logical_not",
                                              "np.logical_and",
                                              "np.logical_or") \
                    and len(n.args) > 1 + (
                        call_name(n) in ("np.logical_and", "np.logical_or")):
                o = n.args[-1]
            if o is not None and isinstance(o, ast.Name) and o.id == name:
                out.append(stmt_of(n))
            # helper routines filling a buffer passed by keyword/position are
            # not tracked
    res = []
    for s in out:
        if s not in res:
            res.append(s)
    return res


def is_np_random(call):
    n = call_name(call) or ""
    p = n.split(".")
    return len(p) >= 2 and p[-2] == "random" and p[0] in ("np", "numpy")


def literal_seed(call):
    """RandomState(seed=<int literal>) / default_rng(<int literal>)"""
    if not isinstance(call, ast.Call):
        return None
    n = (call_name(call) or "").split(".")[-1]
    if n not in ("RandomState", "default_rng"):
        return None
    s = kwarg(call, "seed", 0)
    if isinstance(s, ast.Constant) and isinstance(
            s.value, int) and not isinstance(s.value, bool):
        return s.value
    return None


# ----------------------------------------------------------------------
# R16.1

def r161(ctx, repo):
    n_draws = 0
    for q, f in repo.all_functions(DS):
        draws = []
        resets = []
        for c in walk(f):
            if not isinstance(c, ast.Call):
                continue
            if is_np_random(c):
                leaf = call_name(c).split(".")[-1]
                if leaf in ("set_state", "seed"):
                    resets.append(c)
                elif leaf not in DRAW_SKIP:
                    draws.append((c, "global"))
            elif isinstance(c.func, ast.Attribute) and isinstance(
                    c.func.value, ast.Name) and c.func.attr in (
                    "choice", "permutation", "shuffle", "rand", "randint",
                    "random", "integers", "uniform", "normal",
                    "random_sample"):
                d = single_def(f, c.func.value.id)
                if d is not None and literal_seed(d.value) is not None:
                    draws.append((c, "local"))
                elif d is None and c.func.value.id not in [
                        a.arg for a in f.args.args]:
                    # module-level generator: state survives the call
                    mod = repo.module_assign(DS, c.func.value.id,
                                             missing_ok=True)
                    if mod is not None:
                        draws.append((c, "module"))
        if not draws:
            continue
        cfg = CFG(f)
        # which resets install a literal-seed state created in this function?
        good_reset = {}
        for r in resets:
            leaf = call_name(r).split(".")[-1]
            ok = False
            if leaf == "seed":
                s = kwarg(r, "seed", 0)
                ok = isinstance(s, ast.Constant) and isinstance(s.value, int)
            else:
                s = kwarg(r, "state", 0)
                if isinstance(s, ast.Name):
                    d = single_def(f, s.id)
                    s = d.value if d is not None else None
                if isinstance(s, ast.Call) and last_attr(s) == "get_state" \
                        and isinstance(s.func, ast.Attribute) \
                        and literal_seed(s.func.value) is not None:
                    ok = True
            good_reset[id(stmt_of(r))] = ok
        draw_stmts = {id(stmt_of(c)) for c, _ in draws}

        def is_reset(n):
            return n.ast is not None and n.kind == "stmt" and good_reset.get(
                id(n.ast), False)

        def is_draw(n):
            return n.ast is not None and n.kind == "stmt" and id(
                n.ast) in draw_stmts

        for c, kind in draws:
            n_draws += 1
            st = stmt_of(c)
            lab = f"draw {short(c.args[0], 25) if c.args else short(c, 25)}"
            if kind == "local":
                ctx.ob("R16.1", True, "draw on a generator seeded with a "
                       "literal inside the function", node=c,
                       label=lab + " [seeded]")
            elif kind == "module":
                ctx.ob("R16.1", False, "draw on a module-level generator: "
                       "its state survives the call, the same input gives "
                       "different selections", node=c,
                       label=lab + " [seeded]")
            else:
                ids = cfg.ids_of(st)
                if not ids:
                    raise AnalysisError(f"{q}: draw not in the CFG")
                dom = all(cfg.always_before(i, is_reset) for i in ids)
                # no other draw (or this one, through a loop) can precede
                # without a reset in between
                clean = True
                for j in [n.id for n in cfg.nodes if is_draw(n)]:
                    r = cfg.reach([j], avoid_node=is_reset)
                    if any(i in r for i in ids):
                        clean = False
                bad_reset = [r for r in resets
                             if not good_reset[id(stmt_of(r))]]
                ok = dom and clean
                ctx.ob("R16.1", ok,
                       "the draw is preceded on every path by a reset of "
                       "the global state to a literal seed, with no other "
                       "draw in between" if ok else
                       ("the draw can be reached without a preceding reset "
                        "of the random state to a literal seed"
                        + (" (the state installed does not come from "
                           "RandomState(seed=<literal>).get_state())"
                           if bad_reset else "")
                        if not dom else
                        "another draw can run between the reset of the "
                        "random state and this draw")
                       + ": the selection depends on earlier calls",
                       node=c, label=lab + " [seeded]")
            if (call_name(c) or txt(c.func)).split(".")[-1] == "choice":
                rep = kwarg(c, "replace", 2)
                ok = isinstance(rep, ast.Constant) and rep.value is False
                ctx.ob("R16.1", ok, "sampling without replacement" if ok else
                       "choice() samples with replacement (default): events "
                       "can be drawn twice, fewer distinct events than "
                       "requested are selected", node=c,
                       label=lab + " [no replacement]")
    ctx.stat("R16.1 draws", n_draws)


# ----------------------------------------------------------------------
# R16.3 – linear reasoning over counts

class Lin:
    """integer-valued linear form {atom: coeff} + const"""

    def __init__(self, terms=None, const=0):
        self.t = {k: v for k, v in (terms or {}).items() if v}
        self.c = const

    @staticmethod
    def atom(a):
        return Lin({a: 1})

    def __add__(self, o):
        t = dict(self.t)
        for k, v in o.t.items():
            t[k] = t.get(k, 0) + v
        return Lin(t, self.c + o.c)

    def __neg__(self):
        return Lin({k: -v for k, v in self.t.items()}, -self.c)

    def __sub__(self, o):
        return self + (-o)

    def shift(self, k):
        return Lin(self.t, self.c + k)

    def __repr__(self):
        s = ""
        for k, v in sorted(self.t.items(), key=lambda kv: (-kv[1], kv[0])):
            sign = "-" if v < 0 else ("+" if s else "")
            s += f" {sign} " if s else sign
            s += k if abs(v) == 1 else f"{abs(v)}*{k}"
        if self.c or not s:
            s += (f" {'-' if self.c < 0 else '+'} {abs(self.c)}" if s
                  else str(self.c))
        return s


class Counts:
    """symbolic sizes / population counts inside one function"""

    def __init__(self, func):
        self.func = func
        self.used_defs = []     # definition statements consulted
        self.masks = set()      # array names whose content matters
        self.names = set()      # names whose binding matters
        self.nonneg = {}        # atom -> why

    def _def(self, name):
        d = single_def(self.func, name)
        if d is not None and d not in self.used_defs:
            self.used_defs.append(d)
        return d

    def is_bool_mask(self, name, depth=0):
        d = self._def(name)
        if d is None or depth > 5:
            return False
        v = d.value
        dt = kwarg(v, "dtype") if isinstance(v, ast.Call) else None
        if dt is not None and txt(dt) in ("bool", "np.bool_"):
            return True
        if isinstance(v, ast.UnaryOp) and isinstance(v.op, ast.Invert):
            return True
        if isinstance(v, ast.BinOp) and isinstance(
                v.op, (ast.BitOr, ast.BitAnd)):
            return True
        if isinstance(v, ast.Call) and call_name(v) in (
                "np.isnan", "np.isinf", "np.isfinite", "valid"):
            return True
        if isinstance(v, ast.Compare):
            return True
        return False

    # size of an array-valued expression
    def size(self, e, depth=0):
        if depth > 24:
            raise AnalysisError("R16.3: definition chain too deep")
        if isinstance(e, ast.Name):
            self.names.add(e.id)
            d = self._def(e.id)
            if d is not None:
                s = self.size_of_value(d.value, depth + 1)
                if s is not None:
                    return s
            a = f"size({e.id})"
            self.nonneg[a] = "array size"
            return Lin.atom(a)
        s = self.size_of_value(e, depth + 1)
        if s is None:
            raise AnalysisError(f"R16.3: size of `{short(e, 40)}` not "
                                "understood")
        return s

    def size_of_value(self, v, depth):
        if isinstance(v, ast.Call):
            n = call_name(v) or ""
            leaf = n.split(".")[-1]
            if leaf in ("zeros_like", "ones_like", "empty_like", "array",
                        "asarray", "copy") and v.args:
                return self.size(v.args[0], depth)
            if leaf == "arange" and len(v.args) == 1:
                return self.value(v.args[0], depth)
        if isinstance(v, ast.Subscript):
            # np.where(M)[0]
            if isinstance(v.value, ast.Call) and call_name(v.value) in (
                    "np.where", "np.nonzero", "np.flatnonzero") and len(
                    v.value.args) == 1 and txt(v.slice) == "0":
                return self.count(v.value.args[0], depth)
            # A[mask]
            if isinstance(v.value, ast.Name) and isinstance(
                    v.slice, (ast.Name, ast.UnaryOp)):
                m = v.slice
                base = m.operand if isinstance(m, ast.UnaryOp) else m
                if isinstance(base, ast.Name) and self.is_bool_mask(base.id):
                    return self.count(m, depth)
        if isinstance(v, ast.Call) and call_name(v) in (
                "np.flatnonzero",) and len(v.args) == 1:
            return self.count(v.args[0], depth)
        return None

    def count(self, m, depth=0):
        """population count of a boolean mask expression"""
        if isinstance(m, ast.UnaryOp) and isinstance(m.op, ast.Invert):
            inner = m.operand
            if not isinstance(inner, ast.Name):
                raise AnalysisError("R16.3: complement of a non-name mask")
            return self.size(inner, depth) - self.count(inner, depth)
        if isinstance(m, ast.Name):
            self.masks.add(m.id)
            self.names.add(m.id)
            if not self.is_bool_mask(m.id):
                raise AnalysisError(
                    f"R16.3: `{m.id}` is counted but is not recognisably a "
                    "boolean mask")
            # complement definition: good = ~bad
            d = self._def(m.id)
            if d is not None and isinstance(d.value, ast.UnaryOp) \
                    and isinstance(d.value.op, ast.Invert) and isinstance(
                        d.value.operand, ast.Name) and not [
                        s for s in stores_into(self.func, m.id) if s is not d]:
                return self.count(d.value, depth + 1)
            a = f"count({m.id})"
            self.nonneg[a] = "population count"
            # count <= size
            sz = self.size(m, depth + 1)
            self.extra_facts.append(
                (sz - Lin.atom(a), f"count({m.id}) <= its size"))
            return Lin.atom(a)
        raise AnalysisError(f"R16.3: count of `{short(m, 40)}`")

    extra_facts = None

    # integer-valued expression -> list of (Lin, [facts]) alternatives
    def value(self, e, depth=0, facts=None):
        alts = self.values(e, depth, facts or [])
        if len(alts) != 1:
            raise AnalysisError("R16.3: case split in a nested position")
        return alts[0][0]

    def values(self, e, depth, facts):
        if depth > 24:
            raise AnalysisError("R16.3: definition chain too deep")
        if isinstance(e, ast.Constant) and isinstance(
                e.value, int) and not isinstance(e.value, bool):
            return [(Lin(const=e.value), [])]
        if isinstance(e, ast.Name):
            self.names.add(e.id)
            d = self._def(e.id)
            if d is not None:
                v = d.value
                if isinstance(v, ast.Call) and (call_name(v) or "").split(
                        ".")[-1] in ("uint32", "uint64", "uint16", "uint8"):
                    a = f"val({e.id})"
                    self.nonneg[a] = "unsigned integer"
                    return [(Lin.atom(a), [])]
                try:
                    return self.values(v, depth + 1, facts)
                except _Opaque:
                    pass
            a = f"val({e.id})"
            return [(Lin.atom(a), [])]
        if isinstance(e, ast.Attribute) and e.attr == "size":
            return [(self.size(e.value, depth + 1), [])]
        if isinstance(e, ast.Subscript) and isinstance(
                e.value, ast.Attribute) and e.value.attr == "shape" \
                and txt(e.slice) == "0":
            return [(self.size(e.value.value, depth + 1), [])]
        if isinstance(e, ast.Call):
            n = call_name(e) or ""
            leaf = n.split(".")[-1]
            if n == "len" and len(e.args) == 1:
                return [(self.size(e.args[0], depth + 1), [])]
            if leaf in ("sum", "count_nonzero"):
                arg = e.args[0] if e.args else (
                    e.func.value if isinstance(e.func, ast.Attribute)
                    else None)
                if n in ("np.sum", "np.count_nonzero", "numpy.sum") \
                        and e.args:
                    return [(self.count(e.args[0], depth + 1), [])]
                if isinstance(e.func, ast.Attribute) and not e.args \
                        and isinstance(arg, ast.Name):
                    return [(self.count(arg, depth + 1), [])]
            if n in ("int", "np.int64", "np.uint32") and len(e.args) == 1:
                return self.values(e.args[0], depth + 1, facts)
            if n == "abs" and len(e.args) == 1:
                out = []
                for lin, fs in self.values(e.args[0], depth + 1, facts):
                    sign = sign_of(lin, facts + fs + self.struct_facts())
                    if sign is None:
                        raise _Opaque()
                    out.append((lin if sign > 0 else -lin, fs))
                return out
            if n == "min" and len(e.args) >= 2 and not e.keywords:
                # a clamp: value <= each argument; handled by the caller
                lins = []
                for a in e.args:
                    try:
                        lins.append(self.value(a, depth + 1, facts))
                    except (AnalysisError, _Opaque):
                        pass
                raise _Clamp(lins)
        if isinstance(e, ast.BinOp) and isinstance(
                e.op, (ast.Add, ast.Sub)):
            out = []
            for (a, fa), (b, fb) in itertools.product(
                    self.values(e.left, depth + 1, facts),
                    self.values(e.right, depth + 1, facts)):
                out.append((a + b if isinstance(e.op, ast.Add) else a - b,
                            fa + fb))
            return out
        if isinstance(e, ast.BoolOp) and isinstance(
                e.op, ast.Or) and len(e.values) == 2:
            a = self.value(e.values[0], depth + 1, facts)
            out = [(a, [(a.shift(-1), f"{short(e.values[0], 20)} is "
                         "non-zero")])]
            for b, fb in self.values(e.values[1], depth + 1, facts):
                out.append((b, fb + [(-a, f"{short(e.values[0], 20)} == 0"),
                                     (a, f"{short(e.values[0], 20)} == 0")]))
            return out
        raise _Opaque()

    def struct_facts(self):
        out = [(Lin.atom(a), f"{a} >= 0 ({why})")
               for a, why in self.nonneg.items()]
        return out + list(self.extra_facts or [])


class _Opaque(Exception):
    pass


class _Clamp(Exception):
    def __init__(self, args):
        self.args_lin = args


def sign_of(lin, facts):
    """+1 if lin >= 0 follows from one fact, -1 if lin <= 0, else None"""
    if not lin.t:
        return 1 if lin.c >= 0 else -1
    for f, _ in facts:
        d = lin - f
        if not d.t and d.c >= 0:
            return 1
        d = (-lin) - f
        if not d.t and d.c >= 0:
            return -1
    return None


def prove(goal, facts, max_k=4):
    """goal >= 0 as a sum of at most max_k facts (each fact >= 0) plus a
    non-negative constant; returns the facts used or None"""
    if not goal.t and goal.c >= 0:
        return []
    for k in range(1, max_k + 1):
        for combo in itertools.combinations(range(len(facts)), k):
            r = goal
            for i in combo:
                r = r - facts[i][0]
            if not r.t and r.c >= 0:
                return [facts[i][1] for i in combo]
    return None


def guard_facts(cnt, call, facts_out):
    """facts (Lin >= 0, text) implied by the `if` tests enclosing the call"""
    func = cnt.func
    node = call
    tests = []
    while node is not func:
        par = node.parent
        if isinstance(par, ast.If):
            if any(node is s for s in par.body):
                tests.append((par, True))
            elif any(node is s for s in par.orelse):
                tests.append((par, False))
        elif isinstance(par, (ast.While, ast.For, ast.Try)):
            raise AnalysisError("R16.3: draw inside a loop / try block")
        node = par
    for ifn, branch in tests:
        for e, truth in branch_facts(ifn.test, branch):
            f = compare_fact(cnt, e, truth, facts_out)
            if f is not None:
                facts_out.append(f + (ifn,))
    return [t for t, _ in tests]


def compare_fact(cnt, e, truth, facts):
    if isinstance(e, ast.Name) and truth:
        try:
            v = cnt.value(e)
        except (_Opaque, _Clamp):
            return None
        if any(a in cnt.nonneg for a in v.t) and len(v.t) == 1:
            return (v.shift(-1), f"{e.id} is non-zero")
        return None
    if not (isinstance(e, ast.Compare) and len(e.ops) == 1):
        return None
    try:
        a = cnt.value(e.left)
        b = cnt.value(e.comparators[0])
    except (_Opaque, _Clamp, AnalysisError):
        return None
    op = type(e.ops[0])
    if not truth:
        op = {ast.Lt: ast.GtE, ast.LtE: ast.Gt, ast.Gt: ast.LtE,
              ast.GtE: ast.Lt, ast.Eq: ast.NotEq, ast.NotEq: ast.Eq}.get(op)
    t = short(e, 40) if truth else f"not ({short(e, 40)})"
    if op is ast.Lt:
        return ((b - a).shift(-1), t)
    if op is ast.LtE:
        return (b - a, t)
    if op is ast.Gt:
        return ((a - b).shift(-1), t)
    if op is ast.GtE:
        return (a - b, t)
    return None


def r163(ctx, repo):
    n = 0
    for q, f in repo.all_functions(DS):
        cfg = None
        for c in walk(f):
            if not (isinstance(c, ast.Call) and (
                    call_name(c) or txt(c.func)).split(".")[-1] == "choice"):
                continue
            rep = kwarg(c, "replace", 2)
            if not (isinstance(rep, ast.Constant) and rep.value is False):
                continue        # with replacement any size is admissible
            pool = kwarg(c, "a", 0)
            size = kwarg(c, "size", 1)
            if pool is None or size is None:
                raise AnalysisError(f"{q}: choice() arguments not understood")
            n += 1
            if isinstance(size, ast.Name) and single_def(f, size.id) is None:
                # re-bound name: the binding that reaches the draw is the
                # nearest preceding assignment in the same block
                st0 = stmt_of(c)
                blk = st0.parent.body if st0 in getattr(
                    st0.parent, "body", []) else getattr(
                    st0.parent, "orelse", [])
                if st0 in blk:
                    for prev in reversed(blk[:blk.index(st0)]):
                        if isinstance(prev, ast.Assign) and txt(
                                prev.targets[0]) == size.id:
                            size = prev.value
                            break
                        if size.id in {x for t in ast.walk(prev)
                                       if isinstance(t, ast.Name)
                                       and isinstance(t.ctx, ast.Store)
                                       for x in [t.id]}:
                            break
            cnt = Counts(f)
            cnt.extra_facts = []
            facts = []
            tests = guard_facts(cnt, c, facts)
            plain = [(a, b) for a, b, _ in facts]
            lab = (f"size {short(size, 25)} <= pool "
                   f"{short(pool, 25)}")
            try:
                poolsize = cnt.size(pool) if not (
                    isinstance(pool, ast.Constant)) else cnt.value(pool)
            except _Opaque:
                raise AnalysisError(f"{q}: pool of choice() not understood")
            proof = None
            clamp = False
            try:
                alts = cnt.values(size, 0, plain)
            except _Clamp as cl:
                alts = []
                clamp = any(not (poolsize - a).t and (poolsize - a).c >= 0
                            for a in cl.args_lin)
                if not clamp:
                    alts = None
            except _Opaque:
                alts = None
            why = None
            used_tests = []
            if clamp:
                proof = ["size is clamped by the pool size with min()"]
            elif alts is None:
                why = f"size expression `{short(size, 40)}` is not bounded"
            else:
                proof = []
                for lin, fs in alts:
                    allf = plain + fs + cnt.struct_facts()
                    p = prove(poolsize - lin, allf)
                    if p is None:
                        why = (f"size = {lin}, pool size = {poolsize}: "
                               "size <= pool size does not follow from the "
                               "enclosing tests ["
                               + "; ".join(t for _, t in plain + fs) + "]")
                        proof = None
                        break
                    proof += p
                    used_tests += [t for (a, b, t) in facts if b in p]
            # premises: nothing the facts talk about changes between the
            # definitions / tests and the draw
            if proof is not None:
                cfg = cfg or CFG(f)
                st = stmt_of(c)
                ids = set(cfg.ids_of(st))
                starts = []     # (cfg id, names read there)
                for d in cnt.used_defs:
                    starts += [(i, names_in(d.value))
                               for i in cfg.ids_of(d)]
                for t in tests:
                    if any(t is u for u in used_tests):
                        starts += [(i, names_in(t.test))
                                   for i in cfg.ids_of(t)]
                tracked = cnt.masks | cnt.names
                for a, read in starts:
                    r = cfg.reach([a], avoid_node=lambda n_: n_.id in ids)
                    for name in sorted(read & tracked):
                        for s in stores_into(f, name):
                            sid = cfg.ids_of(s)
                            if a in sid:
                                continue
                            if any(i in r for i in sid) and any(
                                    i in cfg.reach(sid) for i in ids):
                                raise AnalysisError(
                                    f"{q}: `{short(s, 40)}` changes `{name}` "
                                    "between a count/test and the draw – "
                                    "bound cannot be decided")
            ok = proof is not None
            ctx.ob("R16.3", ok,
                   "size <= pool size follows from: " + (
                       "; ".join(dict.fromkeys(proof)) or "arithmetic")
                   if ok else
                   f"choice(replace=False) can ask for more than the pool "
                   f"holds (ValueError): {why}", node=c, label=lab)
    ctx.stat("R16.3 sites", n)


# ----------------------------------------------------------------------
# R16.2

def returns_of(func):
    return [n for n in walk(func) if isinstance(n, ast.Return)]


def mask_index(e):
    """(array name, mask name) of `A[M]`"""
    if isinstance(e, ast.Subscript) and isinstance(e.value, ast.Name) and (
            isinstance(e.slice, ast.Name) or (
                isinstance(e.slice, ast.UnaryOp) and isinstance(
                    e.slice.op, ast.Invert) and isinstance(
                    e.slice.operand, ast.Name))):
        return e.value.id, txt(e.slice)
    return None


def r162(ctx, repo):
    # ---------------- downsample_grid
    g = repo.func(DS, "downsample_grid")
    params = [a.arg for a in g.args.args]
    if params[:2] != ["a", "b"] and len(params) < 2:
        raise AnalysisError("downsample_grid: signature changed")
    A, B = params[0], params[1]
    rets = returns_of(g)
    if not rets:
        raise AnalysisError("downsample_grid: no return")
    cfg = CFG(g)
    masks = set()
    for r in rets:
        if not isinstance(r.value, ast.Tuple) or len(r.value.elts) not in (
                2, 3):
            raise AnalysisError("downsample_grid: return shape")
        el = r.value.elts
        res = []
        for e in el[:2]:
            if isinstance(e, ast.Name):
                d = single_def(g, e.id)
                if d is None:
                    raise AnalysisError(
                        f"downsample_grid: `{e.id}` has several definitions")
                res.append((mask_index(d.value), d))
            else:
                res.append((mask_index(e), r))
        ok = all(x[0] is not None for x in res) and res[0][0][0] == A \
            and res[1][0][0] == B and res[0][0][1] == res[1][0][1]
        m = res[0][0][1] if res[0][0] else None
        if len(el) == 3:
            ok = ok and isinstance(el[2], ast.Name) and el[2].id == m
        ctx.ob("R16.2", bool(ok),
               f"returns ({A}[{m}], {B}[{m}]"
               + (f", {m})" if len(el) == 3 else ")")
               + " – data and mask come from the same mask" if ok else
               f"`{short(r, 50)}` does not return ({A}[m], {B}[m], m) for "
               "one mask m", node=r, label=f"grid return {len(el)}")
        if ok:
            masks.add(m)
            # no store into the mask / inputs between extraction and return
            bad = None
            for (_, d) in res:
                if d is r:
                    continue
                for name in (m, A, B):
                    for s in stores_into(g, name):
                        if s is d:
                            continue
                        r1 = cfg.reach(cfg.ids_of(d))
                        if any(i in r1 for i in cfg.ids_of(s)) and any(
                                i in cfg.reach(cfg.ids_of(s))
                                for i in cfg.ids_of(r)):
                            bad = s
            ctx.ob("R16.2", bad is None,
                   "nothing is stored into the mask or the inputs between "
                   "the extraction and the return" if bad is None else
                   f"`{short(bad, 40)}` runs between the extraction of the "
                   "data and the return of the mask", node=r,
                   label=f"grid mask frozen {len(el)}")
    for name in (A, B):
        st = [s for s in stores_into(g, name)]
        ctx.ob("R16.2", not st,
               f"input `{name}` is never modified or rebound" if not st else
               f"`{short(st[0], 40)}` alters input `{name}`", node=st[0]
               if st else g, label=f"grid input {name} untouched")
    # compress / expand with the same validity mask
    if len(masks) == 1:
        m = masks.pop()
        comp = {}
        for n in walk(g):
            if isinstance(n, ast.Assign) and len(n.targets) == 1 \
                    and isinstance(n.targets[0], ast.Name):
                mi = mask_index(n.value)
                if mi and mi[0] in (A, B) and mi[1] != m:
                    comp[mi[0]] = (mi[1], n.targets[0].id)
        exp = [n for n in walk(g) if isinstance(n, ast.Assign)
               and len(n.targets) == 1 and mask_index(n.targets[0])
               and mask_index(n.targets[0])[0] == m
               and isinstance(n.value, ast.Name)]
        if set(comp) != {A, B} or len(exp) != 1:
            raise AnalysisError("downsample_grid: compression to the valid "
                                "events / expansion not recognised")
        gm = mask_index(exp[0].targets[0])[1]
        ok = comp[A][0] == comp[B][0] == gm
        return_early = False
        ctx.ob("R16.2", ok,
               f"valid events are extracted with `{gm}` from both inputs "
               "and the grid decision is written back through the same mask"
               if ok else
               f"inputs are compressed with ({comp[A][0]}, {comp[B][0]}) "
               f"but the decision is expanded through `{gm}`",
               node=exp[0], label="grid compress/expand")
        # the complement of the valid mask is excluded
        d = single_def(g, gm) if ok else None
        if not ok:
            return_early = True
        ok = d is not None and isinstance(d.value, ast.UnaryOp) \
            and isinstance(d.value.op, ast.Invert) and isinstance(
                d.value.operand, ast.Name)
        if ok:
            bm = d.value.operand.id
            excl = [n for n in walk(g) if isinstance(n, ast.Assign)
                    and mask_index(n.targets[0]) == (m, bm)
                    and txt(n.value) == "False"]
            bd = single_def(g, bm)
            covers = bd is not None and all(
                f"{fn}({v})" in txt(bd.value) for fn in ("np.isnan",
                                                         "np.isinf")
                for v in (A, B))
            ctx.ob("R16.2", bool(excl) and covers,
                   f"`{bm}` flags nan/inf of both inputs and those events "
                   "are excluded from the grid selection" if excl and covers
                   else f"invalid events (`{bm}`) are not excluded or the "
                   "validity test does not cover nan and inf of both inputs",
                   node=bd or g, label="grid invalid excluded")
        elif not return_early:
            raise AnalysisError("downsample_grid: validity mask definition")

    # ---------------- downsample_rand
    f = repo.func(DS, "downsample_rand")
    P = [a.arg for a in f.args.args]
    A = P[0]
    rets = returns_of(f)
    datav = maskv = None
    for r in rets:
        v = r.value
        if isinstance(v, ast.Tuple) and len(v.elts) == 2 and all(
                isinstance(e, ast.Name) for e in v.elts):
            datav, maskv = v.elts[0].id, v.elts[1].id
    if datav is None:
        raise AnalysisError("downsample_rand: (data, mask) return lost")
    ok = all((isinstance(r.value, ast.Name) and r.value.id == datav)
             or isinstance(r.value, ast.Tuple) for r in rets)
    ctx.ob("R16.2", ok, "both return forms deliver the same data" if ok
           else "the return without mask delivers different data",
           node=rets[0], label="rand returns agree", nontrivial=False)
    # every definition of the data is pool[keep] or the whole pool with an
    # all-True keep in the same branch
    ddefs = [s for s in assigns(f, datav)]
    if not ddefs:
        raise AnalysisError("downsample_rand: data definitions lost")
    keepv = None
    poolv = None
    for d in ddefs:
        blk = d.parent.body if d in getattr(d.parent, "body", []) \
            else d.parent.orelse
        mi = mask_index(d.value)
        if mi:
            poolv, keepv = mi
            kd = [s for s in blk if isinstance(s, ast.Assign)
                  and txt(s.targets[0]) == keepv]
            fill = [s for s in blk if isinstance(s, ast.Assign)
                    and isinstance(s.targets[0], ast.Subscript)
                    and txt(s.targets[0].value) == keepv
                    and txt(s.value) == "True"]
            draw = [c for s in blk for c in find_calls(s, attr="choice")]
            ok = len(kd) == 1 and isinstance(kd[0].value, ast.Call) and (
                call_name(kd[0].value) or "").endswith(
                ("zeros_like", "zeros")) and poolv in names_in(
                kd[0].value) and len(fill) == 1 and len(draw) == 1
            if ok:
                ids = fill[0].targets[0].slice
                idd = single_def(f, ids.id) if isinstance(ids, ast.Name) \
                    else None
                pop = kwarg(draw[0], "a", 0)
                ok = idd is not None and idd.value is draw[0] and txt(pop) \
                    in (f"np.arange({poolv}.size)",
                        f"np.arange({poolv}.shape[0])",
                        f"np.arange(len({poolv}))", f"{poolv}.size",
                        f"len({poolv})", f"{poolv}.shape[0]")
            ctx.ob("R16.2", bool(ok),
                   f"sampling branch: `{keepv}` starts all-False over the "
                   f"pool, is set at the drawn positions (indices of the "
                   f"pool) and the data are `{poolv}[{keepv}]`" if ok else
                   "sampling branch: mask is not zeros over the pool set at "
                   "indices drawn from range(len(pool))", node=d,
                   label="rand sampled mask")
        else:
            if not isinstance(d.value, ast.Name):
                raise AnalysisError("downsample_rand: data definition "
                                    f"`{short(d, 40)}` not understood")
            kd = [s for s in blk if isinstance(s, ast.Assign)
                  and isinstance(s.targets[0], ast.Name) and isinstance(
                      s.value, ast.Call) and (call_name(s.value) or ""
                                              ).endswith(("ones_like", "ones"))
                  and d.value.id in names_in(s.value)]
            ok = len(kd) == 1
            ctx.ob("R16.2", ok,
                   f"pass-through branch: all of `{d.value.id}` is returned "
                   "with an all-True mask" if ok else
                   "pass-through branch: the mask is not all-True over the "
                   "pool", node=d, label="rand full mask")
            if ok and keepv is None:
                keepv = kd[0].targets[0].id
            poolv = poolv or d.value.id
    # back-translation
    pdefs = assigns(f, poolv)
    comp = [s for s in pdefs if isinstance(s, ast.Assign) and isinstance(
        s.value, ast.Subscript) and txt(s.value.value) == A]
    plain = [s for s in pdefs if isinstance(s, ast.Assign)
             and txt(s.value) == A]
    if len(comp) != 1 or len(plain) != 1 or len(pdefs) != 2:
        raise AnalysisError("downsample_rand: pool definitions not "
                            "recognised")
    sel = txt(comp[0].value.slice)
    cif = comp[0].parent
    if not isinstance(cif, ast.If) or plain[0] not in cif.orelse:
        raise AnalysisError("downsample_rand: pool branch shape")
    wb = [s for s in walk(f) if isinstance(s, ast.Assign) and isinstance(
        s.targets[0], ast.Subscript) and txt(s.targets[0].value) == maskv
        and txt(s.value) == keepv]
    al = [s for s in walk(f) if isinstance(s, ast.Assign)
          and txt(s.targets[0]) == maskv and txt(s.value) == keepv]
    z = [s for s in walk(f) if isinstance(s, ast.Assign)
         and txt(s.targets[0]) == maskv and isinstance(s.value, ast.Call)
         and (call_name(s.value) or "").endswith(("zeros", "zeros_like"))
         and A in names_in(s.value)]
    ok = False
    why = "mask translation to the input positions not recognised"
    if len(wb) == 1 and len(al) == 1 and len(z) == 1:
        wif = wb[0].parent
        if isinstance(wif, ast.If) and wb[0] in wif.body and al[0] in \
                wif.orelse and z[0] in wif.body:
            if txt(wif.test) != txt(cif.test):
                why = (f"the pool is compressed under `{txt(cif.test)}` but "
                       f"the mask is expanded under `{txt(wif.test)}`")
            elif txt(wb[0].targets[0].slice) != sel:
                why = (f"the pool is `{A}[{sel}]` but the mask is written to "
                       f"`{maskv}[{txt(wb[0].targets[0].slice)}]`")
            else:
                seln = names_in(comp[0].value.slice)
                redefs = [s for nm in seln for s in stores_into(f, nm)
                          if s.lineno > comp[0].lineno]
                if redefs:
                    why = (f"`{short(redefs[0], 30)}` changes the validity "
                           "mask between compression and expansion")
                else:
                    ok = True
    elif not wb:
        why = ("the kept flags are not translated back to positions of the "
               "input (mask has the length of the pool, not of the input)")
    ctx.ob("R16.2", ok,
           f"with invalid values removed the pool is `{A}[{sel}]` and the "
           f"mask is an all-False array of the input's size with "
           f"`{maskv}[{sel}] = {keepv}`; otherwise the mask is `{keepv}`"
           if ok else why, node=wb[0] if wb else f,
           label="rand mask back-translation")
    st = stores_into(f, A)
    ctx.ob("R16.2", not st, f"input `{A}` is never modified or rebound"
           if not st else f"`{short(st[0], 40)}` alters the input",
           node=st[0] if st else f, label="rand input untouched")


# ----------------------------------------------------------------------
# R16.4

def r164(ctx, repo):
    n = 0
    for q, f in repo.all_functions(DS):
        for d in walk(f):
            if not (isinstance(d, ast.BinOp) and isinstance(
                    d.op, (ast.Div, ast.FloorDiv))):
                continue
            den = d.right
            src = den
            dn = None
            if isinstance(den, ast.Name):
                dn = den.id
                dd = single_def(f, dn)
                defs = assigns(f, dn)
                src = dd.value if dd is not None else None
                if src is None:
                    src = next((s.value for s in defs if isinstance(
                        s, ast.Assign) and _is_range(f, s.value)), None)
            if src is None or not _is_range(f, src):
                continue
            n += 1
            # guards
            names = {dn} if dn else set()
            names |= {x for x in names_in(src)}
            ok = False
            st = stmt_of(d)
            node = d
            while node is not f:
                par = node.parent
                if isinstance(par, ast.If) and names_in(par.test) & names \
                        and dn in names_in(par.test) | {None}:
                    ok = True
                if isinstance(par, ast.IfExp) and node is not par.test \
                        and (dn in names_in(par.test) if dn else True):
                    ok = True
                node = par
            if dn:
                for s in walk(f):
                    if isinstance(s, ast.If) and dn in names_in(s.test) \
                            and s.lineno < st.lineno and s is not st:
                        body = s.body
                        if any(isinstance(x, (ast.Return, ast.Raise))
                               for x in body) or any(
                                isinstance(x, ast.Assign) and txt(
                                    x.targets[0]) == dn for x in body):
                            ok = True
                # np.where / masked division idiom
                for c in walk(st):
                    if isinstance(c, ast.Call) and call_name(c) in (
                            "np.divide",) and kwarg(c, "where") is not None:
                        ok = True
            ctx.ob("R16.4", ok,
                   f"division by the data range `{short(den, 20)}` is "
                   "guarded against a zero range" if ok else
                   f"`{short(d, 50)}` divides by max - min of the data "
                   "without a zero guard: constant data give NaN, the cast "
                   "to an unsigned grid index is undefined (IndexError / "
                   "wrong cell)", node=d,
                   label=f"zero range {short(den, 20)}")
    ctx.stat("R16.4 range divisions", n)


def _is_range(func, e, depth=0):
    """max - min (or ptp) of data"""
    if depth > 3:
        return False
    if isinstance(e, ast.Call) and last_attr(e) == "ptp":
        return True
    if isinstance(e, ast.BinOp) and isinstance(e.op, ast.Sub):
        def ext(x, which):
            if isinstance(x, ast.Call) and last_attr(x) in which:
                return True
            if isinstance(x, ast.Name):
                d = single_def(func, x.id)
                return d is not None and ext(d.value, which)
            return False
        return ext(e.left, ("max", "nanmax", "amax")) and ext(
            e.right, ("min", "nanmin", "amin"))
    return False


# ----------------------------------------------------------------------
# R16.5

def _fresh(e):
    """parent-less copy of an expression (a deepcopy would follow the
    .parent links and copy the whole module)"""
    t = e if isinstance(e, str) else txt(e)
    try:
        return ast.parse(t, mode="eval").body
    except SyntaxError:
        return ast.parse(f"_[{t}]", mode="eval").body.slice


def split_tuple_assigns(func):
    """`a, b = (x, y)` -> `a = x; b = y` (when no target occurs in a value):
    helpers that return a tuple are inlined in this form"""
    from ..core import link

    def process(stmts):
        out = []
        for st in stmts:
            if isinstance(st, ast.Assign) and len(st.targets) == 1 \
                    and isinstance(st.targets[0], ast.Tuple) and isinstance(
                        st.value, ast.Tuple) and len(
                        st.targets[0].elts) == len(st.value.elts) and all(
                        isinstance(t, ast.Name) for t in st.targets[0].elts) \
                    and not any(
                        st.targets[0].elts[i].id in names_in(
                            st.value.elts[j])
                        for i in range(len(st.value.elts))
                        for j in range(len(st.value.elts)) if j != i):
                for t, v in zip(st.targets[0].elts, st.value.elts):
                    out.append(ast.copy_location(
                        ast.Assign(targets=[t], value=v), st))
                continue
            for fld in ("body", "orelse", "finalbody"):
                if isinstance(getattr(st, fld, None), list) and not \
                        isinstance(st, (ast.FunctionDef, ast.ClassDef)):
                    setattr(st, fld, process(getattr(st, fld)))
            out.append(st)
        return out
    parent = getattr(func, "parent", None)
    func.body = process(func.body)
    ast.fix_missing_locations(func)
    link(func)
    func.parent = parent
    return func


class _Expand(ast.NodeTransformer):
    def __init__(self, func, depth):
        self.func, self.depth = func, depth
        self.params = [a.arg for a in func.args.args]

    def visit_Name(self, node):
        if isinstance(node.ctx, ast.Load) and node.id not in self.params \
                and self.depth > 0:
            d = single_def(self.func, node.id)
            if d is not None and node.id not in names_in(d.value):
                return _Expand(self.func, self.depth - 1).visit(
                    _fresh(d.value))
        return node


def expand(func, e):
    """text of e with single-assignment locals (not parameters, not
    self-referential bindings) replaced by their values"""
    # (re-parsed: a deepcopy would follow the .parent links)
    return txt(_Expand(func, 5).visit(_fresh(e)))


def _num(e, env):
    """evaluate a numeric guard"""
    if isinstance(e, ast.Constant) and isinstance(e.value, (int, float)):
        return e.value
    if isinstance(e, ast.Name) and e.id in env:
        return env[e.id]
    if isinstance(e, ast.UnaryOp) and isinstance(e.op, ast.USub):
        return -_num(e.operand, env)
    if isinstance(e, ast.UnaryOp) and isinstance(e.op, ast.Not):
        return not _num(e.operand, env)
    if isinstance(e, ast.BoolOp):
        vals = [_num(v, env) for v in e.values]
        return all(vals) if isinstance(e.op, ast.And) else any(vals)
    if isinstance(e, ast.Call) and call_name(e) in ("int", "float") and len(
            e.args) == 1:
        return _num(e.args[0], env)
    if isinstance(e, ast.Compare):
        left = _num(e.left, env)
        for op, c in zip(e.ops, e.comparators):
            right = _num(c, env)
            r = {ast.Lt: left < right, ast.LtE: left <= right,
                 ast.Gt: left > right, ast.GtE: left >= right,
                 ast.Eq: left == right, ast.NotEq: left != right}.get(
                type(op))
            if r is None:
                raise AnalysisError("guard comparison not understood")
            if not r:
                return False
            left = right
        return True
    raise AnalysisError(f"guard `{short(e, 40)}` not understood")


def r165(ctx, repo):
    # extracted private helpers are read as part of the method; the scale
    # helper is an anchor and stays a call
    f = split_tuple_assigns(inline_helpers(repo, CORE, inline_tail_call(
        repo, CORE, repo.func(CORE, "RTDCBase.get_downsampled_scatter")),
        keep=("_apply_scale",)))
    calls = find_calls(f, attr="downsample_grid")
    if len(calls) != 1:
        raise AnalysisError("get_downsampled_scatter: downsample_grid call "
                            "lost")
    c = calls[0]
    st = stmt_of(c)
    if isinstance(st, ast.Assign) and isinstance(
            st.targets[0], ast.Tuple) and len(st.targets[0].elts) == 3 \
            and st.value is c:
        idx = txt(st.targets[0].elts[2])
    elif isinstance(st, ast.Assign) and isinstance(
            st.targets[0], ast.Name) and isinstance(
            st.value, ast.Subscript) and st.value.value is c and txt(
            st.value.slice) in ("2", "-1"):
        idx = st.targets[0].id          # third result picked by index
    else:
        raise AnalysisError("get_downsampled_scatter: result unpacking")
    # keyword arguments may come from a `**dict` literal
    star = {}
    for kw_ in c.keywords:
        if kw_.arg is None:
            d_ = single_def(f, kw_.value.id) if isinstance(
                kw_.value, ast.Name) else None
            if d_ is None or not isinstance(d_.value, ast.Dict) or not all(
                    isinstance(k_, ast.Constant) for k_ in d_.value.keys):
                raise AnalysisError("get_downsampled_scatter: keyword "
                                    "arguments of the sampler")
            star.update({k_.value: v_ for k_, v_ in zip(
                d_.value.keys, d_.value.values)})

    def ckw(name, pos=None):
        v_ = kwarg(c, name, pos)
        return star.get(name) if v_ is None else v_
    ri = ckw("ret_idx", 4)
    ok = ri is not None and expand(f, ri) == "True"
    ctx.ob("R16.5", ok, "the mask is requested (ret_idx=True) and taken "
           "from the third result" if ok else "ret_idx=True lost: the third "
           "result is not the mask", node=c, label="scatter asks mask")
    # data arguments: scaled versions of x, y selected by self.filter.all
    a0, a1 = ckw("a", 0), ckw("b", 1)
    if not (isinstance(a0, ast.Name) and isinstance(a1, ast.Name)):
        raise AnalysisError("get_downsampled_scatter: data arguments")

    scales = {}

    def origin(name):
        """(raw name, feature expr, selection expr)"""
        d = single_def(f, name)
        if d is None:
            raise AnalysisError(f"get_downsampled_scatter: `{name}`")
        v = d.value
        raw = name
        if isinstance(v, ast.Call) and last_attr(v) == "_apply_scale":
            scales[name] = kwarg(v, "scale", 1)
            a = kwarg(v, "a", 0)
            if not isinstance(a, ast.Name):
                raise AnalysisError("get_downsampled_scatter: _apply_scale")
            raw = a.id
            d = single_def(f, raw)
            if d is None:
                raise AnalysisError(f"get_downsampled_scatter: `{raw}`")
            v = d.value
        hops = 0
        while isinstance(v, ast.Name) and hops < 6:
            # `x = x__helper` left by an inlined helper
            d = single_def(f, v.id)
            if d is None:
                break
            v = d.value
            hops += 1
        if isinstance(v, ast.Subscript) and isinstance(
                v.value, ast.Subscript) and txt(v.value.value) == "self":
            return raw, expand(f, v.value.slice), expand(f, v.slice)
        raise AnalysisError("get_downsampled_scatter: data selection "
                            f"`{short(v, 40)}` not understood")
    x = origin(a0.id)
    y = origin(a1.id)
    params = [a.arg for a in f.args.args]
    ok = x[1] == params[1] and y[1] == params[2] and x[2] == y[2]
    ctx.ob("R16.5", ok,
           f"x = self[{x[1]}][{x[2]}], y = self[{y[1]}][{y[2]}]: both axes "
           "over the same selection, in (x, y) order" if ok else
           f"data handed to the sampler are self[{x[1]}][{x[2]}] and "
           f"self[{y[1]}][{y[2]}]", node=c, label="scatter data selection")
    if scales:
        if len(params) < 6 or set(scales) != {a0.id, a1.id}:
            raise AnalysisError("get_downsampled_scatter: scale arguments")
        got = (expand(f, scales[a0.id]) if scales[a0.id] is not None
               else None, expand(f, scales[a1.id])
               if scales[a1.id] is not None else None)
        ok = got == (params[4], params[5])
        ctx.ob("R16.5", ok,
               f"each axis is transformed with its own scale "
               f"({params[4]}, {params[5]}) before sampling" if ok else
               f"the axes are transformed with {got}, expected "
               f"({params[4]}, {params[5]}): validity (nan/inf after the "
               "transform) and the sampling grid of one axis follow the "
               "other axis' scale", node=c, label="scatter scale per axis")
    sel = x[2]
    ok = sel == "self.filter.all"
    ctx.ob("R16.5", ok, "the selection is the current event filter" if ok
           else f"the selection is `{sel}`, not self.filter.all", node=c,
           label="scatter selection is filter", nontrivial=False)
    sm = ckw("samples", 2)
    rm = ckw("remove_invalid", 3)
    ok = sm is not None and expand(f, sm) in (
        "downsample", "int(downsample)") and rm is not None \
        and expand(f, rm) == "remove_invalid"
    reb = [b_ for b_ in assigns(f, "remove_invalid")] + [
        b_ for b_ in assigns(f, "downsample") if not (
            isinstance(b_, ast.Assign) and txt(b_.value) in (
                "int(downsample)", "downsample"))]
    ctx.ob("R16.5", ok and not reb,
           "request size and invalid-handling reach the sampler as given"
           if ok and not reb else
           (f"`{short(reb[0], 50)}` changes the request before it reaches "
            "the sampler: e.g. invalid values produced by the axis scaling "
            "(log of non-positive data) are no longer removed although "
            "remove_invalid=True was asked for" if reb else
            "samples / remove_invalid are not forwarded unchanged"),
           node=reb[0] if reb else c, label="scatter forwards request")
    # the data handed out are not modified in place – nor through an alias
    # (`_apply_scale` can return its argument for a linear axis)
    scale_f = repo.func(CORE, "RTDCBase._apply_scale")
    sp0 = [a_.arg for a_ in scale_f.args.args][0]
    cal = {sp0}
    grew = True
    while grew:
        grew = False
        for n_ in walk(scale_f):
            if isinstance(n_, ast.Assign) and isinstance(
                    n_.value, ast.Name) and n_.value.id in cal:
                for t_ in n_.targets:
                    if isinstance(t_, ast.Name) and t_.id not in cal:
                        cal.add(t_.id)
                        grew = True
    may_alias = any(isinstance(r_.value, ast.Name) and r_.value.id in cal
                    for r_ in returns_of(scale_f))
    scope = [scale_f]
    for c_ in walk(scale_f):
        if isinstance(c_, ast.Call):
            nm = last_attr(c_) or ""
            if nm.startswith("_") and nm != scale_f.name:
                h_ = repo.func(CORE, nm, missing_ok=True) or repo.func(
                    CORE, "RTDCBase." + nm, missing_ok=True)
                if h_ is not None and h_ not in scope:
                    scope.append(h_)    # extracted part of the transform
    logs = [c_ for fn_ in scope for c_ in walk(fn_)
            if isinstance(c_, ast.Call) and (call_name(c_) or "").split(
                ".")[-1] in ("log", "log10", "log2", "log1p")]
    if not logs:
        raise AnalysisError("_apply_scale: log transform not found")
    narrow = [c_ for c_ in logs if any(
        kw.arg in ("dtype", "out", "casting", "signature")
        for kw in c_.keywords) or len(c_.args) > 1]
    cast = [n_ for fn_ in scope for n_ in walk(fn_)
            if isinstance(n_, ast.Call)
            and last_attr(n_) == "astype" and any(
                t_ in txt(n_) for t_ in ("float32", "float16", "half",
                                         "single"))]
    ctx.ob("R16.5", not narrow and not cast,
           "the log transform is computed in the precision of the data "
           "(no dtype / out argument, no narrowing cast)" if not narrow
           and not cast else
           f"`{short((narrow or cast)[0], 40)}` narrows the log transform: "
           "very small / large positive values become -inf / inf and are "
           "treated as invalid events (dropped or replaced)",
           node=(narrow or cast or logs)[0], label="scale keeps precision")
    for raw in (x[0], y[0]):
        al = {raw}
        changed = True
        while changed:
            changed = False
            for n_ in walk(f):
                if isinstance(n_, ast.Assign) and len(n_.targets) == 1 \
                        and isinstance(n_.targets[0], ast.Name):
                    t_, v_ = n_.targets[0].id, n_.value
                    src = None
                    if isinstance(v_, ast.Name):
                        src = v_.id
                    elif isinstance(v_, ast.Call) and last_attr(
                            v_) == "_apply_scale" and may_alias:
                        a_ = kwarg(v_, "a", 0)
                        src = a_.id if isinstance(a_, ast.Name) else None
                    elif isinstance(v_, ast.Call) and call_name(v_) in (
                            "np.asarray", "np.atleast_1d"):
                        src = v_.args[0].id if v_.args and isinstance(
                            v_.args[0], ast.Name) else None
                    if src in al and t_ not in al:
                        al.add(t_)
                        changed = True
                elif isinstance(n_, ast.For) and isinstance(
                        n_.target, ast.Name) and isinstance(
                        n_.iter, (ast.Tuple, ast.List)) and any(
                        isinstance(e_, ast.Name) and e_.id in al
                        for e_ in n_.iter.elts) and n_.target.id not in al:
                    al.add(n_.target.id)
                    changed = True
        hits = []
        for nm in sorted(al):
            for s_ in stores_into(f, nm):
                inplace = isinstance(s_, ast.AugAssign) or (
                    isinstance(s_, ast.Assign) and any(
                        isinstance(t_, (ast.Subscript, ast.Attribute))
                        and (t_.value.id if isinstance(
                            t_.value, ast.Name) else None) == nm
                        for t_ in s_.targets)) or isinstance(s_, ast.Expr)
                if inplace:
                    hits.append((nm, s_))
        ctx.ob("R16.5", not hits,
               f"`{raw}` (the filtered feature data handed out) is not "
               f"modified in place, nor through its aliases {sorted(al)}"
               if not hits else
               f"`{short(hits[0][1], 40)}` writes into `{hits[0][0]}`, "
               f"which can be the same array as `{raw}`"
               + (" (`_apply_scale` returns its argument for a linear axis)"
                  if hits[0][0] != raw else "")
               + f": the returned data differ from self[..][mask]",
               node=hits[0][1] if hits else c,
               label=f"scatter data {raw} unaltered")
    # every normal path to a return runs the sampler (no short-cut that
    # skips the request size / invalid handling)
    cfg = CFG(f)
    ids = set(cfg.ids_of(st))
    if not ids:
        raise AnalysisError("get_downsampled_scatter: sampler call not in "
                            "the CFG")
    ok = cfg.must_pass(lambda n_: n_.id in ids,
                       avoid_edge=lambda a_, lab, b_: lab == "x")
    ctx.ob("R16.5", ok,
           "every path to a return passes the downsample_grid call" if ok
           else "a path reaches the return without calling downsample_grid: "
           "the request size / remove_invalid handling of the sampler is "
           "bypassed (e.g. invalid events are returned although "
           "remove_invalid=True)", node=c, label="scatter always samples")
    # returns
    rets = returns_of(f)
    if not rets:
        raise AnalysisError("get_downsampled_scatter: no return")
    want_x = expand(f, f"{x[0]}[{idx}]")
    want_y = expand(f, f"{y[0]}[{idx}]")
    n3 = 0
    outs = []       # (statement, tuple handed out)
    for r in rets:
        if isinstance(r.value, ast.Tuple):
            outs.append((r, r.value))
        elif isinstance(r.value, ast.Name):
            bs = [b_ for b_ in assigns(f, r.value.id)
                  if isinstance(b_, ast.Assign) and isinstance(
                      b_.value, ast.Tuple)]
            if not bs or len(bs) != len(assigns(f, r.value.id)):
                raise AnalysisError("get_downsampled_scatter: return value "
                                    f"`{short(r, 40)}` not understood")
            outs += [(b_, b_.value) for b_ in bs]
        else:
            raise AnalysisError("get_downsampled_scatter: return value "
                                f"`{short(r, 40)}` not understood")
    for r, rv in outs:
        if len(rv.elts) not in (2, 3):
            raise AnalysisError("get_downsampled_scatter: return value "
                                f"`{short(r, 40)}` not understood")
        el = rv.elts
        ok = expand(f, el[0]) == want_x and expand(f, el[1]) == want_y
        ctx.ob("R16.5", ok,
               "returns the unscaled data under the sampler's mask" if ok
               else f"`{short(r, 50)}` = ({expand(f, el[0])}, "
               f"{expand(f, el[1])}) does not return ({x[0]}[{idx}], "
               f"{y[0]}[{idx}])", node=r,
               label=f"scatter return {len(el)}")
        if len(el) == 3:
            n3 += 1
            if not isinstance(el[2], ast.Name):
                raise AnalysisError("get_downsampled_scatter: mask "
                                    "expression not understood")
            mk = el[2].id
            while True:
                d = single_def(f, mk)
                if d is not None and isinstance(d.value, ast.Name):
                    mk = d.value.id
                    continue
                break
            binds = assigns(f, mk)
            alias = [b for b in binds if not (isinstance(b, ast.Assign)
                                              and isinstance(b.value,
                                                             ast.Call))]
            ctx.ob("R16.5", not alias,
                   "the dataset-level mask is a newly allocated array on "
                   "every path" if not alias else
                   f"`{short(alias[0], 40)}`: on this path the mask handed "
                   "out is not a new array (it aliases the sampler's result, "
                   "which the sampler caches: a caller that edits the mask "
                   "corrupts later calls)", node=alias[0] if alias else r,
                   label="scatter mask fresh")
            if alias:
                continue
            z = [s for s in walk(f) if isinstance(s, ast.Assign)
                 and txt(s.targets[0]) == mk and isinstance(
                     s.value, ast.Call)]
            wr = [s for s in walk(f) if isinstance(s, (ast.Assign,
                                                       ast.AugAssign))
                  and isinstance((s.targets[0] if isinstance(
                      s, ast.Assign) else s.target), ast.Subscript)
                  and txt((s.targets[0] if isinstance(s, ast.Assign)
                           else s.target).value) == mk]
            if len(z) != 1 or len(wr) != 1 or not isinstance(
                    wr[0], ast.Assign):
                raise AnalysisError("get_downsampled_scatter: construction "
                                    f"of the mask `{mk}` not understood")
            zc = z[0].value
            leaf = (call_name(zc) or "").split(".")[-1]
            sizes = ("len(self)", f"len({sel})", f"{sel}.size",
                     f"{sel}.shape[0]", f"{sel}.shape")
            if leaf == "zeros" and zc.args:
                if expand(f, zc.args[0]) not in sizes:
                    raise AnalysisError(
                        "get_downsampled_scatter: size of the mask "
                        f"`{short(zc, 40)}` not understood")
                dt = kwarg(zc, "dtype", 1)
                is_bool = dt is not None and txt(dt) in ("bool", "np.bool_")
            elif leaf == "zeros_like" and zc.args and expand(
                    f, zc.args[0]) == sel:
                dt = kwarg(zc, "dtype", 1)
                is_bool = dt is None or txt(dt) in ("bool", "np.bool_")
            else:
                raise AnalysisError("get_downsampled_scatter: allocation "
                                    f"of the mask `{short(zc, 40)}` not "
                                    "understood")
            t = expand(f, wr[0].targets[0].slice)
            ok = False
            if not is_bool:
                why = "the dataset-level mask is not a boolean array"
            elif expand(f, wr[0].value) != expand(f, idx):
                why = (f"`{short(wr[0], 40)}` does not write the "
                       "sampler's mask")
            elif t in (f"np.where({sel})[0]", sel,
                       f"np.nonzero({sel})[0]",
                       f"np.flatnonzero({sel})"):
                ok = True
                why = ""
            else:
                why = (f"the mask is written at `{t}`, the data were "
                       f"selected with `{sel}`")
            ctx.ob("R16.5", ok,
                   f"the dataset-level mask is all-False of len(self) with "
                   f"the sampler's mask written at the positions of `{sel}`"
                   if ok else why, node=wr[0],
                   label="scatter mask write-back")
    if not n3:
        raise AnalysisError("get_downsampled_scatter: no return carries the "
                            "mask")
    # negative request rejected (evaluated: true for -1, false for 0 and 1)
    neg = []
    for n in walk(f):
        if isinstance(n, ast.If) and "downsample" in names_in(n.test) \
                and names_in(n.test) <= {"downsample", "int", "float"} \
                and any(isinstance(s, ast.Raise) for s in n.body):
            if _num(n.test, {"downsample": -1}) and not _num(
                    n.test, {"downsample": 0}) and not _num(
                    n.test, {"downsample": 1}):
                neg.append(n)
    ctx.ob("R16.5", bool(neg), "negative requests are rejected" if neg else
           "negative requests are no longer rejected (np.uint32 wraps)",
           node=neg[0] if neg else f, label="scatter rejects negative",
           nontrivial=False)


FILT = "dclab/rtdc_dataset/filter.py"


def _self_store_attrs(node):
    """attributes of self that the statements store into"""
    out = []
    for n in walk(node):
        tg = []
        if isinstance(n, ast.Assign):
            tg = n.targets
        elif isinstance(n, (ast.AugAssign, ast.AnnAssign)):
            tg = [n.target]
        elif isinstance(n, ast.Delete):
            tg = n.targets
        for t in tg:
            for x in (t.elts if isinstance(t, (ast.Tuple, ast.List))
                      else [t]):
                b = x
                while isinstance(b, ast.Subscript):
                    b = b.value
                if isinstance(b, ast.Attribute) and isinstance(
                        b.value, ast.Name) and b.value.id == "self":
                    out.append((b.attr, n))
        if isinstance(n, ast.Call) and isinstance(n.func, ast.Attribute) \
                and n.func.attr in ("update", "append", "pop", "clear",
                                    "setdefault", "add", "extend", "remove",
                                    "insert") and isinstance(
                n.func.value, ast.Attribute) and isinstance(
                n.func.value.value, ast.Name) \
                and n.func.value.value.id == "self":
            out.append((n.func.value.attr, n))
    return out


def _self_reads(n):
    """attribute names of self read by this node"""
    if isinstance(n, ast.Attribute) and isinstance(
            n.value, ast.Name) and n.value.id == "self" and isinstance(
            n.ctx, ast.Load):
        return [n.attr]
    if isinstance(n, ast.Call) and call_name(n) in ("getattr", "hasattr") \
            and len(n.args) >= 2 and txt(n.args[0]) == "self" \
            and isinstance(n.args[1], ast.Constant):
        return [n.args[1].value]
    return []


def r166(ctx, repo):
    """the event limit is drawn from the current selection on every update:
    the limit block keeps nothing on the Filter instance that an update
    reads"""
    upd = split_tuple_assigns(inline_helpers(
        repo, FILT, repo.func(FILT, "Filter.update"),
        keep=("_init_rtdc_ds", "_get_rw_array")))
    calls = find_calls(upd, attr="downsample_rand")
    if len(calls) != 1:
        raise AnalysisError("Filter.update: event-limit draw lost")
    c = calls[0]
    block = None
    n = c
    while n is not upd:
        par = n.parent
        if isinstance(par, ast.If) and "limit events" in expand(
                upd, par.test) and any(n is s_ for s_ in par.body):
            block = par
        n = par
    if block is None:
        raise AnalysisError("Filter.update: `limit events` block around the "
                            "draw not found")
    body = ast.Module(body=block.body, type_ignores=[])
    stores = _self_store_attrs(body)
    cls = upd.parent
    readers = {}
    for nn in walk(upd):
        for a in _self_reads(nn):
            readers.setdefault(a, nn)
    del cls
    bad = [(a, n_) for a, n_ in stores if a in readers]
    ctx.ob("R16.6", not bad,
           "the event-limit block stores nothing on the Filter instance "
           "that update() reads: the selection is drawn from the current "
           "eligible events on every update" if not bad else
           f"the event-limit block stores `self.{bad[0][0]}` "
           f"(`{short(bad[0][1], 40)}`) and update() reads it "
           f"(`{short(stmt_of(readers[bad[0][0]]), 40)}`): the limited "
           "selection depends on earlier updates – a changed eligible set "
           "does not get its own draw", node=bad[0][1] if bad else block,
           label="limit block stateless")
    # the limit is the last narrowing step: nothing removes events from
    # the selection after the draw (the draw must see the final pool)
    pool = kwarg(c, "a", 0)
    pv = pool
    if isinstance(pv, ast.Name):
        d = single_def(upd, pv.id)
        pv = d.value if d is not None else pv
    # strip copies: arr[arr].copy(), np.array(arr[arr])
    while isinstance(pv, ast.Call) and (
            (last_attr(pv) == "copy" and isinstance(pv.func, ast.Attribute))
            or call_name(pv) in ("np.array", "np.copy")):
        pv = pv.func.value if last_attr(pv) == "copy" and isinstance(
            pv.func, ast.Attribute) and not pv.args else pv.args[0]
    base = pv
    while isinstance(base, (ast.Subscript, ast.Attribute)):
        if isinstance(base, ast.Attribute) and isinstance(
                base.value, ast.Name) and base.value.id == "self":
            break
        base = base.value
    state = isinstance(base, ast.Attribute)
    fresh_sel = isinstance(pv, ast.Subscript) and isinstance(
        pv.value, ast.Name) and isinstance(pv.slice, ast.Name) \
        and pv.slice.id == pv.value.id
    if not state and not fresh_sel:
        raise AnalysisError("Filter.update: pool of the event-limit draw "
                            f"`{short(pv, 40)}` not understood")
    ctx.ob("R16.6", fresh_sel,
           f"the pool of the draw is `{short(pv, 30)}`, a fresh copy of the "
           "currently selected events (boolean-mask indexing)" if fresh_sel
           else f"the pool of the draw is `{short(pv, 40)}`, state of the "
           "Filter instance that survives the call (a slice is a view): "
           "`False` written into it by earlier updates is still there – the "
           "limited selection depends on the history", node=c,
           label="limit pool is a fresh selection")
    if not fresh_sel:
        return
    arr = pv.value.id
    cfg = CFG(upd)
    last = block.body[-1]
    after = cfg.reach(cfg.ids_of(last),
                      avoid_edge=lambda a_, lab, b_: lab == "x")
    inblock = {id(n_) for n_ in walk(body)}
    late = [s_ for s_ in stores_into(upd, arr)
            if id(s_) not in inblock and any(
                i in after for i in cfg.ids_of(s_))]
    ctx.ob("R16.6", not late,
           f"nothing narrows `{arr}` after the event limit was applied"
           if not late else
           f"`{short(late[0], 40)}` changes the selection after the event "
           "limit was drawn: the draw is taken from a pool that still "
           "contains events removed afterwards (fewer than `limit events` "
           "pass although enough eligible events exist)",
           node=late[0] if late else block, label="limit applied last")
    # the draw is not skipped depending on instance state
    cond = None
    n = c
    while n is not block.parent:
        par = n.parent
        if isinstance(par, ast.If) and any(
                _self_reads(x) for x in ast.walk(par.test)):
            cond = par
        n = par
    ctx.ob("R16.6", cond is None,
           "the draw inside the limit block does not depend on instance "
           "state" if cond is None else
           f"the draw is skipped depending on `{short(cond.test, 40)}` "
           "(state of the Filter instance)", node=cond or c,
           label="limit draw unconditional")


HIER = "dclab/rtdc_dataset/fmt_hierarchy/base.py"
CONF = "dclab/rtdc_dataset/config.py"


def r166_writers(ctx, repo):
    """who may write the event limit: the `limit events` key of a dataset's
    configuration is set by the configuration code (defaults, user input)
    only – no dataset code (hierarchy update, apply_filter paths) stores it
    or overwrites the whole [filtering] section"""
    sites, section = [], []
    for rel in repo.files("dclab/"):
        src = repo.src(rel)
        if "limit events" not in src and "filtering" not in src:
            continue
        tree = repo.tree(rel)
        for n in ast.walk(tree):
            tg = []
            if isinstance(n, ast.Assign):
                tg = n.targets
            elif isinstance(n, (ast.AugAssign, ast.AnnAssign)):
                tg = [n.target]
            elif isinstance(n, ast.Delete):
                tg = n.targets
            for t in tg:
                if isinstance(t, ast.Subscript) and isinstance(
                        t.slice, ast.Constant):
                    if t.slice.value == "limit events":
                        sites.append((rel, n))
                    elif t.slice.value == "filtering" and not isinstance(
                            n, ast.Delete):
                        section.append((rel, n))
                elif isinstance(t, ast.Subscript) and isinstance(
                        t.value, ast.Subscript) and isinstance(
                        t.value.slice, ast.Constant) \
                        and t.value.slice.value == "filtering" \
                        and not isinstance(n, ast.Delete):
                    section.append((rel, n))   # [filtering][<variable key>]
            if isinstance(n, ast.Call) and isinstance(
                    n.func, ast.Attribute) and n.func.attr in (
                    "update", "setdefault", "pop", "clear"):
                recv = n.func.value
                on_filtering = isinstance(recv, ast.Subscript) and isinstance(
                    recv.slice, ast.Constant) and recv.slice.value == \
                    "filtering"
                keyed = any(isinstance(a, ast.Constant)
                            and a.value == "limit events" for a in n.args) \
                    or any(isinstance(a, ast.Dict) and any(
                        isinstance(k, ast.Constant)
                        and k.value == "limit events" for k in a.keys)
                        for a in n.args) or any(
                        kw.arg == "limit events" for kw in n.keywords)
                if keyed and n.func.attr != "get":
                    sites.append((rel, n))
                elif on_filtering and n.func.attr in ("update", "clear"):
                    section.append((rel, n))
    outside = []
    for rel, n in sites:
        st = n
        while not isinstance(st, ast.stmt):
            st = st.parent
        if rel != CONF:
            outside.append((rel, st))
    ctx.stat("R16.6 writers of 'limit events' in config.py",
             len(sites) - len(outside))
    ctx.ob("R16.6", not outside,
           "the event limit is written by the configuration code only "
           "(defaults / user input)" if not outside else
           f"`{short(outside[0][1], 50)}` ({outside[0][0]}) overwrites the "
           "dataset's own [filtering] 'limit events': the limit the user "
           "set on this dataset is replaced (e.g. a hierarchy child "
           "silently follows its parent) and the number of events returned "
           "no longer matches the request",
           node=outside[0][1] if outside else None,
           key="dclab::[filtering] limit events::written by config code only")
    bad = [(rel, n) for rel, n in section if rel != CONF]
    ctx.ob("R16.6", not bad,
           "no dataset code replaces the whole [filtering] section" if not
           bad else f"`{short(bad[0][1], 50)}` ({bad[0][0]}) replaces the "
           "[filtering] section including 'limit events'",
           node=bad[0][1] if bad else None,
           key="dclab::[filtering] section::not replaced outside config.py")


def run(ctx):
    repo = ctx.repo
    ctx.rule("R16.1", "every random draw follows a reset of the state to a "
             "literal seed (no draw in between); choice without replacement",
             minimum=8)
    ctx.rule("R16.2", "returned data = input[mask] for the returned mask; "
             "compression and expansion use one validity mask; inputs "
             "untouched", minimum=13)
    ctx.rule("R16.3", "size <= pool size for every choice(replace=False), "
             "derived from the enclosing guards", minimum=4)
    ctx.rule("R16.4", "division by the data range is guarded against zero",
             minimum=1)
    ctx.rule("R16.5", "get_downsampled_scatter: same selection for data "
             "and mask write-back, unscaled data under the sampler's mask; "
             "every path samples; the mask is a new array; per-axis scale; "
             "returned data unaltered (aliases through _apply_scale); log "
             "transform not narrowed", minimum=14)
    ctx.rule("R16.6", "the event-limit block of Filter.update keeps no "
             "state on the instance that a later update reads; the draw does "
             "not depend on instance state; the limit is the last narrowing "
             "step; the pool is a fresh selection; only configuration code "
             "writes the limit", minimum=6)
    r161(ctx, repo)
    r162(ctx, repo)
    r163(ctx, repo)
    r164(ctx, repo)
    r165(ctx, repo)
    r166(ctx, repo)
    r166_writers(ctx, repo)


MUTANTS = [
    ("rand: state reset removed", DS,
     ("    rs = np.random.RandomState(seed=47).get_state()\n"
      "    np.random.set_state(rs)\n\n    cdef uint32 samples_int",
      "    rs = np.random.RandomState(seed=47).get_state()\n\n"
      "    cdef uint32 samples_int"), "R16.1"),
    ("rand: sampling with replacement", DS,
     ("                                    size=samples_int,\n"
      "                                    replace=False)",
      "                                    size=samples_int)"), "R16.1"),
    ("grid: reset missing before the removal draw", DS,
     ("            rem_indices = np.where(keepdb)[0]\n"
      "            np.random.set_state(rs)\n",
      "            rem_indices = np.where(keepdb)[0]\n"), "R16.1"),
    ("grid: padding draw continues the previous stream", DS,
     ("            add_indices_bad = np.where(bad)[0]\n"
      "            np.random.set_state(rs)\n",
      "            add_indices_bad = np.where(bad)[0]\n"), "R16.1"),
    ("grid: state taken from the live generator", DS,
     ("    rs = np.random.RandomState(seed=47).get_state()\n\n"
      "    keep = np.ones_like(a, dtype=bool)",
      "    rs = np.random.get_state()\n\n"
      "    keep = np.ones_like(a, dtype=bool)"), "R16.1"),
    ("grid: seed from the request", DS,
     ("    rs = np.random.RandomState(seed=47).get_state()\n\n"
      "    keep = np.ones_like(a, dtype=bool)",
      "    rs = np.random.RandomState(seed=samples_int).get_state()\n\n"
      "    keep = np.ones_like(a, dtype=bool)"), "R16.1"),
    ("grid: addition draw with replacement", DS,
     ("                                   size=abs(diff),\n"
      "                                   replace=False)",
      "                                   size=abs(diff),\n"
      "                                   replace=True)"), "R16.1"),
    ("grid: second array taken with the stale mask", DS,
     ("    bsd = b[keep]\n", "    bsd = b[good]\n"), "R16.2"),
    ("grid: mask changed after extraction", DS,
     ("    bsd = b[keep]\n", "    bsd = b[keep]\n    keep[bad] = False\n"),
     "R16.2"),
    ("grid: returns the grid-domain mask", DS,
     ("        return asd, bsd, keep\n", "        return asd, bsd, good\n"),
     "R16.2"),
    ("grid: decision expanded through the wrong mask", DS,
     ("        keep[good] = keepdb\n", "        keep[~good] = keepdb\n"),
     "R16.2"),
    ("grid: inf not treated as invalid", DS,
     ("    bad = np.isnan(a) | np.isinf(a) | np.isnan(b) | np.isinf(b)\n"
      "    good = ~bad",
      "    bad = np.isnan(a) | np.isnan(b)\n    good = ~bad"), "R16.2"),
    ("grid: invalid events stay selected", DS,
     ("    keep[bad] = False\n", ""), "R16.2"),
    ("rand: mask not translated back", DS,
     ("        idx = np.zeros(a.size, dtype=bool)\n"
      "        idx[~bad] = keep\n", "        idx = keep\n"), "R16.2"),
    ("rand: mask written to the invalid positions", DS,
     ("        idx[~bad] = keep\n", "        idx[bad] = keep\n"), "R16.2"),
    ("rand: data are the drawn indices", DS,
     ("        dsa = pool[keep]\n", "        dsa = pool[keep_ids]\n"),
     "R16.2"),
    ("rand: pass-through branch with empty mask", DS,
     ("        keep = np.ones_like(pool, dtype=bool)\n        dsa = pool\n",
      "        keep = np.zeros_like(pool, dtype=bool)\n        dsa = pool\n"),
     "R16.2"),
    ("rand: indices drawn from the input instead of the pool", DS,
     ("np.random.choice(np.arange(pool.size),",
      "np.random.choice(np.arange(a.size),"), "R16.2"),
    ("rand: size guard dropped", DS,
     ("    if samples_int and (samples_int < pool.shape[0]):",
      "    if samples_int:"), "R16.3"),
    ("rand: size guard against the unfiltered input", DS,
     ("    if samples_int and (samples_int < pool.shape[0]):",
      "    if samples_int and (samples_int < a.shape[0]):"), "R16.3"),
    ("grid: guard on the request dropped", DS,
     ("    if samples_int and samples_int < ad.size:",
      "    if samples_int:"), "R16.3"),
    ("grid: removal draws from the not-kept events", DS,
     ("            rem_indices = np.where(keepdb)[0]\n",
      "            rem_indices = np.where(~keepdb)[0]\n"), "R16.3"),
    ("grid: addition sized by the request instead of the shortfall", DS,
     ("                                   size=abs(diff),\n",
      "                                   size=samples_int,\n"), "R16.3"),
    ("scatter: request-size short-cut skips the sampler (seeded C16_4)",
     CORE,
     ("        _, _, idx = downsampling.downsample_grid(xs, ys,\n"
      "                                                 samples=downsample,\n"
      "                                                 remove_invalid="
      "remove_invalid,\n"
      "                                                 ret_idx=True)\n",
      "        if downsample >= x.size:\n"
      "            idx = np.ones(x.size, dtype=bool)\n"
      "        else:\n"
      "            _, _, idx = downsampling.downsample_grid(\n"
      "                xs, ys, samples=downsample,\n"
      "                remove_invalid=remove_invalid, ret_idx=True)\n"),
     "R16.5"),
    ("scatter: mask aliases the sampler's array (seeded C16_6)", CORE,
     ("            mask = np.zeros(len(self), dtype=bool)\n"
      "            mids = np.where(self.filter.all)[0]\n"
      "            mask[mids] = idx\n",
      "            if idx.size == len(self):\n"
      "                mask = idx\n"
      "            else:\n"
      "                mask = np.zeros(len(self), dtype=bool)\n"
      "                mids = np.where(self.filter.all)[0]\n"
      "                mask[mids] = idx\n"), "R16.5"),
    ("limit: selection memoised on the instance (seeded C16_5)", FILT,
     [("        self._old_config = {}\n\n    def update(",
       "        self._old_config = {}\n"
       "        self._limit_cache = (None, None)\n\n    def update("),
      ("                sub = arr_all[arr_all]\n                _, idx = downsampling.downsample_rand(sub,\n                                                      samples=limit,\n                                                      ret_idx=True)\n                sub[~idx] = False\n                arr_all[arr_all] = sub\n",
       "                lkey = (limit, int(np.sum(arr_all)))\n"
       "                if self._limit_cache[0] == lkey:\n"
       "                    arr_all &= self._limit_cache[1]\n"
       "                else:\n"
       "                    sub = arr_all[arr_all]\n"
       "                    _, idx = downsampling.downsample_rand(\n"
       "                        sub, samples=limit, ret_idx=True)\n"
       "                    sub[~idx] = False\n"
       "                    arr_all[arr_all] = sub\n"
       "                    self._limit_cache = (lkey, arr_all.copy())\n")],
     "R16.6"),
    ("limit: drawn only on the first update of an instance", FILT,
     [("            if cfg_cur[\"limit events\"] > 0:\n",
       "            if cfg_cur[\"limit events\"] > 0 and not getattr(\n"
       "                    self, \"_limited\", False):\n"),
      ("                arr_all[arr_all] = sub\n",
       "                arr_all[arr_all] = sub\n"
       "                self._limited = True\n")], "R16.6"),
    ("scatter: inf replaced in place in the scaled arrays (seeded C16_9)",
     CORE,
     ("        ys = RTDCBase._apply_scale(y, yscale, yax)\n",
      "        ys = RTDCBase._apply_scale(y, yscale, yax)\n"
      "        for sc in (xs, ys):\n"
      "            if sc.dtype.kind == \"f\":\n"
      "                sc[np.isinf(sc)] = np.nan\n", 0), "R16.5"),
    ("scatter: nan replaced in the data handed out", CORE,
     ("        xs = RTDCBase._apply_scale(x, xscale, xax)\n",
      "        x[np.isnan(x)] = 0\n"
      "        xs = RTDCBase._apply_scale(x, xscale, xax)\n", 0), "R16.5"),
    ("limit: pool is a persistent buffer of the instance", FILT,
     [("        self._old_config = {}\n\n    def update(",
       "        self._old_config = {}\n"
       "        self._limit_buffer = np.ones(self.size, dtype=bool)\n\n"
       "    def update("),
      ("                sub = arr_all[arr_all]\n",
       "                sub = self._limit_buffer[:np.sum(arr_all)]\n")],
     "R16.6"),
    ("hierarchy child follows the parent's event limit (seeded C16_12)",
     HIER,
     ("            self.hparent.filter.all)\n        # calculation\n",
      "            self.hparent.filter.all)\n"
      "        plimit = self.hparent.config[\"filtering\"][\"limit events\"]"
      "\n        if plimit != getattr(self, \"_hparent_limit\", plimit):\n"
      "            self.config[\"filtering\"][\"limit events\"] = plimit\n"
      "        self._hparent_limit = plimit\n        # calculation\n"),
     "R16.6"),
    ("hierarchy child copies the parent's filtering section", HIER,
     ("            self.hparent.filter.all)\n        # calculation\n",
      "            self.hparent.filter.all)\n"
      "        self.config[\"filtering\"].update(\n"
      "            self.hparent.config[\"filtering\"])\n"
      "        # calculation\n"), "R16.6"),
    ("log transform in single precision (seeded C16_14)", CORE,
     ("                b = np.log(a)\n",
      "                b = np.log(a, dtype=np.float32)\n"), "R16.5"),
    ("scatter: remove_invalid overridden by the filter setting "
     "(seeded C16_16)", CORE,
     ("        _, _, idx = downsampling.downsample_grid(xs, ys,\n",
      "        if self.config[\"filtering\"][\"remove invalid events\"]:\n"
      "            remove_invalid = False\n"
      "        _, _, idx = downsampling.downsample_grid(xs, ys,\n"),
     "R16.5"),
    ("scatter: y scaled with the x scale", CORE,
     ("        ys = RTDCBase._apply_scale(y, yscale, yax)\n",
      "        ys = RTDCBase._apply_scale(y, xscale, yax)\n", 0), "R16.5"),
    ("limit: manual exclusions applied after the draw", FILT,
     [("arr_all[:] = arr_box & arr_invalid & arr_polygon & self.manual",
       "arr_all[:] = arr_box & arr_invalid & arr_polygon"),
      ("                arr_all[arr_all] = sub\n",
       "                arr_all[arr_all] = sub\n"
       "            arr_all &= self.manual\n")], "R16.6"),
    ("scatter: mask written at unfiltered positions", CORE,
     ("            mids = np.where(self.filter.all)[0]\n",
      "            mids = np.where(self.filter.manual)[0]\n"), "R16.5"),
    ("scatter: returns scaled data", CORE,
     ("            return x[idx], y[idx], mask\n",
      "            return xs[idx], ys[idx], mask\n"), "R16.5"),
    ("scatter: y taken without the filter", CORE,
     ("        y = self[yax][self.filter.all]\n",
      "        y = self[yax][:]\n", 0), "R16.5"),
    ("scatter: axes swapped into the sampler", CORE,
     ("        _, _, idx = downsampling.downsample_grid(xs, ys,",
      "        _, _, idx = downsampling.downsample_grid(xs, xs,"), "R16.5"),
    ("scatter: remove_invalid not forwarded", CORE,
     ("                                                 remove_invalid="
      "remove_invalid,\n", ""), "R16.5"),
]

TWINS = [
    ("rand: local seeded generator", DS,
     [("    rs = np.random.RandomState(seed=47).get_state()\n"
       "    np.random.set_state(rs)\n\n    cdef uint32 samples_int",
       "    rng = np.random.RandomState(seed=47)\n\n"
       "    cdef uint32 samples_int"),
      ("        keep_ids = np.random.choice(np.arange(pool.size),",
       "        keep_ids = rng.choice(np.arange(pool.size),")]),
    ("rand: guard written the other way round", DS,
     ("    if samples_int and (samples_int < pool.shape[0]):",
      "    if samples_int and (pool.size > samples_int):")),
    ("grid: reset via np.random.seed", DS,
     ("            rem_indices = np.where(keepdb)[0]\n"
      "            np.random.set_state(rs)\n",
      "            rem_indices = np.where(keepdb)[0]\n"
      "            np.random.seed(47)\n")),
    ("grid: inline extraction in the return", DS,
     ("        return asd, bsd, keep\n",
      "        return a[keep], b[keep], keep\n")),
    ("grid: removal size recomputed inline", DS,
     ("                                   size=diff,\n",
      "                                   size=np.sum(keepdb) - samples_int,"
      "\n")),
    ("limit: locals renamed, selected count kept in a local", FILT,
     ("                sub = arr_all[arr_all]\n                _, idx = downsampling.downsample_rand(sub,\n                                                      samples=limit,\n                                                      ret_idx=True)\n                sub[~idx] = False\n                arr_all[arr_all] = sub\n",
      "                selected = arr_all[arr_all]\n"
      "                n_selected = selected.size\n"
      "                _, drawn = downsampling.downsample_rand(\n"
      "                    selected, samples=limit, ret_idx=True)\n"
      "                assert drawn.size == n_selected\n"
      "                selected[~drawn] = False\n"
      "                arr_all[arr_all] = selected\n")),
    ("scatter: mask allocated before the branch", CORE,
     ("        if ret_mask:\n"
      "            # Mask is a boolean array of len(self)\n"
      "            mask = np.zeros(len(self), dtype=bool)\n",
      "        # Mask is a boolean array of len(self)\n"
      "        mask = np.zeros(len(self), dtype=bool)\n"
      "        if ret_mask:\n")),
    ("limit: pool copied explicitly", FILT,
     ("                sub = arr_all[arr_all]\n",
      "                sub = arr_all[arr_all].copy()\n")),
    ("scatter: inf replaced in private copies of the scaled arrays", CORE,
     ("        ys = RTDCBase._apply_scale(y, yscale, yax)\n",
      "        ys = RTDCBase._apply_scale(y, yscale, yax)\n"
      "        xs_finite = np.array(xs, dtype=float, copy=True)\n"
      "        xs_finite[np.isinf(xs_finite)] = np.nan\n", 0)),
    ("scatter: positions via flatnonzero", CORE,
     ("            mids = np.where(self.filter.all)[0]\n",
      "            mids = np.flatnonzero(self.filter.all)\n")),
    ("scatter: boolean write-back", CORE,
     ("            mids = np.where(self.filter.all)[0]\n"
      "            mask[mids] = idx\n",
      "            mask[self.filter.all] = idx\n")),
    ('refactoring: scatter results bound to locals, mirrored guard', CORE,
     [('        if downsample < 0:\n', '        if 0 > downsample:\n'),
      ('        if ret_mask:\n'
       '            # Mask is a boolean array of len(self)\n'
       '            mask = np.zeros(len(self), dtype=bool)\n'
       '            mids = np.where(self.filter.all)[0]\n'
       '            mask[mids] = idx\n'
       '            return x[idx], y[idx], mask\n'
       '        else:\n'
       '            return x[idx], y[idx]\n',
       '        # Downsampled data (taken from the unscaled arrays)\n'
       '        xnew = x[idx]\n'
       '        ynew = y[idx]\n'
       '\n'
       '        if ret_mask:\n'
       '            # Mask is a boolean array of len(self)\n'
       '            mask = np.zeros(len(self), dtype=bool)\n'
       '            mids = np.where(self.filter.all)[0]\n'
       '            mask[mids] = idx\n'
       '            return xnew, ynew, mask\n'
       '        else:\n'
       '            return xnew, ynew\n')]),
    ('refactoring: mask translation extracted into a private method', CORE,
     [('            # Mask is a boolean array of len(self)\n'
       '            mask = np.zeros(len(self), dtype=bool)\n'
       '            mids = np.where(self.filter.all)[0]\n'
       '            mask[mids] = idx\n'
       '            return x[idx], y[idx], mask\n'
       '        else:\n'
       '            return x[idx], y[idx]\n',
       '            mask = self._filtered_mask_to_dataset_mask(idx)\n'
       '            return x[idx], y[idx], mask\n'
       '        else:\n'
       '            return x[idx], y[idx]\n'
       '\n'
       '    def _filtered_mask_to_dataset_mask(self, idx):\n'
       '        """Translate a mask over the filtered events to a dataset '
       'mask\n'
       '\n'
       '        Parameters\n'
       '        ----------\n'
       '        idx: 1d boolean ndarray of length `np.sum(self.filter.all)`\n'
       '            Selection among the events that pass `self.filter.all`\n'
       '\n'
       '        Returns\n'
       '        -------\n'
       '        mask: 1d boolean ndarray of length `len(self)`\n'
       '            `True` for those events of the dataset selected by `idx`\n'
       '        """\n'
       '        # Mask is a boolean array of len(self)\n'
       '        mask = np.zeros(len(self), dtype=bool)\n'
       '        mids = np.where(self.filter.all)[0]\n'
       '        mask[mids] = idx\n'
       '        return mask\n')]),
    ("refactoring 2: filtered x/y fetched by a private helper", CORE,
     [("    def get_downsampled_scatter(self, xax=\"area_um\", "
       "yax=\"deform\",\n",
       "    def _get_filtered_xy(self, xax, yax):\n"
       "        x = self[xax][self.filter.all]\n"
       "        y = self[yax][self.filter.all]\n"
       "        return x, y\n\n"
       "    def get_downsampled_scatter(self, xax=\"area_um\", "
       "yax=\"deform\",\n"),
      ("        x = self[xax][self.filter.all]\n"
       "        y = self[yax][self.filter.all]\n",
       "        x, y = self._get_filtered_xy(xax, yax)\n", 0)]),
    ('refactoring 5: scatter computed by a module-level worker', CORE,
     [('class RTDCBase(abc.ABC):\n',
       'def _downsampled_scatter(ds, xax, yax, downsample, xscale, yscale,\n'
       '                         remove_invalid, ret_mask):\n'
       '    """Grid-downsample the filtered events of `ds`\n'
       '\n'
       '    Worker of :func:`RTDCBase.get_downsampled_scatter`, which\n'
       '    validates and normalizes the arguments (see there).\n'
       '    """\n'
       '    # Get data\n'
       '    x = ds[xax][ds.filter.all]\n'
       '    y = ds[yax][ds.filter.all]\n'
       '\n'
       '    # Apply scale (no change for linear scale)\n'
       '    xs = RTDCBase._apply_scale(x, xscale, xax)\n'
       '    ys = RTDCBase._apply_scale(y, yscale, yax)\n'
       '\n'
       '    _, _, idx = downsampling.downsample_grid(xs, ys,\n'
       '                                             samples=downsample,\n'
       '                                             '
       'remove_invalid=remove_invalid,\n'
       '                                             ret_idx=True)\n'
       '\n'
       '    if ret_mask:\n'
       '        # Mask is a boolean array of len(ds)\n'
       '        mask = np.zeros(len(ds), dtype=bool)\n'
       '        mids = np.where(ds.filter.all)[0]\n'
       '        mask[mids] = idx\n'
       '        return x[idx], y[idx], mask\n'
       '    else:\n'
       '        return x[idx], y[idx]\n'
       '\n'
       '\n'
       'class RTDCBase(abc.ABC):\n'),
      ('        # Get data\n'
       '        x = self[xax][self.filter.all]\n'
       '        y = self[yax][self.filter.all]\n'
       '\n'
       '        # Apply scale (no change for linear scale)\n'
       '        xs = RTDCBase._apply_scale(x, xscale, xax)\n'
       '        ys = RTDCBase._apply_scale(y, yscale, yax)\n'
       '\n'
       '        _, _, idx = downsampling.downsample_grid(xs, ys,\n'
       '                                                 samples=downsample,\n'
       '                                                 '
       'remove_invalid=remove_invalid,\n'
       '                                                 ret_idx=True)\n'
       '\n'
       '        if ret_mask:\n'
       '            # Mask is a boolean array of len(self)\n'
       '            mask = np.zeros(len(self), dtype=bool)\n'
       '            mids = np.where(self.filter.all)[0]\n'
       '            mask[mids] = idx\n'
       '            return x[idx], y[idx], mask\n'
       '        else:\n'
       '            return x[idx], y[idx]\n',
       '        return _downsampled_scatter(self, xax, yax, downsample, '
       'xscale,\n'
       '                                    yscale, remove_invalid, '
       'ret_mask)\n')]),
    ('refactoring 6: sampler keywords from a dict, third result by index, single return', CORE,
     [('        xax = xax.lower()\n'
       '        yax = yax.lower()\n'
       '\n'
       '        # Get data\n'
       '        x = self[xax][self.filter.all]\n'
       '        y = self[yax][self.filter.all]\n'
       '\n'
       '        # Apply scale (no change for linear scale)\n'
       '        xs = RTDCBase._apply_scale(x, xscale, xax)\n'
       '        ys = RTDCBase._apply_scale(y, yscale, yax)\n'
       '\n'
       '        _, _, idx = downsampling.downsample_grid(xs, ys,\n'
       '                                                 samples=downsample,\n'
       '                                                 '
       'remove_invalid=remove_invalid,\n'
       '                                                 ret_idx=True)\n'
       '\n'
       '        if ret_mask:\n'
       '            # Mask is a boolean array of len(self)\n'
       '            mask = np.zeros(len(self), dtype=bool)\n'
       '            mids = np.where(self.filter.all)[0]\n'
       '            mask[mids] = idx\n'
       '            return x[idx], y[idx], mask\n'
       '        else:\n'
       '            return x[idx], y[idx]\n',
       '        xax, yax = xax.lower(), yax.lower()\n'
       '\n'
       '        # Get data\n'
       '        x = self[xax][self.filter.all]\n'
       '        y = self[yax][self.filter.all]\n'
       '\n'
       '        # Apply scale (no change for linear scale)\n'
       '        x_scaled = RTDCBase._apply_scale(x, xscale, xax)\n'
       '        y_scaled = RTDCBase._apply_scale(y, yscale, yax)\n'
       '\n'
       '        # `keep` is a boolean array over the filtered events\n'
       '        grid_kwargs = {"samples": downsample,\n'
       '                       "remove_invalid": remove_invalid,\n'
       '                       "ret_idx": True}\n'
       '        keep = downsampling.downsample_grid(x_scaled, y_scaled,\n'
       '                                            **grid_kwargs)[2]\n'
       '\n'
       '        if not ret_mask:\n'
       '            result = (x[keep], y[keep])\n'
       '        else:\n'
       '            # Mask is a boolean array of len(self)\n'
       '            mask = np.zeros(len(self), dtype=bool)\n'
       '            mask[np.where(self.filter.all)[0]] = keep\n'
       '            result = (x[keep], y[keep], mask)\n'
       '        return result\n')]),
]
