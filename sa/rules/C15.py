"""C15 – polygon filters classify points by exact even-odd containment and
survive the .poly text format.

R15.1 crossing rule in the compiled source (``_shared/geometry.pyx``, the
      shipped binary cannot be rebuilt, reading the source is the only check
      that sees an edit): the y-part of the hit condition, evaluated on all
      13 weak orderings of (y_a, y_b, y), is a half-open straddle test and
      follows the boundary convention documented in
      ``PolygonFilter.point_in_poly``; the x-part compares ``x`` with an
      expression that equals, as a rational function, the abscissa of the
      edge line at height y; the division is protected by the straddle test;
      the loop, executed on concrete vertex counts 1..6, visits every cyclic
      edge exactly once with in-range indices; the hit statement toggles the
      parity that is returned.
R15.2 wrappers: x/y columns reach the x/y parameters of the compiled routine
      consistently on the whole chain Filter.update -> PolygonFilter.filter
      -> measure.points_in_poly -> pnpoly.points_in_poly -> _points_in_poly
      -> points_in_polygon -> point_in_polygon; the buffer that carries both
      coordinate columns is float64 whatever the input dtypes are (a store
      into a narrower buffer truncates before the per-column cast to double
      downstream); inversion is applied to the returned mask exactly when
      ``self.inverted``.
R15.3 persistence: every key written by ``save`` is dispatched by ``_load``
      (and vice versa), values return to the attribute they were taken from,
      the header id and point index are parsed by the inverse expression,
      lines are split at the first '=' only, the float format keeps >= 17
      significant digits; an identifier read from a file is replaced only
      when the registry scan finds an instance that has it, and the
      allocator ends above every identifier assigned (executed); the lines
      save() writes, rendered for a table of sample names ('=', '#', ';',
      brackets, quotes, key words), are executed through the statements
      _load applies to a section's lines before and in the key dispatch:
      no line dropped / mis-split / mis-dispatched, the name unchanged.
      (R15.2 also: the `points` property hands out a fresh or read-only
      array, never the stored vertex buffer.)
"""
from __future__ import annotations

import ast
import copy
import re
import string

from ..absval import Poly, Rat, eval_pred, orderings, ratfun
from ..normalize import inline_helpers
from ..lib_C15 import inline_tail_call
from ..core import (AnalysisError, call_name, const_str, find_calls,
                    is_self_attr, kwarg, last_attr, names_in, short, txt,
                    walk)

ASSUMPTIONS = [
    "NOT decided: floating-point evaluation of the edge abscissa for points "
    "within rounding distance of an edge; uniqueness of identifiers across "
    "files / sessions; polygon names containing line breaks or surrounding "
    "white space (limits of the line-based text format).",
    "The roles of the parameters of point_in_polygon / points_in_polygon are "
    "taken from their position (count, xp, yp, [count,] x, y[, result]) as "
    "declared in geometry.pxd.",
    "R15.1 evaluates the parsed straddle predicate on one representative per "
    "weak ordering – exhaustive for predicates that touch the values only "
    "through comparisons; the edge enumeration is executed for 1..6 vertices "
    "(the index arithmetic is affine/modular in the loop variable).",
    "The boundary convention (lower/left edge inside) is the one stated in "
    "the docstring of PolygonFilter.point_in_poly.",
]

GEO = "dclab/external/skimage/_shared/geometry.pyx"
PNP = "dclab/external/skimage/_pnpoly.pyx"
PNPY = "dclab/external/skimage/pnpoly.py"
MEAS = "dclab/external/skimage/measure.py"
POLY = "dclab/polygon_filter.py"
FILT = "dclab/rtdc_dataset/filter.py"


# ----------------------------------------------------------------------
# tiny concrete evaluator (ints, bools, strings)

class _NoEval(Exception):
    pass


class _RuntimeFail(_NoEval):
    """the evaluated code itself raises (e.g. unpacking mismatch)"""


def _comp(e, env, k=0):
    """values of a list comprehension / generator expression"""
    if k == len(e.generators):
        yield ev(e.elt, env)
        return
    g = e.generators[k]
    if g.is_async:
        raise _NoEval(txt(e))
    seq = ev(g.iter, env)
    if not isinstance(seq, (list, tuple, str)):
        raise _NoEval(txt(g.iter))
    for item in seq:
        sub = dict(env)
        _bind(g.target, item, sub)
        if all(ev(c, sub) for c in g.ifs):
            yield from _comp(e, sub, k + 1)


def _bind(target, value, env):
    if isinstance(target, ast.Name):
        env[target.id] = value
    elif isinstance(target, (ast.Tuple, ast.List)) and not any(
            isinstance(t, ast.Starred) for t in target.elts):
        if not isinstance(value, (list, tuple)):
            raise _NoEval(txt(target))
        if len(value) != len(target.elts):
            raise _RuntimeFail(
                f"ValueError: {len(value)} values {value!r} for the "
                f"{len(target.elts)} names `{txt(target)}`")
        for t, v in zip(target.elts, value):
            _bind(t, v, env)
    elif isinstance(target, ast.Attribute):
        env[txt(target)] = value
    else:
        raise _NoEval(txt(target))


_STR_METHODS = ("lower", "upper", "strip", "startswith", "endswith",
                "casefold", "lstrip", "rstrip", "split", "rsplit",
                "partition", "rpartition", "replace", "splitlines", "find",
                "rfind", "count", "isspace", "isdigit", "title",
                "capitalize", "expandtabs", "removeprefix", "removesuffix")


def ev(e, env):
    if "__subst__" in env and id(e) in env["__subst__"]:
        return env["__subst__"][id(e)]
    if isinstance(e, (ast.ListComp, ast.GeneratorExp)):
        return list(_comp(e, env))
    if isinstance(e, ast.Constant):
        if isinstance(e.value, (bool, int, str)):
            return e.value
        raise _NoEval(txt(e))
    if isinstance(e, ast.Name):
        if e.id in env:
            return env[e.id]
        raise _NoEval(e.id)
    if isinstance(e, ast.Attribute) and txt(e) in env:
        return env[txt(e)]
    if isinstance(e, ast.UnaryOp):
        v = ev(e.operand, env)
        if isinstance(e.op, ast.Not):
            return not v
        if isinstance(e.op, ast.USub):
            return -v
        if isinstance(e.op, ast.UAdd):
            return +v
        if isinstance(e.op, ast.Invert):
            return ~v
    if isinstance(e, ast.BinOp):
        a, b = ev(e.left, env), ev(e.right, env)
        try:
            if isinstance(e.op, ast.Add):
                return a + b
            if isinstance(e.op, ast.Sub):
                return a - b
            if isinstance(e.op, ast.Mult):
                return a * b
            if isinstance(e.op, ast.Mod):
                return a % b
            if isinstance(e.op, ast.FloorDiv):
                return a // b
            if isinstance(e.op, ast.BitXor):
                return a ^ b
            if isinstance(e.op, ast.BitAnd):
                return a & b
            if isinstance(e.op, ast.BitOr):
                return a | b
        except (TypeError, ZeroDivisionError):
            raise _NoEval(txt(e))
    if isinstance(e, ast.BoolOp):
        if isinstance(e.op, ast.And):
            r = True
            for v in e.values:
                r = ev(v, env)
                if not r:
                    return r
            return r
        r = False
        for v in e.values:
            r = ev(v, env)
            if r:
                return r
        return r
    if isinstance(e, ast.IfExp):
        return ev(e.body, env) if ev(e.test, env) else ev(e.orelse, env)
    if isinstance(e, ast.Compare):
        left = ev(e.left, env)
        for op, c in zip(e.ops, e.comparators):
            right = ev(c, env)
            try:
                if isinstance(op, ast.Eq):
                    ok = left == right
                elif isinstance(op, ast.NotEq):
                    ok = left != right
                elif isinstance(op, ast.Lt):
                    ok = left < right
                elif isinstance(op, ast.LtE):
                    ok = left <= right
                elif isinstance(op, ast.Gt):
                    ok = left > right
                elif isinstance(op, ast.GtE):
                    ok = left >= right
                elif isinstance(op, ast.Is):
                    ok = left is right
                elif isinstance(op, ast.IsNot):
                    ok = left is not right
                elif isinstance(op, ast.In):
                    ok = left in right
                elif isinstance(op, ast.NotIn):
                    ok = left not in right
                else:
                    raise _NoEval(txt(e))
            except TypeError:
                raise _NoEval(txt(e))
            if not ok:
                return False
            left = right
        return True
    if isinstance(e, (ast.Tuple, ast.List)):
        return [ev(x, env) for x in e.elts]
    if isinstance(e, ast.Subscript):
        base = ev(e.value, env)
        if isinstance(e.slice, ast.Slice):
            lo = ev(e.slice.lower, env) if e.slice.lower else None
            hi = ev(e.slice.upper, env) if e.slice.upper else None
            st = ev(e.slice.step, env) if e.slice.step else None
            try:
                return base[lo:hi:st]
            except (TypeError, ValueError):
                raise _NoEval(txt(e))
        try:
            return base[ev(e.slice, env)]
        except (IndexError, KeyError, TypeError):
            raise _NoEval(txt(e))
    if isinstance(e, ast.Call):
        if isinstance(e.func, ast.Name) and e.func.id in ("max", "min") \
                and len(e.args) >= 2 and not e.keywords:
            vals = [ev(a, env) for a in e.args]
            try:
                return max(vals) if e.func.id == "max" else min(vals)
            except TypeError:
                raise _NoEval(txt(e))
        if isinstance(e.func, ast.Name) and e.func.id in (
                "bool", "int", "abs", "len", "str") and len(
                e.args) == 1 and not e.keywords:
            v = ev(e.args[0], env)
            try:
                return {"bool": bool, "int": int, "abs": abs, "len": len,
                        "str": str}[e.func.id](v)
            except (TypeError, ValueError):
                raise _NoEval(txt(e))
        if isinstance(e.func, ast.Name) and e.func.id in (
                "list", "tuple") and len(e.args) == 1 and not e.keywords:
            v = ev(e.args[0], env)
            if isinstance(v, (list, tuple)):
                return list(v)
            raise _NoEval(txt(e))
        if isinstance(e.func, ast.Attribute) and e.func.attr in _STR_METHODS \
                and all(k.arg in ("maxsplit", "sep", "chars", "keepends")
                        for k in e.keywords):
            recv = ev(e.func.value, env)
            if isinstance(recv, str):
                args = [ev(a, env) for a in e.args]
                kws = {k.arg: ev(k.value, env) for k in e.keywords}
                try:
                    r = getattr(recv, e.func.attr)(*args, **kws)
                except (TypeError, ValueError, AttributeError):
                    raise _NoEval(txt(e))
                return list(r) if isinstance(r, tuple) else r
        if isinstance(e.func, ast.Attribute) and e.func.attr == "join" \
                and len(e.args) == 1 and not e.keywords:
            recv = ev(e.func.value, env)
            items = ev(e.args[0], env)
            if isinstance(recv, str) and isinstance(items, list) and all(
                    isinstance(x, str) for x in items):
                return recv.join(items)
    raise _NoEval(txt(e))


class _Inline(ast.NodeTransformer):
    def __init__(self, env):
        self.env = env

    def visit_Name(self, node):
        if isinstance(node.ctx, ast.Load) and node.id in self.env:
            return copy.deepcopy(self.env[node.id])
        return node


def inline(expr, env):
    if not env:
        return expr
    return _Inline(env).visit(copy.deepcopy(expr))


def flatten_and(e):
    if isinstance(e, ast.BoolOp) and isinstance(e.op, ast.And):
        out = []
        for v in e.values:
            out += flatten_and(v)
        return out
    return [e]


def params_of(func):
    a = func.args
    if a.vararg or a.kwarg or a.kwonlyargs:
        raise AnalysisError(f"{func.name}: unexpected signature")
    return [x.arg for x in a.args]


def body_stmts(stmts):
    """statements without docstring / pass / `if True:` wrappers"""
    out = []
    for s in stmts:
        if isinstance(s, ast.Pass):
            continue
        if isinstance(s, ast.Expr) and isinstance(s.value, ast.Constant):
            continue
        if isinstance(s, ast.If) and isinstance(
                s.test, ast.Constant) and s.test.value is True \
                and not s.orelse:
            out += body_stmts(s.body)
            continue
        out.append(s)
    return out


# ----------------------------------------------------------------------
# R15.1

class Crossing:
    """shape of point_in_polygon"""

    def __init__(self, func):
        self.func = func
        p = params_of(func)
        if len(p) != 5:
            raise AnalysisError(
                f"point_in_polygon: expected 5 parameters, got {p}")
        self.N, self.XP, self.YP, self.X, self.Y = p
        body = body_stmts(func.body)
        loops = [s for s in body if isinstance(s, ast.For)]
        if len(loops) != 1:
            raise AnalysisError("point_in_polygon: expected one edge loop")
        self.loop = loops[0]
        k = body.index(self.loop)
        self.pre, self.post = body[:k], body[k + 1:]
        if not isinstance(self.loop.target, ast.Name) or self.loop.orelse:
            raise AnalysisError("point_in_polygon: loop shape not recognised")
        self.ivar = self.loop.target.id
        if not (isinstance(self.loop.iter, ast.Call)
                and call_name(self.loop.iter) == "range"
                and 1 <= len(self.loop.iter.args) <= 3
                and not self.loop.iter.keywords):
            raise AnalysisError("point_in_polygon: loop is not over range()")
        # the hit test
        arrs = {self.XP, self.YP}
        self.lbody = body_stmts(self.loop.body)
        hits = [s for s in self.lbody if isinstance(s, ast.If)]
        if len(hits) != 1:
            raise AnalysisError("point_in_polygon: expected one hit test in "
                                "the edge loop")
        self.hit = hits[0]
        # value aliases defined in the loop before the test (yi = yp[i])
        self.alias = {}
        for s in self.lbody:
            if s is self.hit:
                break
            if isinstance(s, ast.Assign) and len(s.targets) == 1 \
                    and isinstance(s.targets[0], ast.Name) and any(
                        isinstance(n, ast.Subscript) and isinstance(
                            n.value, ast.Name) and n.value.id in arrs
                        for n in ast.walk(s.value)):
                self.alias[s.targets[0].id] = inline(s.value, self.alias)
        # conjuncts (nested single-statement ifs are conjunctions)
        conj = []
        node = self.hit
        while True:
            if node.orelse:
                raise AnalysisError("point_in_polygon: hit test has an else "
                                    "branch – shape not recognised")
            conj += flatten_and(node.test)
            inner = body_stmts(node.body)
            if len(inner) == 1 and isinstance(inner[0], ast.If):
                node = inner[0]
                continue
            self.hit_body = inner
            break
        self.hit_index_updates = []
        self.conj = [inline(c, self.alias) for c in conj]
        # index expressions used on the vertex arrays
        idx = []
        for c in self.conj:
            for n in ast.walk(c):
                if isinstance(n, ast.Subscript) and isinstance(
                        n.value, ast.Name) and n.value.id in arrs:
                    t = txt(n.slice)
                    if t not in [txt(x) for x in idx]:
                        idx.append(n.slice)
        # order of appearance in the source
        if len(idx) != 2:
            raise AnalysisError(
                "point_in_polygon: the hit test must address exactly two "
                f"vertices, found index expressions {[txt(x) for x in idx]}")
        self.A, self.B = idx
        # index variables must not be advanced inside the hit branch (the
        # edge enumeration would depend on the data)
        inames = names_in(self.A) | names_in(self.B)
        keep = []
        for s in self.hit_body:
            tgt = s.targets[0] if isinstance(s, ast.Assign) and len(
                s.targets) == 1 else getattr(s, "target", None)
            if isinstance(tgt, ast.Name) and tgt.id in inames:
                self.hit_index_updates.append(s)
            else:
                keep.append(s)
        self.hit_body = keep
        self.x_conj = [c for c in self.conj
                       if names_in(c) & {self.X, self.XP}]
        self.y_conj = [c for c in self.conj
                       if not names_in(c) & {self.X, self.XP}]
        if len(self.x_conj) != 1 or not self.y_conj:
            raise AnalysisError("point_in_polygon: cannot split the hit test "
                                "into a straddle part and an abscissa part")
        for c in self.y_conj:
            extra = names_in(c) - {self.YP, self.Y} - names_in(self.A) \
                - names_in(self.B)
            if extra:
                raise AnalysisError(
                    f"point_in_polygon: straddle part mentions {sorted(extra)}")

    # -- symbols
    def sym(self, node):
        """symbol of a vertex coordinate / the query coordinate"""
        if isinstance(node, ast.Subscript) and isinstance(
                node.value, ast.Name) and node.value.id in (self.XP, self.YP):
            which = "x" if node.value.id == self.XP else "y"
            t = txt(node.slice)
            if t == txt(self.A):
                return which + "a"
            if t == txt(self.B):
                return which + "b"
            raise AnalysisError(f"unexpected vertex index {t}")
        if isinstance(node, ast.Name) and node.id == self.Y:
            return "y"
        if isinstance(node, ast.Name) and node.id == self.X:
            return "x"
        return None

    # -- concrete execution of the index arithmetic
    def edges(self, n):
        env = {self.N: n}
        for s in self.pre:
            if isinstance(s, ast.Assign) and len(s.targets) == 1 \
                    and isinstance(s.targets[0], ast.Name):
                try:
                    env[s.targets[0].id] = ev(s.value, env)
                except _NoEval as e:
                    raise AnalysisError(
                        f"point_in_polygon: initialisation `{short(s, 40)}` "
                        f"not understood ({e})")
            else:
                raise AnalysisError(
                    f"point_in_polygon: statement `{short(s, 40)}` before "
                    "the loop not understood")
        self.env0 = dict(env)
        try:
            rng = range(*[ev(a, env) for a in self.loop.iter.args])
        except (_NoEval, TypeError) as e:
            raise AnalysisError(f"point_in_polygon: loop range: {e}")
        out = []
        for iv in rng:
            env[self.ivar] = iv
            for s in self.lbody:
                if s is self.hit:
                    try:
                        out.append((ev(self.A, env), ev(self.B, env)))
                    except _NoEval as e:
                        raise AnalysisError(
                            f"point_in_polygon: vertex index: {e}")
                elif isinstance(s, (ast.Assign, ast.AugAssign)):
                    tgt = s.targets[0] if isinstance(s, ast.Assign) \
                        else s.target
                    if not isinstance(tgt, ast.Name):
                        raise AnalysisError(
                            f"point_in_polygon: store `{short(s, 40)}` in "
                            "the edge loop")
                    if tgt.id in self.alias:
                        continue
                    val = s.value if isinstance(s, ast.Assign) else ast.BinOp(
                        left=ast.Name(id=tgt.id, ctx=ast.Load()), op=s.op,
                        right=s.value)
                    try:
                        env[tgt.id] = ev(val, env)
                    except _NoEval as e:
                        raise AnalysisError(
                            f"point_in_polygon: `{short(s, 40)}`: {e}")
                else:
                    raise AnalysisError(
                        f"point_in_polygon: statement `{short(s, 40)}` in "
                        "the edge loop not understood")
        return out


def documented_convention(repo, ctx):
    f = repo.func(POLY, "PolygonFilter.point_in_poly")
    doc = " ".join((ast.get_docstring(f) or "").split())
    m_in = re.search(r'"inside" if it is on the ([a-z ]+?)( -|$|\.)', doc)
    m_out = re.search(r'"outside" if it is on the ([a-z ]+?)( -|$|\.| \.\.)',
                      doc)
    if m_in and m_out:
        a, b = m_in.group(1).strip(), m_out.group(1).strip()
        if a == "lower or left" and b == "top or right":
            return "docstring of PolygonFilter.point_in_poly"
        raise AnalysisError(
            "PolygonFilter.point_in_poly documents the boundary convention "
            f"inside: '{a}', outside: '{b}' – not the one this rule knows")
    ctx.note("boundary convention not found in the docstring of "
             "PolygonFilter.point_in_poly; using lower/left = inside")
    return "rule default (docstring statement not found)"


def r151(ctx, repo):
    f = repo.func(GEO, "point_in_polygon")
    cr = Crossing(f)
    hit = cr.hit

    # (a) straddle table
    y_pred = ast.BoolOp(op=ast.And(), values=cr.y_conj) \
        if len(cr.y_conj) > 1 else cr.y_conj[0]

    def res(node):
        s = cr.sym(node)
        return s if s in ("ya", "yb", "y") else None
    envs = orderings(["ya", "yb", "y"])
    got = [bool(eval_pred(y_pred, e, res)) for e in envs]
    lower = [(e["ya"] <= e["y"]) != (e["yb"] <= e["y"]) for e in envs]
    upper = [(e["ya"] < e["y"]) != (e["yb"] < e["y"]) for e in envs]
    ctx.stat("R15.1 order types evaluated", len(envs))
    half_open = got in (lower, upper)
    bad = [(e, g) for e, g, w in zip(envs, got, lower) if g != w]
    ctx.ob("R15.1", half_open,
           f"straddle test is the half-open rule on all {len(envs)} weak "
           "orderings of (y_a, y_b, y): one end <= y, the other > y"
           if half_open else
           "straddle test is not a half-open rule: for ordering "
           f"{_fmt_env(bad[0][0])} the code says "
           f"{'crossing' if bad[0][1] else 'no crossing'} "
           f"({len(bad)} of {len(envs)} orderings differ) – points level "
           "with a vertex or a horizontal edge are misclassified",
           node=hit, label="straddle half-open")

    # (b) abscissa
    xc = cr.x_conj[0]
    if not (isinstance(xc, ast.Compare) and len(xc.ops) == 1):
        raise AnalysisError("point_in_polygon: abscissa test is not a "
                            "single comparison")
    left, op, right = xc.left, xc.ops[0], xc.comparators[0]
    if cr.sym(left) == "x":
        expr, rel = right, op
    elif cr.sym(right) == "x":
        expr = left
        rel = {ast.Lt: ast.Gt, ast.Gt: ast.Lt, ast.LtE: ast.GtE,
               ast.GtE: ast.LtE}.get(type(op), type(None))()
    else:
        raise AnalysisError("point_in_polygon: abscissa test does not "
                            "compare the query x with an expression")

    def rres(node):
        s = cr.sym(node)
        if s == "x":
            raise AnalysisError("abscissa expression mentions x itself")
        return s
    have = ratfun(expr, rres)
    S = {k: Rat(Poly.sym(k)) for k in ("xa", "xb", "ya", "yb", "y")}
    want = S["xa"] + (S["xb"] - S["xa"]) * (S["y"] - S["ya"]) / (
        S["yb"] - S["ya"])
    same = have.same(want) and not have.d.is_zero()
    ctx.ob("R15.1", same,
           "x is compared with the abscissa of the edge line at height y "
           "(equal as rational functions of x_a, x_b, y_a, y_b, y)"
           if same else
           f"`{short(expr, 70)}` is not the abscissa of the line through "
           "the two vertices at height y", node=hit, label="edge abscissa")
    ray = isinstance(rel, (ast.Lt, ast.LtE, ast.Gt, ast.GtE))
    ctx.ob("R15.1", ray, "the abscissa test is an order comparison (ray "
           "to one side)" if ray else
           "the abscissa test is not an order comparison",
           node=hit, label="ray comparison")

    # (c) documented boundary convention
    src = documented_convention(repo, ctx)
    conv = got == lower and isinstance(rel, ast.Lt)
    ctx.ob("R15.1", conv,
           "boundary convention lower/left = inside (lower end of an edge "
           f"closed, `x <` strict) as stated by {src}" if conv else
           "boundary convention differs from the documented one "
           "(lower/left edge inside, top/right outside): "
           + ("the upper end of an edge is closed" if got == upper else
              "straddle table differs" if got != lower else
              f"the abscissa comparison is `{type(rel).__name__}` instead "
              "of strict `<`"),
           node=hit, label="documented boundary convention")

    # (d) division protected
    denoms = [n for n in ast.walk(expr) if isinstance(n, ast.BinOp)
              and isinstance(n.op, ast.Div)]
    xi = cr.conj.index(xc)
    cdiv = re.search(r"^#\s*cython:\s*cdivision\s*=\s*True", repo.src(GEO),
                     re.M) is not None
    # the straddle part as a whole must precede
    all_before = all(i < xi for i, c in enumerate(cr.conj)
                     if c in cr.y_conj)
    ok = not denoms or (all_before and half_open) or cdiv
    ctx.ob("R15.1", ok,
           "the division by (y_b - y_a) is evaluated after the straddle "
           "test (which implies y_a != y_b)" + (
               " and C division is enabled" if cdiv else "") if ok else
           "the division by (y_b - y_a) can be evaluated for a horizontal "
           "edge (straddle test not first, cdivision off)",
           node=hit, label="division guarded")

    # (e) edge enumeration
    bad = None
    if cr.hit_index_updates:
        bad = (f"`{short(cr.hit_index_updates[0], 30)}` advances a vertex "
               "index only when the edge is crossed: which edges are tested "
               "depends on the data")
    for n in range(1, 7):
        if bad:
            break
        pairs = cr.edges(n)
        rng = [p for p in pairs if not (0 <= p[0] < n and 0 <= p[1] < n)]
        if rng:
            bad = (f"with {n} vertices the loop addresses vertex index "
                   f"{rng[0]} outside 0..{n - 1} (no bounds check, no "
                   "wrap-around in the compiled code)")
            break
        have_e = sorted(tuple(sorted(p)) for p in pairs)
        want_e = sorted(tuple(sorted((k, (k + 1) % n))) for k in range(n))
        if have_e != want_e:
            miss = [e for e in want_e if e not in have_e]
            bad = (f"with {n} vertices the loop visits edges {have_e}, "
                   f"expected every cyclic edge once {want_e}"
                   + (f" (edge {miss[0]} never tested)" if miss else ""))
            break
    ctx.stat("R15.1 vertex counts executed", 6)
    ctx.ob("R15.1", bad is None,
           "executed for 1..6 vertices, the loop tests every cyclic edge "
           "(k, k+1 mod n) exactly once with in-range indices – result "
           "independent of start vertex and orientation" if bad is None
           else bad, node=cr.loop, label="edge enumeration")

    # (f) parity toggle and return
    if len(cr.hit_body) != 1 or not isinstance(
            cr.hit_body[0], (ast.Assign, ast.AugAssign)):
        raise AnalysisError("point_in_polygon: body of the hit test is not "
                            "a single parity update")
    st = cr.hit_body[0]
    tgt = st.targets[0] if isinstance(st, ast.Assign) else st.target
    if not isinstance(tgt, ast.Name):
        raise AnalysisError("point_in_polygon: parity variable not a name")
    cvar = tgt.id
    rets = [s for s in cr.post if isinstance(s, ast.Return)]
    if len(rets) != 1 or len(cr.post) != 1:
        raise AnalysisError("point_in_polygon: statements after the loop "
                            "not understood")
    cr.edges(3)
    if cvar not in cr.env0:
        raise AnalysisError("point_in_polygon: parity variable is not "
                            "initialised before the loop")
    val = st.value if isinstance(st, ast.Assign) else ast.BinOp(
        left=ast.Name(id=cvar, ctx=ast.Load()), op=st.op, right=st.value)
    env = dict(cr.env0)
    bad = None
    try:
        for k in range(0, 6):
            r = ev(rets[0].value, env)
            if bool(r) != bool(k % 2):
                bad = (f"after {k} crossing(s) the function returns "
                       f"{r!r} (truth {bool(r)}), expected {bool(k % 2)}")
                break
            env[cvar] = ev(val, env)
    except _NoEval as e:
        raise AnalysisError(f"point_in_polygon: parity update: {e}")
    ctx.ob("R15.1", bad is None,
           "the returned value is the parity of the number of crossings "
           "(executed for 0..5 hits from the initial value)" if bad is None
           else bad, node=st, label="parity toggle")


def _fmt_env(e):
    return "(" + ", ".join(f"{k}={int(v)}" for k, v in e.items()) + ")"


# ----------------------------------------------------------------------
# R15.2

def deref(func, e, depth=0):
    """follow a local name to the value of its only binding (not for
    parameters, self-referential or multiple bindings)"""
    params = [a.arg for a in func.args.args]
    while isinstance(e, ast.Name) and e.id not in params and depth < 6:
        vals = single_assign(func, e.id)
        if len(vals) != 1 or e.id in names_in(vals[0]):
            break
        e = vals[0]
        depth += 1
    return e


def bind_args(call, params, what):
    """{param: arg expr} of a call against a parameter list"""
    out = {}
    for i, a in enumerate(call.args):
        if isinstance(a, ast.Starred) or i >= len(params):
            raise AnalysisError(f"{what}: argument list not understood")
        out[params[i]] = a
    for kw in call.keywords:
        if kw.arg is None or kw.arg not in params or kw.arg in out:
            raise AnalysisError(f"{what}: keyword arguments not understood")
        out[kw.arg] = kw.value
    return out


def single_assign(func, name):
    """value of the only assignment to `name` in func (None if a parameter
    that is never reassigned)"""
    vals = []
    for n in walk(func):
        if isinstance(n, ast.Assign):
            for t in n.targets:
                if isinstance(t, ast.Name) and t.id == name:
                    vals.append(n.value)
                elif isinstance(t, ast.Tuple) and name in names_in(t):
                    raise AnalysisError(
                        f"{func.name}: tuple assignment to {name}")
        elif isinstance(n, (ast.AugAssign, ast.For)) and name in names_in(
                n.target):
            raise AnalysisError(f"{func.name}: {name} is updated in place")
    return vals


def column_origin(func, expr, depth=0):
    """('param', col) if expr is column `col` of array parameter `param`
    (through asarray / astype / np.double conversions); col None = whole"""
    if depth > 8:
        raise AnalysisError(f"{func.name}: definition chain too deep")
    params = params_of(func)
    if isinstance(expr, ast.Call):
        n = call_name(expr) or ""
        if last_attr(expr) in ("astype", "copy", "view") and isinstance(
                expr.func, ast.Attribute):
            return column_origin(func, expr.func.value, depth + 1)
        if n.split(".")[-1] in ("asarray", "array", "ascontiguousarray",
                                "double", "float64", "atleast_2d") \
                and expr.args:
            return column_origin(func, expr.args[0], depth + 1)
        return None
    if isinstance(expr, ast.Subscript):
        base = column_origin(func, expr.value, depth + 1)
        if base is None or base[1] is not None:
            return None
        s = expr.slice
        if isinstance(s, ast.Tuple) and len(s.elts) == 2 and isinstance(
                s.elts[0], ast.Slice) and s.elts[0].lower is None \
                and s.elts[0].upper is None and s.elts[0].step is None \
                and isinstance(s.elts[1], ast.Constant):
            return (base[0], s.elts[1].value)
        return None
    if isinstance(expr, ast.Name):
        vals = single_assign(func, expr.id)
        if expr.id in params:
            # a parameter re-bound to a conversion of itself keeps its role
            for v in vals:
                o = column_origin_param_rebind(func, v, expr.id, depth + 1)
                if o != (expr.id, None):
                    return None
            return (expr.id, None)
        if len(vals) != 1:
            return None
        return column_origin(func, vals[0], depth + 1)
    return None


def column_origin_param_rebind(func, v, pname, depth):
    if isinstance(v, ast.Call) and (call_name(v) or "").split(".")[-1] in (
            "asarray", "array", "ascontiguousarray", "atleast_2d") \
            and v.args and isinstance(v.args[0], ast.Name) \
            and v.args[0].id == pname:
        return (pname, None)
    return None


def length_origin(func, expr):
    """(param, col) if expr is the length of a column"""
    if isinstance(expr, ast.Subscript) and isinstance(
            expr.slice, ast.Constant) and expr.slice.value == 0 \
            and isinstance(expr.value, ast.Attribute) \
            and expr.value.attr == "shape":
        return column_origin(func, expr.value.value)
    if isinstance(expr, ast.Attribute) and expr.attr == "size":
        return column_origin(func, expr.value)
    if isinstance(expr, ast.Call) and call_name(expr) == "len" and expr.args:
        return column_origin(func, expr.args[0])
    if isinstance(expr, ast.Name):
        vals = single_assign(func, expr.id)
        if len(vals) == 1:
            return length_origin(func, vals[0])
    return None


def r152(ctx, repo):
    pip = repo.func(GEO, "point_in_polygon")
    p1 = params_of(pip)
    pips = repo.func(GEO, "points_in_polygon")
    p2 = params_of(pips)
    if len(p2) != 7:
        raise AnalysisError(f"points_in_polygon: expected 7 parameters: {p2}")
    N2, XP2, YP2, NP2, X2, Y2, RES2 = p2
    body = body_stmts(pips.body)
    if len(body) != 1 or not isinstance(body[0], ast.For):
        raise AnalysisError("points_in_polygon: loop shape not recognised")
    lp = body[0]
    inner = body_stmts(lp.body)
    if len(inner) != 1 or not isinstance(inner[0], ast.Assign) or not \
            isinstance(inner[0].value, ast.Call) or call_name(
                inner[0].value) != "point_in_polygon":
        raise AnalysisError("points_in_polygon: loop body not recognised")
    st = inner[0]
    b = bind_args(st.value, p1, "points_in_polygon")
    iv = txt(lp.target)
    want = {p1[0]: N2, p1[1]: XP2, p1[2]: YP2, p1[3]: f"{X2}[{iv}]",
            p1[4]: f"{Y2}[{iv}]"}
    have = {k: txt(v) for k, v in b.items()}
    ok = have == want
    ctx.ob("R15.2", ok,
           "points_in_polygon forwards (count, xp, yp, x[n], y[n]) to the "
           "same roles of point_in_polygon" if ok else
           f"points_in_polygon passes {have}, expected {want}",
           node=st, label="forward to point_in_polygon")
    ok = txt(st.targets[0]) == f"{RES2}[{iv}]" and txt(lp.iter) in (
        f"range({NP2})", f"range(0, {NP2})")
    ctx.ob("R15.2", ok,
           "result[n] is written for every n in range(nr_points)" if ok else
           f"result loop `for {iv} in {txt(lp.iter)}: {short(st, 40)}` does "
           "not fill result[n] for every point", node=lp,
           label="result loop")

    # _points_in_poly
    f = repo.func(PNP, "_points_in_poly")
    fp = params_of(f)
    if len(fp) != 2:
        raise AnalysisError(f"_points_in_poly: parameters {fp}")
    P, V = fp
    calls = find_calls(f, name="points_in_polygon")
    if len(calls) != 1:
        raise AnalysisError("_points_in_poly: call of points_in_polygon lost")
    b = bind_args(calls[0], p2, "_points_in_poly")
    if set(b) != set(p2):
        raise AnalysisError("_points_in_poly: not all arguments passed")
    roles = {XP2: (V, 0), YP2: (V, 1), X2: (P, 0), Y2: (P, 1)}
    for par, want in roles.items():
        got = column_origin(f, b[par])
        ok = got == want
        ctx.ob("R15.2", ok,
               f"parameter `{par}` of the compiled routine receives column "
               f"{want[1]} of `{want[0]}`" if ok else
               f"parameter `{par}` receives `{short(b[par], 30)}` = "
               f"{'column %s of %s' % (got[1], got[0]) if got else '?'}"
               f", expected column {want[1]} of `{want[0]}`",
               node=calls[0], label=f"column role {par}")
    for par, arr in ((N2, V), (NP2, P)):
        got = length_origin(f, b[par])
        ok = got is not None and got[0] == arr
        ctx.ob("R15.2", ok,
               f"`{par}` is the number of rows of `{arr}`" if ok else
               f"`{par}` = `{short(b[par], 30)}` is not the number of rows "
               f"of `{arr}`", node=calls[0], label=f"count role {par}")
    # result buffer: zeros of the point count, returned
    res = b[RES2]
    base = res.value if isinstance(res, ast.Attribute) and res.attr == "data" \
        else res
    if not isinstance(base, ast.Name):
        raise AnalysisError("_points_in_poly: result buffer not a name")
    vals = single_assign(f, base.id)
    ok = len(vals) == 1 and isinstance(vals[0], ast.Call) and (
        call_name(vals[0]) or "").endswith("zeros") and vals[0].args \
        and (length_origin(f, vals[0].args[0]) or (None,))[0] == P
    rets = [n for n in walk(f) if isinstance(n, ast.Return)]
    if len(rets) != 1 or rets[0].value is None:
        raise AnalysisError("_points_in_poly: expected one return value")
    rv = deref(f, rets[0].value)
    if base.id not in names_in(rv):
        ok_ret = False
    elif isinstance(rv, ast.Name):
        ok_ret = True
    elif isinstance(rv, ast.Call) and last_attr(rv) in (
            "astype", "view") and isinstance(rv.func, ast.Attribute) \
            and txt(rv.func.value) == base.id and rv.args:
        ok_ret = txt(rv.args[0]) in ("bool", "np.bool_")
    else:
        raise AnalysisError("_points_in_poly: return value "
                            f"`{short(rv, 40)}` not understood")
    ctx.ob("R15.2", bool(ok and ok_ret),
           "the result buffer has one zero-initialised entry per point and "
           "is returned as a boolean mask" if ok and ok_ret else
           "result buffer is not np.zeros(<number of points>) returned as "
           "bool", node=rets[0], label="result buffer")

    # python wrapper forwards in order
    w = repo.func(PNPY, "points_in_poly")
    wp = params_of(w)
    if len(wp) != 2:
        raise AnalysisError(f"pnpoly.points_in_poly: parameters {wp}")
    rets = [n for n in walk(w) if isinstance(n, ast.Return)]
    if not rets or any(r.value is None for r in rets):
        raise AnalysisError("pnpoly.points_in_poly: return values")

    def is_compiled(c_):
        return isinstance(c_, ast.Call) and resolved_callee(
            repo, PNPY, c_) in ((None, "_points_in_poly"),
                                ("_pnpoly", "_points_in_poly"))
    rv = deref(w, rets[0].value)
    if len(rets) == 1 and is_compiled(rv):
        bb = bind_args(rv, fp, "pnpoly.points_in_poly")
        have = {k: txt(deref(w, v)) for k, v in bb.items()}
        ok = have == {P: wp[0], V: wp[1]}
        why = (f"pnpoly.points_in_poly passes {have} to _points_in_poly, "
               f"expected ({wp[0]}, {wp[1]}) in this order")
    else:
        ok, why = _blocked_wrapper(repo, w, wp, fp, P, V, is_compiled)
    # a parameter may be re-bound to an array conversion of itself only
    for par in wp:
        for v in single_assign(w, par):
            if column_origin_param_rebind(w, v, par, 0) != (par, None):
                ok = False
                why = (f"`{par}` is replaced by `{short(v, 40)}` before it "
                       "is handed to the compiled routine")
    ctx.ob("R15.2", ok, "pnpoly.points_in_poly hands all points and the "
           "vertices unchanged to the compiled routine" if ok else why,
           node=rets[-1], label="python wrapper")
    WP, WV = wp if len(wp) == 2 else ("points", "verts")
    # import chain
    imp_ok = _imports(repo, PNPY, "_pnpoly", "_points_in_poly") and _imports(
        repo, MEAS, "pnpoly", "points_in_poly") and _imports(
        repo, POLY, "measure", "points_in_poly")
    cimp = re.search(r"^from\s+\._shared\.geometry\s+cimport\s+[^\n]*"
                     r"\bpoints_in_polygon\b", repo.src(PNP), re.M)
    ctx.ob("R15.2", bool(imp_ok and cimp),
           "polygon_filter -> measure -> pnpoly -> _pnpoly -> "
           "_shared.geometry import chain intact" if imp_ok and cimp else
           "points_in_poly is no longer imported along polygon_filter -> "
           "measure -> pnpoly -> _pnpoly -> _shared.geometry",
           node=w, label="import chain", nontrivial=False)

    # PolygonFilter.filter
    # (a method that delegates to a helper with a tail call is read
    # through the helper)
    filt = inline_tail_call(repo, POLY, repo.func(POLY,
                                                  "PolygonFilter.filter"))
    fpar = params_of(filt)
    if len(fpar) != 3:
        raise AnalysisError(f"PolygonFilter.filter: parameters {fpar}")
    _, DX, DY = fpar
    calls = find_calls(filt, attr="points_in_poly")
    if len(calls) != 1:
        raise AnalysisError("PolygonFilter.filter: points_in_poly call lost")
    call = calls[0]
    bb = bind_args(call, [WP, WV], "PolygonFilter.filter")
    if set(bb) != {WP, WV}:
        raise AnalysisError("PolygonFilter.filter: arguments of "
                            "points_in_poly not understood")
    ok = is_self_attr(deref(filt, bb[WV]), "points")
    ctx.ob("R15.2", ok, "the vertices are self.points" if ok else
           f"vertices passed are `{short(bb[WV], 30)}`, not self.points",
           node=call, label="filter verts")
    pts = bb[WP]
    if not isinstance(pts, ast.Name):
        raise AnalysisError("PolygonFilter.filter: points argument is not a "
                            "local array")
    cols = {}
    for n in walk(filt):
        if isinstance(n, ast.Assign) and len(n.targets) == 1 and isinstance(
                n.targets[0], ast.Subscript) and txt(
                n.targets[0].value) == pts.id:
            s = n.targets[0].slice
            if isinstance(s, ast.Tuple) and len(s.elts) == 2 and isinstance(
                    s.elts[1], ast.Constant):
                cols[s.elts[1].value] = n.value
    alloc = single_assign(filt, pts.id)
    if len(alloc) != 1:
        raise AnalysisError("PolygonFilter.filter: the point array is bound "
                            "more than once")
    dt_ok, dt_why = None, None
    if cols:
        dt_ok, dt_why = _buffer_dtype(alloc[0], {DX, DY})
    else:
        st = _stacked(alloc[0])
        if st is not None:
            cols = {0: st[0], 1: st[1]}
            if st[2] is None:
                dt_ok = True
                dt_why = ("stacking promotes both inputs to a common type "
                          "(no value is narrowed) before the per-column "
                          "conversion to double")
            else:
                dt_ok = _is_f64(st[2])
                dt_why = (f"the stacked array is cast to {txt(st[2])}")
    if set(cols) != {0, 1}:
        raise AnalysisError("PolygonFilter.filter: construction of the "
                            "(N, 2) point array not recognised")
    ok = txt(cols[0]) == DX and txt(cols[1]) == DY
    ctx.ob("R15.2", ok,
           f"column 0 is filled from `{DX}`, column 1 from `{DY}`" if ok
           else f"point columns are filled from ({txt(cols[0])}, "
           f"{txt(cols[1])}), expected ({DX}, {DY})", node=call,
           label="filter columns")
    ctx.ob("R15.2", bool(dt_ok),
           "the buffer that carries both coordinate columns is float64 "
           f"whatever the input dtypes are ({dt_why})" if dt_ok else
           f"the buffer that carries both coordinate columns is not float64 "
           f"independent of the inputs: {dt_why} – storing the y values "
           "(or a float64 x) into it truncates / rounds them before the "
           "containment test (e.g. `index` as x axis: y cast to int)",
           node=alloc[0], label="filter buffer float64")
    if _filter_stateless(ctx, filt, call):
        _inversion(ctx, filt, call)
    _digest_coverage(ctx, repo, filt)
    _array_digest_order(ctx, repo)

    # PolygonFilter.point_in_poly uses the same routine
    pp = repo.func(POLY, "PolygonFilter.point_in_poly")
    ppar = params_of(pp)
    calls = find_calls(pp, attr="points_in_poly")
    ok = False
    if len(calls) != 1 or len(ppar) != 2:
        raise AnalysisError("PolygonFilter.point_in_poly: call of "
                            "points_in_poly / signature not understood")
    if True:
        bb = bind_args(calls[0], [WP, WV], "point_in_poly")
        if set(bb) != {WP, WV}:
            raise AnalysisError("PolygonFilter.point_in_poly: arguments of "
                                "points_in_poly not understood")
        if True:
            def from_param(e, name):
                if isinstance(e, ast.Name) and e.id != name:
                    vals = single_assign(pp, e.id)
                    return len(vals) == 1 and name in names_in(vals[0]) \
                        and ppar[1 - ppar.index(name)] not in names_in(
                            vals[0])
                return name in names_in(e) and ppar[
                    1 - ppar.index(name)] not in names_in(e)
            ok = from_param(bb[WP], ppar[0]) and from_param(bb[WV], ppar[1])
    ctx.ob("R15.2", ok,
           "point_in_poly(p, poly) evaluates the same compiled routine with "
           "p as the point and poly as the vertices" if ok else
           "point_in_poly does not hand (p, poly) to points_in_poly as "
           "(points, verts)", node=pp, label="point_in_poly routine")

    _copy_inversion(ctx, repo)
    _normalised_vertices(ctx, repo)

    # Filter.update feeds axes[0] as x
    upd = update_inlined(repo)
    calls = [c for c in find_calls(upd, attr="filter")
             if isinstance(c.func, ast.Attribute) and len(c.args) + len(
                 c.keywords) == 2]
    if len(calls) != 1:
        raise AnalysisError("Filter.update: polygon evaluation call lost")
    bb = bind_args(calls[0], [DX, DY], "Filter.update")
    pf = txt(calls[0].func.value)

    def axis_of(e):
        if isinstance(e, ast.Name):
            vals = single_assign_loose(upd, e.id)
            if len(vals) != 1:
                return None
            e = vals[0]
        m = re.fullmatch(r"\w+\[" + re.escape(pf) + r"\.axes\[(\d)\]\]",
                         txt(e))
        return int(m.group(1)) if m else None
    got = (axis_of(bb.get(DX)), axis_of(bb.get(DY)))
    ctx.ob("R15.2", got == (0, 1),
           "the dataset filter evaluates the polygon on (axes[0], axes[1])"
           if got == (0, 1) else
           f"the dataset filter passes axes {got} as (x, y)",
           node=calls[0], label="update axes order")


F64 = ("np.float64", "float", "np.double", "np.float_", "numpy.float64",
       "'float64'", "'f8'", "'d'", "'float'", "'double'", "np.longdouble")


def _is_f64(e):
    return e is not None and txt(e) in F64


def _buffer_dtype(alloc, inputs):
    """(ok, reason): is the pre-allocated (N, 2) buffer float64 whatever the
    inputs are?"""
    if not isinstance(alloc, ast.Call):
        raise AnalysisError("PolygonFilter.filter: allocation of the point "
                            "array not recognised")
    n = (call_name(alloc) or "").split(".")
    if len(n) != 2 or n[0] not in ("np", "numpy"):
        raise AnalysisError("PolygonFilter.filter: allocation "
                            f"`{short(alloc, 40)}` not recognised")
    leaf = n[1]
    if leaf in ("zeros", "empty", "ones"):
        dt = kwarg(alloc, "dtype", 1)
        if dt is None:
            return True, f"np.{leaf} defaults to float64"
    elif leaf == "full":
        dt = kwarg(alloc, "dtype", 2)
        if dt is None:
            return False, (f"`{short(alloc, 40)}` takes the dtype of the "
                           "fill value")
    elif leaf in ("zeros_like", "empty_like", "ones_like", "full_like"):
        dt = kwarg(alloc, "dtype", 2 if leaf == "full_like" else 1)
        if dt is None:
            return False, (f"`{short(alloc, 50)}` inherits the dtype of "
                           f"`{short(alloc.args[0], 20) if alloc.args else '?'}`")
    else:
        raise AnalysisError("PolygonFilter.filter: allocation "
                            f"`{short(alloc, 40)}` not recognised")
    if _is_f64(dt):
        return True, f"allocated with dtype={txt(dt)}"
    if names_in(dt) & inputs or ".dtype" in txt(dt):
        return False, f"dtype={txt(dt)} depends on an input array"
    return False, f"dtype={txt(dt)} is not float64"


def _stacked(e):
    """(col0, col1, cast dtype or None) for np.column_stack((a, b)),
    np.stack((a, b), axis=1|-1), np.vstack((a, b)).T / np.array([a, b]).T,
    each optionally followed by .astype(<dtype>)"""
    cast = None
    if isinstance(e, ast.Call) and last_attr(e) == "astype" and isinstance(
            e.func, ast.Attribute) and e.args:
        cast = e.args[0]
        e = e.func.value
    transposed = False
    if isinstance(e, ast.Attribute) and e.attr == "T":
        transposed = True
        e = e.value
    if not isinstance(e, ast.Call) or not e.args:
        return None
    n = call_name(e)
    arg = e.args[0]
    if not (isinstance(arg, (ast.Tuple, ast.List)) and len(arg.elts) == 2):
        return None
    ok = False
    if n == "np.column_stack" and not transposed:
        ok = True
    elif n == "np.stack" and not transposed:
        ax = kwarg(e, "axis", 1)
        ok = ax is not None and txt(ax) in ("1", "-1")
    elif n in ("np.vstack", "np.array", "np.stack") and transposed:
        ok = n != "np.array" or kwarg(e, "dtype", 1) is None
        if n == "np.stack":
            ax = kwarg(e, "axis", 1)
            ok = ax is None or txt(ax) == "0"
    if not ok:
        return None
    return arg.elts[0], arg.elts[1], cast


def _blocked_wrapper(repo, w, wp, fp, P, V, is_compiled):
    """a wrapper that evaluates the points in blocks: executed for several
    input sizes with a small block size, the slices handed to the compiled
    routine (and written into the result) must tile [0, n) exactly"""
    PT, VT = wp
    consts = {}
    for st in repo.tree(PNPY).body:
        if isinstance(st, ast.Assign) and len(st.targets) == 1 and isinstance(
                st.targets[0], ast.Name) and not isinstance(
                st.value, (ast.Dict, ast.List, ast.Call)):
            consts[st.targets[0].id] = 4     # any block size must tile
    body = [x for x in w.body if not (isinstance(x, ast.Expr) and isinstance(
        x.value, ast.Constant))]

    class Done(Exception):
        pass

    def interval(sl, env):
        """(lo, hi) of a slice expression / slice variable"""
        if isinstance(sl, ast.Name) and isinstance(env.get(sl.id), tuple):
            return env[sl.id]
        if isinstance(sl, ast.Slice) and sl.step is None:
            lo = ev(sl.lower, env) if sl.lower is not None else 0
            hi = ev(sl.upper, env) if sl.upper is not None else env["__n__"]
            return (lo, hi)
        raise AnalysisError("pnpoly.points_in_poly: block "
                            f"`{short(sl, 30)}` not understood")

    def handle_call(c_, env, target):
        bb = bind_args(c_, fp, "pnpoly.points_in_poly")
        if txt(bb.get(V)) != VT:
            return f"the vertices passed are `{short(bb.get(V), 30)}`"
        a_ = bb.get(P)
        if isinstance(a_, ast.Name) and a_.id == PT:
            cover = (0, env["__n__"])
        elif isinstance(a_, ast.Subscript) and txt(a_.value) == PT:
            cover = interval(a_.slice, env)
        else:
            return (f"`{short(a_, 30)}` is handed to the compiled routine "
                    f"instead of `{PT}`")
        if target is not None:
            if interval(target, env) != cover:
                return (f"block {cover} of the points is written to "
                        f"{interval(target, env)} of the result")
        env["__cov__"].append(cover)
        return None

    def run(stmts, env):
        for st in stmts:
            if isinstance(st, ast.Return):
                v = deref(w, st.value) if isinstance(st.value, ast.Name) \
                    and st.value.id not in env.get("__res__", ()) \
                    else st.value
                if is_compiled(v):
                    err = handle_call(v, env, None)
                    if err:
                        env["__err__"] = err
                raise Done()
            if isinstance(st, ast.If):
                try:
                    t_ = ev(st.test, env)
                except _NoEval as e:
                    raise AnalysisError(f"pnpoly.points_in_poly: test: {e}")
                run(st.body if t_ else st.orelse, env)
            elif isinstance(st, ast.For) and isinstance(
                    st.target, ast.Name) and isinstance(
                    st.iter, ast.Call) and call_name(st.iter) == "range" \
                    and not st.orelse:
                try:
                    rng = range(*[ev(a_, env) for a_ in st.iter.args])
                except (_NoEval, TypeError) as e:
                    raise AnalysisError(f"pnpoly.points_in_poly: range: {e}")
                for i_ in rng:
                    env[st.target.id] = i_
                    run(st.body, env)
            elif isinstance(st, ast.Assign) and len(st.targets) == 1:
                t_, v_ = st.targets[0], st.value
                if isinstance(t_, ast.Name) and t_.id == PT:
                    continue        # conversion of the parameter (checked)
                if isinstance(t_, ast.Name) and isinstance(
                        v_, ast.Call) and call_name(v_) == "slice" \
                        and len(v_.args) == 2:
                    try:
                        env[t_.id] = (ev(v_.args[0], env),
                                      ev(v_.args[1], env))
                    except _NoEval as e:
                        raise AnalysisError(
                            f"pnpoly.points_in_poly: slice: {e}")
                elif isinstance(t_, ast.Name) and isinstance(
                        v_, ast.Call) and (call_name(v_) or "").split(
                        ".")[-1] in ("zeros", "empty", "zeros_like",
                                     "empty_like", "ones"):
                    env.setdefault("__res__", set()).add(t_.id)
                elif isinstance(t_, ast.Subscript) and isinstance(
                        t_.value, ast.Name) and t_.value.id in env.get(
                        "__res__", ()) and is_compiled(v_):
                    err = handle_call(v_, env, t_.slice)
                    if err:
                        env["__err__"] = err
                elif isinstance(t_, ast.Name):
                    try:
                        env[t_.id] = ev(v_, env)
                    except _NoEval as e:
                        raise AnalysisError("pnpoly.points_in_poly: "
                                            f"`{short(st, 40)}`: {e}")
                else:
                    raise AnalysisError("pnpoly.points_in_poly: statement "
                                        f"`{short(st, 40)}` not understood")
            else:
                raise AnalysisError("pnpoly.points_in_poly: statement "
                                    f"`{short(st, 40)}` not understood")
    for n in (0, 1, 3, 4, 5, 8, 9, 11, 12, 13):
        env = dict(consts)
        env.update({"__n__": n, f"{PT}.shape": (n, 2), PT: [0] * n,
                    f"{PT}.size": 2 * n, "__cov__": []})
        try:
            run(body, env)
            raise AnalysisError("pnpoly.points_in_poly: a path ends without "
                                "return")
        except Done:
            pass
        if env.get("__err__"):
            return False, "pnpoly.points_in_poly: " + env["__err__"]
        seen = [0] * n
        for lo, hi in env["__cov__"]:
            for k in range(max(lo, 0), min(hi, n)):
                seen[k] += 1
        if any(v != 1 for v in seen):
            miss = [k for k, v in enumerate(seen) if v == 0]
            return False, (
                f"executed for {n} points with a block size of 4: the "
                f"blocks handed to the compiled routine are "
                f"{env['__cov__']}"
                + (f" – points {miss[0]}..{miss[-1]} are never evaluated "
                   "(reported as outside every polygon)" if miss else
                   " – some points are evaluated twice"))
    return True, ""


def _copy_inversion(ctx, repo):
    """copy(invert) yields a filter whose inversion state is
    self.inverted XOR invert – executed on the four combinations"""
    cp = repo.func(POLY, "PolygonFilter.copy")
    par = params_of(cp)
    if len(par) != 2:
        raise AnalysisError(f"PolygonFilter.copy: parameters {par}")
    INVP = par[1]
    rets = [n for n in walk(cp) if isinstance(n, ast.Return)]
    if len(rets) != 1 or cp.body[-1] is not rets[0]:
        raise AnalysisError("PolygonFilter.copy: expected a single final "
                            "return")
    rv = deref(cp, rets[0].value)
    if not (isinstance(rv, ast.Call) and (
            call_name(rv) in ("PolygonFilter", "self.__class__")
            or txt(rv.func) == "type(self)")):
        raise AnalysisError("PolygonFilter.copy: the value returned is not a "
                            "new PolygonFilter")
    init_par = params_of(repo.func(POLY, "PolygonFilter.__init__"))[1:]
    kws = bind_args(rv, init_par, "PolygonFilter.copy")
    if "inverted" not in kws:
        raise AnalysisError("PolygonFilter.copy: constructor arguments not "
                            "understood")
    body = [x for x in cp.body[:-1] if not (
        isinstance(x, ast.Expr) and isinstance(x.value, ast.Constant))]
    if isinstance(rets[0].value, ast.Name):
        body = [x for x in body if not (
            isinstance(x, ast.Assign) and txt(x.targets[0]) == txt(
                rets[0].value))]
    bad = []
    for a in (False, True):
        for b in (False, True):
            env = {"self.inverted": a, INVP: b}
            try:
                _exec(body, env)
                got = ev(kws["inverted"], env)
            except _NoEval as e:
                raise AnalysisError(f"PolygonFilter.copy: {e}")
            if bool(got) != (a != b):
                bad.append((a, b, bool(got)))
    ctx.ob("R15.2", not bad,
           "copy(invert) passes inverted = self.inverted XOR invert "
           "(executed on the four combinations)" if not bad else
           f"copy(invert={bad[0][1]}) of a filter with inverted="
           f"{bad[0][0]} has inverted={bad[0][2]}: the inverted copy is not "
           "the complement of the original", node=rets[0],
           label="copy inversion")
    want = {"axes": "self.axes", "points": "self.points",
            "name": "self.name"}
    have = {k: txt(deref(cp, v)) for k, v in kws.items() if k in want}
    ctx.ob("R15.2", have == want,
           "the copy takes axes, points and name of the original"
           if have == want else
           f"the copy is constructed with {have}, expected {want}",
           node=rets[0], label="copy geometry", nontrivial=False)


_NP_MAY_ALIAS = ("asarray", "asanyarray", "ascontiguousarray",
                 "asfortranarray", "atleast_1d", "atleast_2d", "atleast_3d",
                 "squeeze", "reshape", "ravel", "transpose", "require",
                 "real", "flipud", "fliplr", "swapaxes", "moveaxis")
_METH_MAY_ALIAS = ("view", "reshape", "ravel", "squeeze", "transpose",
                   "swapaxes", "__array__")


def _copy_flag(call, what):
    """True / False for the literal `copy=` keyword of a call (default
    True)"""
    kws = [k for k in call.keywords if k.arg == "copy"]
    if any(k.arg is None for k in call.keywords):
        raise AnalysisError(f"{what}: **keywords in `{short(call, 40)}`")
    if not kws:
        return True
    v = kws[0].value
    if isinstance(v, ast.Constant) and v.value in (True, False, None):
        return v.value is True
    raise AnalysisError(f"{what}: copy= of `{short(call, 40)}` is not a "
                        "literal")


def _aliases_field(func, e, raw, depth=0):
    """(aliases, node): may the array `e` evaluates to share its memory with
    the ndarray stored in self.<raw>?  Decided for numpy conversion idioms;
    anything else that mentions the field is not classified."""
    what = f"PolygonFilter.{func.name}"
    if depth > 8:
        raise AnalysisError(f"{what}: definition chain too deep")
    e = deref(func, e)
    if is_self_attr(e, raw):
        return True, e
    if f"self.{raw}" not in txt(e) and not (
            names_in(e) - {"self", "np", "numpy"}):
        return False, e
    if isinstance(e, ast.IfExp):
        a = _aliases_field(func, e.body, raw, depth + 1)
        b = _aliases_field(func, e.orelse, raw, depth + 1)
        return a if a[0] else b
    if isinstance(e, ast.Attribute) and e.attr in ("T", "real", "base"):
        return _aliases_field(func, e.value, raw, depth + 1)
    if isinstance(e, ast.Subscript):
        return _aliases_field(func, e.value, raw, depth + 1)
    if isinstance(e, ast.Call):
        name = call_name(e) or ""
        mod, _, tail = name.rpartition(".")
        if mod in ("np", "numpy"):
            arg = e.args[0] if e.args else None
            if arg is None:
                kw = [k.value for k in e.keywords
                      if k.arg in ("a", "object", "arr")]
                arg = kw[0] if kw else None
            if arg is None:
                raise AnalysisError(f"{what}: `{short(e, 40)}`")
            if tail == "array":
                if len(e.args) > 2:
                    raise AnalysisError(f"{what}: positional arguments of "
                                        f"`{short(e, 40)}`")
                if _copy_flag(e, what):
                    return False, e
                sub = _aliases_field(func, arg, raw, depth + 1)
                return (sub[0], e)
            if tail == "copy":
                return False, e
            if tail in _NP_MAY_ALIAS:
                sub = _aliases_field(func, arg, raw, depth + 1)
                return (sub[0], e)
            raise AnalysisError(f"{what}: numpy call `{short(e, 40)}` not "
                                "classified (copy or view?)")
        if isinstance(e.func, ast.Attribute):
            meth = e.func.attr
            if meth in ("copy", "tolist", "tobytes", "__deepcopy__"):
                return False, e
            if meth == "astype":
                if _copy_flag(e, what):
                    return False, e
                sub = _aliases_field(func, e.func.value, raw, depth + 1)
                return (sub[0], e)
            if meth in _METH_MAY_ALIAS:
                sub = _aliases_field(func, e.func.value, raw, depth + 1)
                return (sub[0], e)
        if name in ("copy.copy", "copy.deepcopy", "list"):
            return False, e
    raise AnalysisError(f"{what}: `{short(e, 40)}` is not classified as a "
                        "copy or a view of the stored vertices")


def _handed_out(getter, value, raw):
    """('fresh' | 'readonly' | 'alias', node) for the value a property
    returns, with respect to the backing field self.<raw>"""
    what = f"PolygonFilter.{getter.name}"
    if isinstance(value, ast.Name):
        # made read-only unconditionally before it is returned
        locked = False
        for st in getter.body:
            if isinstance(st, ast.Assign) and len(st.targets) == 1 and txt(
                    st.targets[0]) == f"{value.id}.flags.writeable":
                if not (isinstance(st.value, ast.Constant)
                        and st.value.value in (True, False)):
                    raise AnalysisError(f"{what}: `{short(st, 40)}`")
                locked = st.value.value is False
            elif isinstance(st, ast.Expr) and isinstance(
                    st.value, ast.Call) and txt(
                    st.value.func) == f"{value.id}.setflags":
                w = kwarg(st.value, "write", 0)
                if not (isinstance(w, ast.Constant)
                        and w.value in (True, False, 0, 1)):
                    raise AnalysisError(f"{what}: `{short(st, 40)}`")
                locked = not w.value
        if locked:
            return "readonly", value
        binds = single_assign(getter, value.id)
        if len(binds) > 1:
            # re-bound local: each binding is a conversion of the previous
            # one or of the field; alias if the chain never copies
            if any(getattr(b, "parent", None) not in getter.body
                   for b in binds):
                raise AnalysisError(f"{what}: `{value.id}` is re-bound "
                                    "under a condition")
            alias = False
            for b in binds:
                if value.id in names_in(b):
                    # shares memory with the field iff the previous value
                    # did and this conversion does not copy
                    a, _ = _aliases_field(
                        getter, _subst(b, value.id, raw), raw)
                    alias = alias and a
                else:
                    alias, _ = _aliases_field(getter, b, raw)
            return ("alias" if alias else "fresh"), binds[-1]
    a, node = _aliases_field(getter, value, raw)
    return ("alias" if a else "fresh"), node


def _subst(expr, name, raw):
    """expr with the local `name` replaced by self.<raw>"""
    class _S(ast.NodeTransformer):
        def visit_Name(self, n):
            if n.id == name and isinstance(n.ctx, ast.Load):
                return ast.copy_location(ast.Attribute(
                    value=ast.Name(id="self", ctx=ast.Load()), attr=raw,
                    ctx=ast.Load()), n)
            return n
    return ast.fix_missing_locations(_S().visit(copy.deepcopy(expr)))


def _normalised_vertices(ctx, repo):
    """the vertices are only read through the `points` property (always a
    float array); the raw backing field may hold nested lists (setter,
    __setstate__) whose byte representation / shape differ"""
    cls = repo.cls(POLY, "PolygonFilter")
    members = class_members(repo, POLY, cls)
    getter = setter = None
    for f in members:
        if isinstance(f, ast.FunctionDef) and f.name == "points":
            decs = [txt(d) for d in f.decorator_list]
            if "property" in decs:
                getter = f
            elif "points.setter" in decs:
                setter = f
    if getter is None or setter is None:
        raise AnalysisError("PolygonFilter.points: property / setter lost")
    stored = [n.targets[0].attr for n in walk(setter)
              if isinstance(n, ast.Assign) and is_self_attr(n.targets[0])]
    if len(stored) != 1:
        raise AnalysisError("PolygonFilter.points setter: backing field")
    raw = stored[0]
    rets = [n for n in walk(getter) if isinstance(n, ast.Return)]
    normal = len(rets) == 1 and rets[0].value is not None and any(
        isinstance(c_, ast.Call) and (call_name(c_) or "").split(".")[-1] in (
            "array", "asarray", "ascontiguousarray") and raw in txt(c_)
        for v_ in ([rets[0].value] + [
            b_ for nm_ in sorted(names_in(rets[0].value) - {"self"})
            for b_ in single_assign(getter, nm_)])
        for c_ in ast.walk(v_))
    ctx.ob("R15.2", normal,
           f"the `points` property returns the backing field `{raw}` as an "
           "array" if normal else
           "the `points` property no longer normalises the stored vertices "
           "to an array", node=getter, label="points property normalises",
           nontrivial=False)
    # what the property hands out cannot be used to rewrite the filter:
    # a fresh array on every access, or an array that is made read-only
    if len(rets) == 1 and rets[0].value is not None:
        kind, via = _handed_out(getter, rets[0].value, raw)
        ctx.ob("R15.2", kind in ("fresh", "readonly"),
               "the `points` property hands out "
               + ("a fresh array" if kind == "fresh" else "a read-only array")
               + f" (`{short(via, 40)}`): editing it cannot rewrite the filter"
               if kind in ("fresh", "readonly") else
               f"the `points` property hands out the filter's own vertex "
               f"buffer (`{short(via, 40)}` does not copy an ndarray stored "
               f"in `self.{raw}`): a caller that edits the returned array in "
               "place (rescaling the vertices for a second filter) rewrites "
               "this filter's polygon, its hash and what save() writes",
               node=getter, key=f"{POLY}::PolygonFilter.points::vertices "
               "handed out do not alias the stored buffer")
    # new vertices are stored unconditionally or under an exact comparison
    TOL = ("allclose", "isclose", "round", "around", "rint", "assert_allclose")
    loose = None
    for f in members:
        if not isinstance(f, ast.FunctionDef):
            continue
        for n in walk(f):
            if isinstance(n, ast.Assign) and any(
                    is_self_attr(t, "points") or is_self_attr(t, raw)
                    for t in n.targets):
                a_ = n
                while a_ is not f:
                    par = a_.parent
                    if isinstance(par, (ast.If, ast.While)) and any(
                            isinstance(c_, ast.Call) and last_attr(c_) in TOL
                            for c_ in ast.walk(par.test)):
                        loose = loose or (f, n, par)
                    a_ = par
    ctx.ob("R15.2", loose is None,
           "vertices handed to the filter are stored unconditionally or "
           "under an exact comparison" if loose is None else
           f"`{loose[0].name}` stores the new vertices only under "
           f"`{short(loose[2].test, 50)}` – a tolerance comparison: changes "
           "below the tolerance are ignored and the filter keeps "
           "classifying against the old polygon", node=loose[2].test
           if loose else getter, label="vertices stored exactly")
    leaks = []
    for f in members:
        if not isinstance(f, ast.FunctionDef) or f in (getter, setter):
            continue
        for n in walk(f):
            if is_self_attr(n, raw) and isinstance(n.ctx, ast.Load):
                leaks.append((f, n))
    ctx.ob("R15.2", not leaks,
           f"no method reads the raw field `{raw}`: hash, filter, save and "
           "__getstate__ see the normalised vertex array" if not leaks else
           f"`{leaks[0][0].name}` reads the raw field `self.{raw}` instead "
           "of the `points` property: lists assigned through the setter / "
           "__setstate__ are not normalised (e.g. the hash of nested lists "
           "concatenates the numbers, different polygons collide and the "
           "filter cache keeps the old classification)",
           node=leaks[0][1] if leaks else cls,
           key=f"{POLY}::PolygonFilter::raw vertices not read")


def single_assign_loose(func, name):
    return [n.value for n in walk(func) if isinstance(n, ast.Assign)
            and len(n.targets) == 1 and isinstance(n.targets[0], ast.Name)
            and n.targets[0].id == name]


def module_aliases(repo, rel):
    """{local name: module tail} for `import a.b as x`, `from . import m
    [as x]`, `from .pkg import m [as x]` (the latter only when m is not a
    known function import – decided by the caller)"""
    out = {}
    for n in repo.tree(rel).body:
        if isinstance(n, ast.Import):
            for a in n.names:
                out[a.asname or a.name.split(".")[0]] = a.name.split(".")[-1]
        elif isinstance(n, ast.ImportFrom):
            for a in n.names:
                out.setdefault(a.asname or a.name, a.name)
    return out


def resolved_callee(repo, rel, call):
    """(module tail or None, function name) of a call `f(..)` or
    `<module alias>.f(..)`"""
    f = call.func
    if isinstance(f, ast.Name):
        return None, f.id
    if isinstance(f, ast.Attribute) and isinstance(f.value, ast.Name):
        al = module_aliases(repo, rel)
        if f.value.id in al:
            return al[f.value.id], f.attr
    return None, None


def _imports(repo, rel, mod_tail, name):
    for n in repo.tree(rel).body:
        # the module itself is imported and the function used through it
        if isinstance(n, ast.ImportFrom) and any(
                a.name == mod_tail for a in n.names):
            alias = [a.asname or a.name for a in n.names
                     if a.name == mod_tail][0]
            if any(isinstance(c, ast.Attribute) and c.attr == name
                   and isinstance(c.value, ast.Name) and c.value.id == alias
                   for c in ast.walk(repo.tree(rel))):
                return True
    for n in repo.tree(rel).body:
        if isinstance(n, ast.ImportFrom) and (n.module or "").split(
                ".")[-1] == mod_tail:
            for a in n.names:
                if a.name == name and (a.asname in (None, name)):
                    return True
    return False


def class_members(repo, rel, cls):
    """statements of the class body followed by those of its base classes
    defined in the same module (own definitions first, as in the MRO)"""
    out, seen, todo = [], set(), [cls]
    while todo:
        c = todo.pop(0)
        if c.name in seen:
            continue
        seen.add(c.name)
        names = {f.name for f in out if isinstance(f, ast.FunctionDef)}
        out += [f for f in c.body if not (isinstance(f, ast.FunctionDef)
                                          and f.name in names)]
        for b in c.bases:
            if isinstance(b, ast.Name):
                bc = repo.cls(rel, b.id, missing_ok=True)
                if bc is not None:
                    todo.append(bc)
    return out


def update_inlined(repo):
    """Filter.update with its sequentially called private steps read in
    place"""
    return inline_helpers(repo, FILT, repo.func(FILT, "Filter.update"),
                          keep=("_init_rtdc_ds", "_get_rw_array"))


def _filter_stateless(ctx, filt, call):
    """filter() returns a classification created in this call: it stores
    nothing on the instance / class and the mask it inverts and returns is
    the result of this call's containment test"""
    stores = []
    for n in walk(filt):
        tg = []
        if isinstance(n, ast.Assign):
            tg = n.targets
        elif isinstance(n, (ast.AugAssign, ast.AnnAssign)):
            tg = [n.target]
        elif isinstance(n, (ast.Global, ast.Nonlocal)):
            stores.append(n)
        for t in tg:
            b = t
            while isinstance(b, ast.Subscript):
                b = b.value
            if isinstance(b, ast.Attribute) and (
                    txt(b.value) in ("self", "PolygonFilter", "type(self)",
                                     "self.__class__", "cls")):
                stores.append(n)
        if isinstance(n, ast.Call) and isinstance(
                n.func, ast.Attribute) and n.func.attr in (
                "append", "update", "setdefault", "pop", "clear", "add",
                "extend", "insert") and isinstance(
                n.func.value, ast.Attribute) and txt(
                n.func.value.value) in ("self", "PolygonFilter", "cls",
                                        "type(self)", "self.__class__"):
            stores.append(n)
    st = call.parent
    alias = []
    if isinstance(st, ast.Assign) and len(st.targets) == 1 and isinstance(
            st.targets[0], ast.Name):
        fv = st.targets[0].id
        for n in walk(filt):
            if isinstance(n, ast.Assign) and n is not st and any(
                    isinstance(t, ast.Name) and t.id == fv
                    for t in n.targets) and fv not in names_in(n.value):
                alias.append(n)
    ok = not stores and not alias
    ctx.ob("R15.2", ok,
           "filter() keeps no state: nothing is stored on the instance or "
           "the class, and the mask it inverts and returns is created by "
           "this call's containment test" if ok else
           (f"filter() stores `{short(stores[0], 40)}` on the instance / "
            "class: a classification remembered between calls is inverted "
            "in place by the next call (every second call is wrong) and "
            "does not see changed inversion" if stores else
            f"`{short(alias[0], 40)}`: the mask that is inverted in place "
            "and returned is not created in this call"),
           node=(stores or alias or [filt])[0], label="filter stateless")
    return ok


def _digest_coverage(ctx, repo, filt):
    """every hash-like property of a polygon filter that Filter.update
    consults to re-use a cached classification digests everything the
    classification reads (vertices, inversion, axes)"""
    cls = repo.cls(POLY, "PolygonFilter")
    members = class_members(repo, POLY, cls)
    props = {}
    for f in members:
        if isinstance(f, ast.FunctionDef) and any(
                txt(d) == "property" for d in f.decorator_list):
            props[f.name] = f
    hashlike = {n: f for n, f in props.items()
                if any(isinstance(c, ast.Call) and (call_name(c) or ""
                                                    ).split(".")[-1] in (
                    "hashobj", "md5", "sha256", "hash", "hashfile")
                    for c in walk(f))}
    upd = update_inlined(repo)
    def callee_attr(c_):
        f_ = c_.func
        if isinstance(f_, ast.Name):
            vals = single_assign_loose(upd, f_.id)
            if len(vals) == 1 and isinstance(vals[0], ast.Attribute):
                return vals[0].attr     # local alias of a bound method
        return last_attr(c_)
    pfs = {n.targets[0].id for n in walk(upd) if isinstance(n, ast.Assign)
           and isinstance(n.targets[0], ast.Name) and isinstance(
               n.value, ast.Call) and callee_attr(n.value) in (
               "get_instance_from_id",)}
    if len(pfs) != 1:
        raise AnalysisError("Filter.update: polygon filter instance "
                            "variable not found")
    pf = pfs.pop()
    reads = [n for n in walk(upd) if isinstance(n, ast.Attribute)
             and isinstance(n.value, ast.Name) and n.value.id == pf]
    methods = {f.name for f in members if isinstance(f, ast.FunctionDef)
               and f.name not in props}
    # what the classification depends on
    need = {n.attr for n in walk(filt) if is_self_attr(n) and isinstance(
        n.ctx, ast.Load) and n.attr not in methods
        and not n.attr.startswith("_")}
    need |= {n.attr for n in reads if n.attr not in hashlike
             and n.attr not in methods}
    used = sorted({n.attr for n in reads if n.attr in hashlike})
    if not used:
        raise AnalysisError("Filter.update consults no digest of the "
                            "polygon filter")
    for h in used:
        covered = {n.attr for n in walk(hashlike[h]) if is_self_attr(n)}
        # attributes compared next to the digest (same statement) count
        side = set()
        for n in reads:
            if n.attr == h:
                stt = n
                while not isinstance(stt, ast.stmt):
                    stt = stt.parent
                roots = [stt.test] if isinstance(stt, ast.If) else [stt]
                for r_ in roots:
                    side |= {m.attr for m in ast.walk(r_)
                             if isinstance(m, ast.Attribute) and isinstance(
                                 m.value, ast.Name) and m.value.id == pf
                             and m.attr not in hashlike
                             and m.attr not in methods}
        # (data selectors such as pf.axes[0] inside the same statement as a
        # digest would be an unusual shape; they are not in today's code)
        miss = sorted(need - covered - side)
        ctx.ob("R15.2", not miss,
               f"the digest `{h}` consulted by Filter.update covers "
               f"everything the classification reads ({sorted(need)})"
               if not miss else
               f"Filter.update re-uses cached polygon results on the digest "
               f"`{h}`, which does not cover {miss}: a filter whose "
               f"{miss[0]} changed keeps (or flips) the classification of "
               "the old one", node=hashlike[h],
               key=f"{POLY}::PolygonFilter.{h}::digest covers classification "
               "inputs")


def _array_digest_order(ctx, repo):
    """the bytes digested for an array are its elements in logical (C)
    order: equal vertex arrays hash equal whatever their memory layout, and
    transposed contents do not collide"""
    UTIL = "dclab/util.py"
    f = repo.func(UTIL, "obj2bytes")
    calls = [c for c in walk(f) if isinstance(c, ast.Call) and last_attr(
        c) in ("tobytes", "tostring")]
    if not calls:
        raise AnalysisError("util.obj2bytes: array serialisation not found")
    bad = None
    for c in calls:
        o = kwarg(c, "order", 0)
        if o is not None and const_str(o) != "C":
            bad = c
    ctx.ob("R15.2", bad is None,
           "arrays are digested in logical order (tobytes() / order='C')"
           if bad is None else
           f"`{short(bad, 40)}` digests the memory image: a Fortran-ordered "
           "vertex array hashes like its transpose, equal polygons in "
           "different layouts hash differently – the cached classification "
           "is kept / dropped wrongly", node=bad or calls[0],
           label="array digest order")


def _is_diagnostic(call):
    """logging / print / warnings calls do not change the data"""
    n = call_name(call) or ""
    parts = n.split(".")
    if n in ("print", "warnings.warn"):
        return True
    if parts[-1] in ("debug", "info", "warning", "error", "exception",
                     "critical", "log") and len(parts) >= 2 and (
            "log" in parts[-2].lower() or parts[0] == "logging"):
        return True
    return False


def _inversion(ctx, filt, call):
    """the mask returned is the routine's result, inverted iff
    self.inverted – decided by executing the statements after the call for
    both values of the flag (either polarity, early returns, conditional
    expressions)"""
    st = call.parent
    if not (isinstance(st, ast.Assign) and len(st.targets) == 1
            and isinstance(st.targets[0], ast.Name)):
        raise AnalysisError("PolygonFilter.filter: result of points_in_poly "
                            "is not bound to a name")
    if not any(st is s for s in filt.body):
        raise AnalysisError("PolygonFilter.filter: the containment call is "
                            "not a top-level statement")
    fv0 = st.targets[0].id
    rets = [n for n in walk(filt) if isinstance(n, ast.Return)]
    if not rets:
        raise AnalysisError("PolygonFilter.filter: no return")
    INV = ("np.invert", "np.logical_not", "np.bitwise_not")
    identity = []

    def flag(e, inverted):
        """truth value of a test on self.inverted (None: not such a test)"""
        if is_self_attr(e, "inverted"):
            return inverted
        if isinstance(e, ast.UnaryOp) and isinstance(e.op, ast.Not):
            v = flag(e.operand, inverted)
            return None if v is None else not v
        if isinstance(e, ast.Compare) and len(e.ops) == 1:
            l, r = e.left, e.comparators[0]
            if is_self_attr(r, "inverted"):
                l, r = r, l
            if is_self_attr(l, "inverted") and isinstance(
                    r, ast.Constant) and isinstance(r.value, bool):
                if isinstance(e.ops[0], (ast.Is, ast.IsNot)):
                    identity.append(e)
                if isinstance(e.ops[0], (ast.Is, ast.Eq)):
                    return inverted == r.value
                if isinstance(e.ops[0], (ast.IsNot, ast.NotEq)):
                    return inverted != r.value
        return None

    class Discarded(Exception):
        pass

    def value(e, env, inverted):
        """parity (0: the mask, 1: its complement) of a mask expression"""
        if isinstance(e, ast.Name) and e.id in env:
            return env[e.id]
        if isinstance(e, ast.UnaryOp) and isinstance(e.op, ast.Invert):
            return 1 - value(e.operand, env, inverted)
        if isinstance(e, ast.Call) and call_name(e) in INV and len(
                e.args) == 1 and not e.keywords:
            return 1 - value(e.args[0], env, inverted)
        if isinstance(e, ast.IfExp):
            v = flag(e.test, inverted)
            if v is not None:
                return value(e.body if v else e.orelse, env, inverted)
        if isinstance(e, ast.BinOp) and isinstance(
                e.op, ast.BitXor):
            for x, y in ((e.left, e.right), (e.right, e.left)):
                if is_self_attr(y, "inverted"):
                    return value(x, env, inverted) ^ int(inverted)
        raise AnalysisError("PolygonFilter.filter: mask expression "
                            f"`{short(e, 40)}` not understood")

    def run(stmts, env, inverted):
        """-> parity returned, or None when falling through"""
        for s in stmts:
            if isinstance(s, ast.Return):
                if s.value is None:
                    raise AnalysisError("PolygonFilter.filter: bare return")
                return value(s.value, env, inverted)
            if isinstance(s, ast.If):
                v = flag(s.test, inverted)
                if v is None:
                    if not (names_in(s) & set(env)):
                        continue
                    raise AnalysisError(
                        "PolygonFilter.filter: branch "
                        f"`{short(s.test, 40)}` not understood")
                r = run(s.body if v else s.orelse, env, inverted)
                if r is not None:
                    return r
                continue
            touched = names_in(s) & set(env)
            if isinstance(s, ast.Expr) and isinstance(s.value, ast.Call) \
                    and _is_diagnostic(s.value):
                continue        # logging / print / warnings: no effect
            if not touched:
                if isinstance(s, (ast.For, ast.While, ast.Try, ast.With)) \
                        and any(isinstance(x, ast.Return) for x in walk(s)):
                    raise AnalysisError("PolygonFilter.filter: return "
                                        "inside a compound statement")
                continue
            if isinstance(s, ast.Expr) and isinstance(s.value, ast.Call) \
                    and call_name(s.value) in INV and s.value.args:
                c = s.value
                out = kwarg(c, "out", 1)
                if out is None:
                    notes.append(f"`{short(s, 40)}` computes the complement "
                                 "and discards it")
                    continue
                if isinstance(out, ast.Name) and out.id in env:
                    env[out.id] = 1 - value(c.args[0], env, inverted)
                    continue
            if isinstance(s, ast.Assign) and len(s.targets) == 1:
                t = s.targets[0]
                name = None
                if isinstance(t, ast.Name):
                    name = t.id
                elif isinstance(t, ast.Subscript) and isinstance(
                        t.value, ast.Name) and txt(t.slice) in (":", "..."):
                    name = t.value.id
                if name is not None:
                    env[name] = value(s.value, env, inverted)
                    continue
            if isinstance(s, ast.AugAssign) and isinstance(
                    s.target, ast.Name) and s.target.id in env \
                    and isinstance(s.op, ast.BitXor):
                if txt(s.value) == "True":
                    env[s.target.id] ^= 1
                    continue
                if is_self_attr(s.value, "inverted"):
                    env[s.target.id] ^= int(inverted)
                    continue
            raise AnalysisError("PolygonFilter.filter: statement "
                                f"`{short(s, 40)}` touching the mask not "
                                "understood")
        return None

    idx = [i for i, s in enumerate(filt.body) if s is st][0]
    # a return before the containment call by-passes the inversion
    # decision: allowed only when the input is empty
    tail = {id(n) for s_ in filt.body[idx + 1:] for n in walk(s_)}
    params_ = params_of(filt)[1:]
    bypass = None
    for r in rets:
        if id(r) in tail:
            continue
        guard = r.parent if isinstance(r.parent, ast.If) and any(
            r is x for x in r.parent.body) else None
        empty = guard is not None and re.fullmatch(
            r"(not )?(len\((%s)\)|(%s)\.(size|shape\[0\]))"
            r"( (==|<=|<) [01])?" % ("|".join(params_), "|".join(params_)),
            txt(guard.test)) is not None
        if not empty:
            bypass = bypass or (r, guard)
    ctx.ob("R15.2", bypass is None,
           "no return by-passes the inversion decision (early returns only "
           "for empty input)" if bypass is None else
           f"`{short(bypass[0], 40)}`" + (
               f" under `{short(bypass[1].test, 50)}`"
               if bypass[1] is not None else "")
           + " returns before the inversion decision: for an inverted "
           "filter the complement is not formed on this path (e.g. all "
           "events outside the bounding box are dropped instead of kept)",
           node=bypass[0] if bypass else filt,
           label="inversion not by-passed")
    got = {}
    notes = []
    for inverted in (False, True):
        r = run(filt.body[idx + 1:], {fv0: 0}, inverted)
        if r is None:
            raise AnalysisError("PolygonFilter.filter: a path does not "
                                "return the mask")
        got[inverted] = r
    ok = got == {False: 0, True: 1}
    if ok and identity:
        ok = False
        why = (f"`{short(identity[0], 40)}` tests the identity of the "
               "inversion flag with a bool literal: a flag that is truthy "
               "but not the object True (numpy.bool_ from a comparison or a "
               "loaded session, 1) is treated as not inverted")
    elif ok:
        why = ""
    elif got == {False: 0, True: 0}:
        why = ("the mask is returned as computed also for an inverted "
               "filter" + (": " + notes[0] if notes else ""))
    elif got == {False: 1, True: 0}:
        why = "the mask is inverted when the filter is NOT inverted"
    else:
        why = "a plain filter returns the complement of the containment mask"
    ctx.ob("R15.2", ok,
           "an inverted filter returns the complement of the containment "
           "mask, a plain one the mask itself (executed for both values of "
           "self.inverted)" if ok else why,
           node=rets[-1], label="inversion")


# ----------------------------------------------------------------------
# R15.3

class Field:
    def __init__(self, expr, conv, spec):
        self.expr, self.conv, self.spec = expr, conv, spec


def line_templates(func):
    """[(node, [literal | Field, ...])] for every formatted text line"""
    out = []
    for n in walk(func):
        if isinstance(n, ast.Call) and isinstance(
                n.func, ast.Attribute) and n.func.attr == "format" \
                and const_str(n.func.value) is not None:
            parts = []
            auto = 0
            try:
                parsed = list(string.Formatter().parse(
                    const_str(n.func.value)))
            except ValueError as e:
                raise AnalysisError(f"save: format string: {e}")
            for lit, field, spec, conv in parsed:
                if lit:
                    parts.append(lit)
                if field is None:
                    continue
                if field == "":
                    k = auto
                    auto += 1
                elif field.isdigit():
                    k = int(field)
                else:
                    kw = [x.value for x in n.keywords if x.arg == field]
                    if not kw:
                        raise AnalysisError("save: format field " + field)
                    parts.append(Field(kw[0], conv, spec or ""))
                    continue
                if k >= len(n.args):
                    raise AnalysisError("save: format arguments")
                parts.append(Field(n.args[k], conv, spec or ""))
            out.append((n, parts))
        elif isinstance(n, ast.JoinedStr):
            parts = []
            for v in n.values:
                if isinstance(v, ast.Constant):
                    parts.append(str(v.value))
                else:
                    spec = ""
                    if v.format_spec is not None:
                        if not all(isinstance(x, ast.Constant)
                                   for x in v.format_spec.values):
                            raise AnalysisError("save: nested format spec")
                        spec = "".join(x.value for x in v.format_spec.values)
                    conv = {-1: None, 115: "s", 114: "r", 97: "a"}[
                        v.conversion]
                    parts.append(Field(v.value, conv, spec))
            out.append((n, parts))
        elif isinstance(n, ast.BinOp) and isinstance(n.op, ast.Mod) \
                and const_str(n.left) is not None:
            raise AnalysisError("save: %-formatting not understood")
    return out


def sig_digits(field):
    """significant decimal digits guaranteed by a float format field;
    None = shortest round-trip representation"""
    if field.conv == "r":
        return None
    spec = field.spec
    e = field.expr
    if isinstance(e, ast.Call) and (call_name(e) == "repr" or last_attr(
            e) == "hex"):
        return None
    if spec == "":
        return None     # str(float) is the shortest round-trip repr
    m = re.fullmatch(r"[<>=^]?[-+ ]?#?0?\d*[,_]?(?:\.(\d+))?([eEfFgG%]?)",
                     spec)
    if not m:
        raise AnalysisError(f"save: float format spec {spec!r}")
    prec, typ = m.group(1), m.group(2)
    if typ in ("e", "E"):
        return (int(prec) if prec is not None else 6) + 1
    if typ in ("g", "G", ""):
        if prec is None:
            return None if typ == "" else 6
        return int(prec)
    return 0        # fixed-point: no guaranteed number of significant digits


def literal_of(parts):
    return "".join(p for p in parts if isinstance(p, str))


def r153(ctx, repo):
    # extracted private helpers are read as part of the method
    save = inline_helpers(repo, POLY, repo.func(POLY, "PolygonFilter.save"))
    load = inline_helpers(repo, POLY, repo.func(POLY, "PolygonFilter._load"),
                          keep=("_set_unique_id", "_check_data"))
    tmpl = [(n, p) for n, p in line_templates(save)
            if any(isinstance(x, Field) for x in p)]
    if len(tmpl) < 3:
        raise AnalysisError("PolygonFilter.save: line templates lost")
    # reader: head detection and dispatch loop
    disp = None
    VAR = VAL = unpack = None
    for lp in walk(load):
        if not isinstance(lp, ast.For):
            continue
        shape = _loop_dispatch(lp)
        if shape is None:
            continue
        pre = shape[0]
        if isinstance(lp.target, ast.Tuple) and len(lp.target.elts) == 2 \
                and all(isinstance(x.targets[0], ast.Name) for x in pre):
            disp, disp_shape = lp, shape
            VAR, VAL = [txt(x) for x in lp.target.elts]
            unpack = None
        elif isinstance(lp.target, ast.Name):
            # `for line in ...: var, val = <split of line>`
            un = [x for x in pre if isinstance(x.targets[0], ast.Tuple)
                  and len(x.targets[0].elts) == 2
                  and lp.target.id in names_in(x.value)]
            if len(un) == 1 and all(isinstance(x.targets[0], ast.Name)
                                    for x in pre if x is not un[0]):
                disp, disp_shape = lp, shape
                VAR, VAL = [txt(x) for x in un[0].targets[0].elts]
                unpack = un[0]
    if disp is None:
        raise AnalysisError("PolygonFilter._load: key dispatch loop lost")
    # local aliases computed before the dispatch (key = var.lower())
    prefix = [x for x in disp_shape[0] if x is not unpack]
    if any(x.targets[0].id in (VAR, VAL) for x in prefix):
        raise AnalysisError("PolygonFilter._load: key/value re-bound before "
                            "the dispatch")
    var_alias = {VAR} | {x.targets[0].id for x in prefix
                         if VAR in names_in(x.value) and VAL not in
                         names_in(x.value)}

    def disp_env(var, val):
        env = {VAR: var, VAL: val}
        try:
            _exec(prefix, env)
        except _NoEval as e:
            raise AnalysisError(f"_load: statement before the dispatch: {e}")
        return env
    heads = [c for c in find_calls(load, attr="startswith")
             if c.args and const_str(c.args[0])
             and not names_in(c) & var_alias]
    if len(heads) != 1:
        raise AnalysisError("PolygonFilter._load: section head test lost")
    head_ch = const_str(heads[0].args[0])
    branches, else_body = disp_shape[1], disp_shape[2]   # (test, body)
    else_raises = any(isinstance(s, ast.Raise) for s in else_body)

    header = None
    keyed = []      # (node, key literal, key has field, value parts)
    for n, parts in tmpl:
        lit = literal_of(parts)
        if lit.startswith(head_ch):
            if header is not None:
                raise AnalysisError("save: two header templates")
            header = (n, parts)
            continue
        if "=" not in lit:
            raise AnalysisError(f"save: template `{lit}` has no '='")
        # split the parts at the first '='
        kparts, vparts, seen = [], [], False
        for p in parts:
            if seen:
                vparts.append(p)
            elif isinstance(p, str) and "=" in p:
                a, b = p.split("=", 1)
                kparts.append(a)
                vparts.append(b)
                seen = True
            else:
                kparts.append(p)
        keyed.append((n, kparts, vparts))
    if header is None:
        raise AnalysisError("save: header template lost")

    # ---- key agreement (simulate the dispatch on each written key)
    matched = {}
    handlers = {}
    for n, kparts, vparts in keyed:
        sample = "".join(p if isinstance(p, str) else _sample(p)
                         for p in kparts).strip()
        which = None
        for i, (test, body) in enumerate(branches):
            try:
                if ev(test, disp_env(sample, "0")):
                    which = i
                    break
            except _NoEval as e:
                raise AnalysisError(f"_load: dispatch test "
                                    f"`{short(test, 40)}`: {e}")
        key = literal_of(kparts).strip()
        ctx.ob("R15.3", which is not None,
               f"key '{key}' written by save is dispatched by _load"
               if which is not None else
               f"key '{key}' written by save is not recognised by _load "
               + ("(raises KeyError: the file cannot be loaded)"
                  if else_raises else "(silently dropped)"),
               node=n, key=f"{POLY}::PolygonFilter.save::key {key}")
        if which is not None:
            matched.setdefault(which, []).append(key)
            handlers[key] = (branches[which][1], n, kparts, vparts)
    for i, (test, body) in enumerate(branches):
        ok = i in matched
        ctx.ob("R15.3", ok,
               f"reader branch `{short(test, 40)}` has a key written by "
               "save" if ok else
               f"reader branch `{short(test, 40)}` expects a key that save "
               "never writes (its attribute is lost on a round trip)",
               node=test, key=f"{POLY}::PolygonFilter._load::branch "
               f"{short(test, 50)}")
    ok = else_raises
    ctx.ob("R15.3", ok, "unknown keys are rejected" if ok else
           "unknown keys are silently ignored", node=disp,
           label="unknown keys rejected", nontrivial=False)

    # ---- values return to their attribute
    def handler_for(pred):
        for key, h in handlers.items():
            fields = [p for p in h[3] if isinstance(p, Field)]
            if pred(key, fields):
                return key, h, fields
        return None

    # axes
    axes_assign = [n for n in walk(load) if isinstance(n, ast.Assign)
                   and any(is_self_attr(t, "axes") for t in n.targets)]
    if len(axes_assign) != 1 or not isinstance(
            axes_assign[0].value, (ast.Tuple, ast.List)):
        raise AnalysisError("_load: assignment of self.axes not understood")
    ax_elts = [txt(e) for e in axes_assign[0].value.elts]
    for k in (0, 1):
        h = handler_for(lambda key, fl: len(fl) == 1 and txt(
            fl[0].expr) == f"self.axes[{k}]")
        if h is None:
            ctx.ob("R15.3", False, f"axes[{k}] is not written by save",
                   node=save, label=f"axis {k} round trip")
            continue
        key, (body, n, kp, vp), fl = h
        loc = [s.targets[0].id for s in body if isinstance(s, ast.Assign)
               and len(s.targets) == 1 and isinstance(s.targets[0], ast.Name)
               and VAL in names_in(s.value)]
        pos = [i for i, e in enumerate(ax_elts) if loc and e == loc[0]]
        ok = pos == [k]
        ctx.ob("R15.3", ok,
               f"'{key}' carries axes[{k}] and is restored to axes[{k}]"
               if ok else
               f"'{key}' carries axes[{k}] but is restored to position "
               f"{pos} of self.axes", node=n, label=f"axis {k} round trip")
    # name
    h = handler_for(lambda key, fl: len(fl) == 1 and txt(
        fl[0].expr) == "self.name")
    ok = False
    if h is not None:
        ok = any(isinstance(s, ast.Assign) and is_self_attr(
            s.targets[0], "name") and txt(s.value) in (VAL, VAL + ".strip()")
            for s in h[1][0])
    ctx.ob("R15.3", ok, "the name is written and restored verbatim" if ok
           else "self.name is not restored from the key that carries it",
           node=h[1][1] if h else save, label="name round trip")
    # inverted
    h = handler_for(lambda key, fl: len(fl) == 1 and txt(
        fl[0].expr) == "self.inverted")
    if h is None:
        ctx.ob("R15.3", False, "self.inverted is not written by save",
               node=save, label="inverted round trip")
    else:
        fl = h[2][0]
        if fl.spec or fl.conv not in (None, "s", "r"):
            raise AnalysisError("save: format of the inversion flag")
        bad = None
        for flag in (True, False):
            env = disp_env(h[0], str(flag))
            env["self.inverted"] = False
            try:
                _exec(h[1][0], env)
            except _NoEval as e:
                raise AnalysisError(f"_load: inversion branch: {e}")
            if env["self.inverted"] is not flag:
                bad = (f"a filter saved with inverted={flag} is loaded with "
                       f"inverted={env['self.inverted']}")
        ctx.ob("R15.3", bad is None,
               "the inversion flag written as str(bool) is parsed back "
               "(executed for True and False)" if bad is None else bad,
               node=h[1][1], label="inverted round trip")
    # points
    h = handler_for(lambda key, fl: len(fl) == 2)
    if h is None:
        raise AnalysisError("save: point line template lost")
    key, (body, n, kparts, vparts), coords = h
    kfields = [p for p in kparts if isinstance(p, Field)]
    if len(kfields) != 1:
        raise AnalysisError("save: point key without index field")
    prefix = literal_of(kparts).strip()
    # enumerate loop
    lp = None
    for a in walk(save):
        if isinstance(a, ast.For) and any(x is n for x in ast.walk(a)):
            lp = a
    if lp is None or not (isinstance(lp.iter, ast.Call) and call_name(
            lp.iter) == "enumerate" and isinstance(lp.target, ast.Tuple)
            and len(lp.target.elts) == 2):
        raise AnalysisError("save: point loop is not over enumerate()")
    IV, PV = [txt(x) for x in lp.target.elts]
    ok = is_self_attr(lp.iter.args[0], "points") and txt(
        kfields[0].expr) == IV and [txt(c.expr) for c in coords] == [
        f"{PV}[0]", f"{PV}[1]"]
    ctx.ob("R15.3", ok,
           "every vertex of self.points is written as index, x, y in this "
           "order" if ok else
           f"point line writes ({txt(kfields[0].expr)}; "
           f"{', '.join(txt(c.expr) for c in coords)}) over "
           f"`{short(lp.iter, 30)}`, expected (index; x, y) of every vertex",
           node=n, label="point fields")
    m = re.fullmatch(r"0?(\d*)d", kfields[0].spec or "d")
    ok = m is not None
    # index parsed by the inverse expression
    slices = [s for st in body for s in ast.walk(st)
              if isinstance(s, ast.Subscript) and txt(s.value) in var_alias
              and isinstance(s.slice, ast.Slice)]
    ints = [c for st in body for c in ast.walk(st)
            if isinstance(c, ast.Call) and call_name(c) == "int"]
    ok2 = (len(slices) == 1 and slices[0].slice.upper is None and isinstance(
        slices[0].slice.lower, ast.Constant) and slices[0].slice.lower.value
        == len(prefix) and any(slices[0] in list(ast.walk(c)) for c in ints))
    ctx.ob("R15.3", bool(ok and ok2),
           f"the vertex index follows the {len(prefix)}-character prefix "
           f"'{prefix}' as a decimal integer and is parsed with "
           f"int({VAR}[{len(prefix)}:])" if ok and ok2 else
           f"the vertex index written after '{prefix}' is not parsed by "
           f"int({VAR}[{len(prefix)}:])", node=slices[0] if slices else n,
           label="point index inverse")
    sorts = [c for c in find_calls(load, attr="sort")] + [
        c for c in find_calls(load, name="sorted")]
    ctx.ob("R15.3", bool(sorts), "vertices are ordered by their index after "
           "loading" if sorts else "vertices are not sorted by index",
           node=sorts[0] if sorts else load, label="points sorted",
           nontrivial=False)
    # separator between the coordinates vs split()
    sep = [p for p in vparts if isinstance(p, str)]
    between = sep[1] if len(sep) > 1 and isinstance(vparts[0], str) else (
        sep[0] if sep else "")
    splits = [c for st in body for c in ast.walk(st)
              if isinstance(c, ast.Call) and last_attr(c) == "split"]
    ok = len(splits) == 1 and ((not splits[0].args and between.strip() == ""
                                and between != "") or (
        splits[0].args and const_str(splits[0].args[0]) == between))
    ctx.ob("R15.3", ok, "the two coordinates are separated the way the "
           "reader splits them" if ok else
           f"coordinates are joined by {between!r} but split with "
           f"`{short(splits[0], 30) if splits else '?'}`",
           node=n, label="coordinate separator")
    f64 = any("float64" in txt(c) or "float" in txt(c) or "double" in txt(c)
              for st in body for c in ast.walk(st)
              if isinstance(c, ast.Call))
    ctx.ob("R15.3", f64, "coordinates are parsed as float64" if f64 else
           "coordinates are not parsed as floating point numbers",
           node=body[0], label="coordinate dtype", nontrivial=False)
    # precision
    for k, c in enumerate(coords):
        d = sig_digits(c)
        ok = d is None or d >= 17
        ctx.ob("R15.3", ok,
               f"coordinate {k} is written with "
               + ("a shortest round-trip representation" if d is None else
                  f"{d} significant digits (float64 needs 17)") if ok else
               f"coordinate {k} is written with format '{c.spec}' = "
               + (f"{d} significant digits" if d else "fixed decimals")
               + "; float64 needs 17 to survive the text format – a vertex "
               "moves by up to 1 ulp and points next to an edge change side",
               node=n, key=f"{POLY}::PolygonFilter.save::float format "
               f"coordinate {k} '{c.spec}'")

    # ---- header id
    hn, hparts = header
    hf = [p for p in hparts if isinstance(p, Field)]
    if len(hf) != 1:
        raise AnalysisError("save: header template fields")
    lit_chars = set(literal_of(hparts))
    strips = [c for c in find_calls(load, attr="strip")
              if c.args and const_str(c.args[0]) and any(
                  call_name(a) == "int" for a in _anc_calls(c))]
    ok = False
    why = "header id is not parsed with int(<line>.strip(<literal chars>))"
    if strips:
        chars = set(const_str(strips[0].args[0]))
        missing = lit_chars - chars - set(" \n\t")
        if missing:
            why = (f"header characters {sorted(missing)} are not stripped "
                   "before int()")
        elif chars & set("0123456789+-"):
            why = "the id parser strips digits or signs"
        else:
            ok = True
    ok = ok and txt(hf[0].expr) == "self.unique_id" and re.fullmatch(
        r"0?\d*d?", hf[0].spec or "d") is not None
    ctx.ob("R15.3", ok,
           "the header carries self.unique_id as an integer and the reader "
           "strips exactly the literal characters before int()" if ok
           else why, node=hn, label="header id inverse")
    others = [literal_of(k + v) for _, k, v in keyed]
    ok = literal_of(hparts).startswith(head_ch) and not any(
        o.lstrip().startswith(head_ch) for o in others)
    ctx.ob("R15.3", ok,
           f"only the header line starts with '{head_ch}' (section "
           "detection)" if ok else
           f"section detection by a leading '{head_ch}' is ambiguous",
           node=hn, label="section head", nontrivial=False)

    _unique_id_rule(ctx, repo)
    _one_handle(ctx, repo)
    # reader and writer open the file with the same text encoding
    encs = {}
    for nm_, fn_ in (("save", save), ("_load", load)):
        ops = [c_ for c_ in walk(fn_) if isinstance(c_, ast.Call) and (
            last_attr(c_) == "open") and "io." not in (call_name(c_) or "")]
        if not ops:
            raise AnalysisError(f"PolygonFilter.{nm_}: file open not found")
        encs[nm_] = sorted({txt(kwarg(c_, "encoding")) for c_ in ops})
    ok = encs["save"] == encs["_load"] and len(encs["save"]) == 1
    ctx.ob("R15.3", ok,
           f"save and _load open the file with the same encoding "
           f"({encs['save'][0]})" if ok else
           f"save opens the file with encoding {encs['save']}, _load with "
           f"{encs['_load']}: names with non-ASCII characters come back "
           "garbled", node=load, label="same text encoding")

    # ---- lines split at the first '=' only
    spl = [c for c in find_calls(load, attr="split")
           if c.args and const_str(c.args[0]) == "="]
    parts_ = [c for c in find_calls(load, attr="partition")
              if c.args and const_str(c.args[0]) == "="]
    if not spl and not parts_:
        raise AnalysisError("_load: key/value split lost")
    ok = bool(parts_)
    for c in spl:
        ms = kwarg(c, "maxsplit", 1)
        ok = ms is not None and txt(ms) == "1"
    ctx.ob("R15.3", ok,
           "key and value are separated at the first '=' only" if ok else
           "lines are split at every '=': a polygon whose name contains "
           "'=' makes the whole file unloadable (ValueError: too many "
           "values to unpack)", node=(spl or parts_)[0],
           label="split at first '='")
    _reader_writer_lines(ctx, load, disp, disp_shape, VAR, VAL, keyed,
                         handlers)


# names a user may give to a filter: the characters that mean something to
# line-based / INI-like readers ('=', '#', ';', ':', brackets, quotes, the
# keys of the format itself).  No leading / trailing blanks and no line
# breaks: those are declared limits of the format (ASSUMPTIONS).
_SAMPLE_NAMES = (
    "polygon filter 3", "gate #2", "#3", "a = b", "a=b=c", "= leading",
    "trailing =", "x;y", "; note", "RBC = area>50 #dense [v2]", "[gate 1]",
    "two  blanks", "100 % {deform}", "it's \"quoted\"", "Point 3",
    "point00000001 = 1 2", "Inverted", "X Axis = area_um", "Name",
    "// c-style", "!bang", "key: value", "tab\tinside", "back\\slash",
    "dash-minus_under.dot,comma", "äöü µm", "")


def _flat_stmts(stmts):
    for st in stmts:
        if isinstance(st, ast.With):
            yield from _flat_stmts(st.body)
        else:
            yield st


def _render(parts, values):
    """the text a line template produces for sample field values"""
    out = []
    for p in parts:
        if isinstance(p, str):
            out.append(p)
            continue
        v = values(p)
        if p.conv == "r":
            v = repr(v)
        elif p.conv == "s":
            v = str(v)
        elif p.conv == "a":
            v = ascii(v)
        try:
            out.append(format(v, p.spec or ""))
        except (ValueError, TypeError) as e:
            raise AnalysisError(f"save: sample for field "
                                f"`{txt(p.expr)}:{p.spec}`: {e}")
    return "".join(out)


def _reader_writer_lines(ctx, load, disp, shape, VAR, VAL, keyed, handlers):
    """every line save() writes for a section – rendered for sample values –
    is taken through the statements _load applies to the section's lines
    before the key dispatch (parsed code, executed on the concrete lines):
    no line may be dropped, split into a wrong number of items or reach
    another handler, and the free-form value (the name) must arrive
    unchanged"""
    what = "PolygonFilter._load"
    pre, branches, else_body = shape
    # the lines of one section: <all lines>[start:end]
    def _is_lines(v):
        return any(isinstance(c, ast.Call) and last_attr(c) in (
            "readlines", "splitlines") for c in ast.walk(v))
    cands = []
    for n in walk(load):
        if isinstance(n, ast.Subscript) and isinstance(n.slice, ast.Slice) \
                and n.slice.lower is not None and n.slice.upper is not None \
                and isinstance(n.value, ast.Name):
            b = single_assign_loose(load, n.value.id)
            if len(b) == 1 and _is_lines(b[0]):
                cands.append(n)
    if len(cands) != 1:
        raise AnalysisError(f"{what}: slice of the section's lines not "
                            f"identified ({len(cands)} candidates)")
    section = cands[0]
    stmts = list(_flat_stmts(load.body))
    if disp not in stmts:
        raise AnalysisError(f"{what}: dispatch loop is nested")
    i1 = stmts.index(disp)
    i0 = [i for i, st in enumerate(stmts)
          if any(x is section for x in ast.walk(st))]
    if len(i0) != 1 or i0[0] > i1:
        raise AnalysisError(f"{what}: section slice not before the dispatch")
    steps = stmts[i0[0]:i1]

    name_key = [k for k, h in handlers.items() if any(
        isinstance(p, Field) and txt(p.expr) == "self.name" for p in h[3])]
    if len(name_key) != 1:
        raise AnalysisError("save: line that carries self.name")
    name_key = name_key[0]

    def run_section(lines):
        """[(branch index, env)] for the items reaching the dispatch"""
        env = {"__subst__": {id(section): list(lines)}}
        tainted = set()
        for st in steps:
            pairs = None
            if isinstance(st, ast.Assign) and len(st.targets) == 1:
                t = st.targets[0]
                if isinstance(t, ast.Name):
                    pairs = [(t, st.value)]
                elif isinstance(t, ast.Tuple) and isinstance(
                        st.value, ast.Tuple) and len(t.elts) == len(
                        st.value.elts) and all(isinstance(x, ast.Name)
                                               for x in t.elts):
                    pairs = list(zip(t.elts, st.value.elts))
            uses = any(x is section for x in ast.walk(st)) or (
                names_in(st) & tainted)
            if pairs is None:
                if uses:
                    raise AnalysisError(
                        f"{what}: step `{short(st, 50)}` applied to the "
                        "section's lines is not understood")
                continue
            for t, v in pairs:
                dep = any(x is section for x in ast.walk(v)) or (
                    names_in(v) & tainted)
                if not dep:
                    if t.id in tainted:
                        raise AnalysisError(f"{what}: `{t.id}` re-bound")
                    continue
                try:
                    env[t.id] = ev(v, env)
                except _RuntimeFail:
                    raise
                except _NoEval as e:
                    raise AnalysisError(
                        f"{what}: step `{short(st, 50)}` applied to the "
                        f"section's lines is not understood ({e})")
                tainted.add(t.id)
        try:
            items = ev(disp.iter, env)
        except _RuntimeFail:
            raise
        except _NoEval as e:
            raise AnalysisError(f"{what}: lines iterated by the dispatch "
                                f"loop ({e})")
        if not isinstance(items, list):
            raise AnalysisError(f"{what}: lines iterated by the dispatch")
        out = []
        for item in items:
            e2 = {}
            _bind(disp.target, item, e2)
            try:
                _exec(pre, e2)
                which = None
                for i, (test, body) in enumerate(branches):
                    if ev(test, e2):
                        which = i
                        break
            except _RuntimeFail:
                raise
            except _NoEval as e:
                raise AnalysisError(f"{what}: dispatch of a sample line "
                                    f"({e})")
            out.append((which, e2))
        return out

    def sample_value(name):
        def values(field):
            src = txt(field.expr)
            if src == "self.name":
                return name
            if src.startswith("self.axes["):
                return "area_um" if src.endswith("[0]") else "deform"
            if src == "self.inverted":
                return True
            if re.fullmatch(r"0?\d*d", field.spec or "-"):
                return 3
            return 0.012345678901234568
        return values

    branch_of = {k: [i for i, (t_, b_) in enumerate(branches)
                     if b_ is h[0]] for k, h in handlers.items()}
    if any(len(v) != 1 for v in branch_of.values()):
        raise AnalysisError(f"{what}: handler branches")
    bad = None
    for name in _SAMPLE_NAMES:
        vals = sample_value(name)
        written = [(literal_of(k).strip(), _render(k + ["="] + v, vals) + "\n")
                   for _, k, v in keyed]
        lines = [ln for _, ln in written]
        try:
            got = run_section(lines)
        except _RuntimeFail as e:
            bad = (f"a filter named {name!r} is saved as "
                   f"{_render(handlers[name_key][2] + ['='] + handlers[name_key][3], vals)!r}"
                   f"; _load fails on this section ({e})")
            break
        if len(got) != len(lines):
            bad = (f"a section of {len(lines)} lines written for a filter "
                   f"named {name!r} reaches the key dispatch of _load as "
                   f"{len(got)} items: a line is dropped or split before "
                   "it is parsed")
            break
        for (key, line), (which, e2) in zip(written, got):
            if key not in handlers:
                continue
            if which != branch_of[key][0]:
                bad = (f"the line {line!r} written by save (filter named "
                       f"{name!r}) is "
                       + ("not recognised by any branch" if which is None
                          else "dispatched to the branch "
                          f"`{short(branches[which][0], 40)}`")
                       + f" after the line preparation of _load "
                       f"({VAR}={e2.get(VAR)!r})")
                break
            if key == name_key:
                try:
                    _exec(handlers[key][0], e2)
                except _NoEval as e:
                    raise AnalysisError(f"{what}: name handler ({e})")
                if "self.name" not in e2:
                    raise AnalysisError(f"{what}: name handler does not "
                                        "assign self.name")
                if e2["self.name"] != name:
                    bad = (f"a filter named {name!r} is saved as {line!r} "
                           f"and loaded with the name {e2['self.name']!r}: "
                           "the statements _load applies to a line before "
                           "the key dispatch do not preserve the value "
                           "written by save")
                    break
        if bad:
            break
    ctx.ob("R15.3", bad is None,
           f"the lines save() writes for {len(_SAMPLE_NAMES)} sample names "
           "(with '=', '#', ';', ':', brackets, quotes, key words of the "
           "format) pass the line preparation of _load one to one, reach "
           "their handler and return the name unchanged (parsed code "
           "executed)" if bad is None else bad,
           node=disp, key=f"{POLY}::PolygonFilter._load::written lines are "
           "read back unchanged")


def _unique_id_rule(ctx, repo):
    """an identifier read from a file is kept unless an existing instance
    has it (decided by scanning the registry); the allocator ends above
    every identifier in use"""
    cls = repo.cls(POLY, "PolygonFilter")
    methods = {f.name: f for f in class_members(repo, POLY, cls)
               if isinstance(f, ast.FunctionDef)}
    # methods that (transitively) scan the registry of instances
    scanners = set()
    changed = True
    while changed:
        changed = False
        for name, f in methods.items():
            if name in scanners:
                continue
            direct = any(isinstance(n, (ast.For, ast.comprehension))
                         and txt(n.iter).endswith(".instances")
                         for n in walk(f)) or any(
                isinstance(n, ast.Compare) and isinstance(
                    n.ops[0], (ast.In, ast.NotIn)) and "instances" in txt(
                    n.comparators[0]) for n in walk(f))
            via = any(isinstance(c, ast.Call) and last_attr(c) in scanners
                      for c in walk(f))
            if direct or via:
                scanners.add(name)
                changed = True
    su = methods.get("_set_unique_id")
    if su is None:
        raise AnalysisError("PolygonFilter._set_unique_id vanished")
    su = inline_helpers(repo, POLY, su, keep=tuple(scanners))
    par = params_of(su)
    if len(par) != 2:
        raise AnalysisError("_set_unique_id: parameters")
    UID = par[1]
    # the branch that replaces the requested id
    repl = [n for n in su.body if isinstance(n, ast.If) and any(
        isinstance(x, ast.Assign) and txt(x.targets[0]) == UID
        for x in walk(n))]
    if len(repl) != 1 or repl[0].orelse:
        raise AnalysisError("_set_unique_id: branch that replaces the "
                            "identifier not found")
    test = repl[0].test
    uses_scan = any(
        isinstance(c, ast.Call) and last_attr(c) in scanners
        and UID in names_in(c) for c in ast.walk(test)) or (
        "instances" in txt(test) and UID in names_in(test))
    pol = not (isinstance(test, ast.UnaryOp) and isinstance(
        test.op, ast.Not))
    for c_ in ast.walk(test):
        if isinstance(c_, ast.Call) and isinstance(
                c_.func, ast.Attribute) and txt(c_.func.value) in (
                "self", "PolygonFilter", "cls") \
                and c_.func.attr not in methods:
            raise AnalysisError("_set_unique_id: the test calls "
                                f"`{c_.func.attr}`, which is not a method "
                                "of PolygonFilter or a base class in this "
                                "module")
    ctx.ob("R15.3", bool(uses_scan and pol),
           "a requested identifier is replaced only when the registry scan "
           "finds an instance that has it" if uses_scan and pol else
           f"the requested identifier is replaced under "
           f"`{short(test, 50)}`, which does not ask the registry of "
           "instances: a free identifier read from a .poly file is not "
           "kept (e.g. ids 2, 0, 1 come back as 2, 3, 4)", node=test,
           label="id kept unless taken")
    # execute the allocator for taken / free
    diag = set()
    for c in find_calls(su, name="warnings.warn"):
        diag |= names_in(c)
    diag -= {UID}
    body = []
    for st in su.body:
        if isinstance(st, ast.Assert) or (isinstance(st, ast.Expr) and (
                isinstance(st.value, ast.Constant) or _is_diagnostic(
                    st.value))):
            continue
        body.append(st)

    def strip(stmts):
        out = []
        for st in stmts:
            if isinstance(st, (ast.Assign, ast.AugAssign)) and txt(
                    st.targets[0] if isinstance(st, ast.Assign)
                    else st.target) in diag:
                continue
            if isinstance(st, ast.Expr) and isinstance(
                    st.value, ast.Call) and _is_diagnostic(st.value):
                continue
            if isinstance(st, ast.If):
                st2 = ast.If(test=st.test, body=strip(st.body) or [
                    ast.Pass()], orelse=strip(st.orelse))
                out.append(st2)
            else:
                out.append(st)
        return out
    body = strip(body)
    CNT = "PolygonFilter._instance_counter"
    bad = None
    for taken in (False, True):
        for counter, uid in ((0, 0), (3, 1), (3, 3), (3, 7)):
            env = {CNT: counter, UID: uid, "__taken__": taken}
            stmts = []
            for st in body:
                if st is not None and isinstance(st, ast.If) and txt(
                        st.test) == txt(test):
                    st = ast.If(test=ast.Name(id="__taken__",
                                              ctx=ast.Load()),
                                body=st.body, orelse=st.orelse)
                stmts.append(st)
            try:
                _exec(stmts, env)
            except _NoEval as e:
                raise AnalysisError(f"_set_unique_id: {e}")
            got = env.get("self.unique_id")
            c2 = env.get(CNT)
            if got is None or c2 is None:
                raise AnalysisError("_set_unique_id: result not stored")
            if not taken and got != uid:
                bad = bad or (f"a free identifier {uid} is stored as {got}")
            if taken and (got == uid or got < counter):
                bad = bad or (f"a taken identifier {uid} (counter {counter})"
                              f" is replaced by {got}, which may be in use")
            if c2 <= got or c2 < counter:
                bad = bad or (f"after assigning {got} the allocator stands "
                              f"at {c2}: the next automatic identifier "
                              "collides")
    ctx.ob("R15.3", bad is None,
           "executed for free and taken identifiers: a free id is kept, a "
           "taken one replaced by an unused one, the allocator ends above "
           "the id assigned" if bad is None else bad, node=su,
           label="id allocation")
    # registration is the last effect of the constructor: nothing that can
    # raise runs after the instance entered the registry
    init = inline_helpers(repo, POLY, methods["__init__"],
                          keep=("_load", "_set_unique_id", "_check_data"))
    apps = [n for n in walk(init) if isinstance(n, ast.Call) and last_attr(
        n) in ("append", "add", "insert") and "instances" in txt(n.func)]
    if len(apps) != 1:
        raise AnalysisError("PolygonFilter.__init__: registration in "
                            "`instances` not found")
    reg = apps[0]
    while not isinstance(reg, ast.stmt):
        reg = reg.parent
    from ..cfg import CFG
    cfg = CFG(init)
    after = cfg.reach(cfg.ids_of(reg),
                      avoid_edge=lambda a, lab, b: lab == "x")
    late = [n_ for n_ in cfg.nodes if n_.id in after and n_.ast is not None
            and n_.kind in ("stmt", "test", "for", "with_enter")
            and any(isinstance(c, ast.Call) and not _is_diagnostic(c)
                    for c in ast.walk(n_.ast.test if n_.kind == "test"
                                      else n_.ast))]
    ctx.ob("R15.3", not late,
           "the instance enters the registry as the last effect of the "
           "constructor (no call can fail afterwards)" if not late else
           f"`{short(late[0].ast, 40)}` runs after the instance was added "
           "to `instances`: when it raises, a half-built instance keeps its "
           "identifier in the registry (later imports get another id, "
           "save_all writes a filter that never existed)",
           node=late[0].ast if late else reg, label="registered last")
    # _load hands the id of the header to _set_unique_id
    load = methods["_load"]
    calls = [c for c in find_calls(load, attr="_set_unique_id")]
    ok = len(calls) == 1 and len(calls[0].args) == 1 and any(
        isinstance(n, ast.Assign) and txt(n.targets[0]) == txt(
            calls[0].args[0]) and call_name(n.value) == "int"
        for n in walk(load))
    ctx.ob("R15.3", ok, "_load passes the identifier parsed from the header "
           "to _set_unique_id" if ok else "_load no longer registers the "
           "identifier parsed from the header", node=load,
           label="loaded id registered", nontrivial=False)


def _loop_dispatch(lp):
    """(prefix assignments, [(test, body)], else body) of a loop body that
    dispatches on a key – written as one if/elif/else chain or as guard
    clauses (`if test: ...; continue`, finally `if not test: raise` followed
    by the handler of the last key)"""
    body = lp.body
    i = 0
    while i < len(body) and isinstance(body[i], ast.Assign) and len(
            body[i].targets) == 1:
        i += 1
    pre, rest = body[:i], body[i:]
    if not rest:
        return None
    if len(rest) == 1 and isinstance(rest[0], ast.If) and rest[0].orelse:
        branches = []
        node = rest[0]
        while True:
            branches.append((node.test, node.body))
            if len(node.orelse) == 1 and isinstance(node.orelse[0], ast.If):
                node = node.orelse[0]
                continue
            return pre, branches, node.orelse
    branches, else_body = [], []
    for j, st in enumerate(rest):
        if not (isinstance(st, ast.If) and not st.orelse and st.body):
            return None
        if isinstance(st.body[-1], ast.Continue):
            branches.append((st.test, st.body[:-1] or [ast.Pass()]))
            continue
        if all(isinstance(x, ast.Raise) for x in st.body) and rest[j + 1:]:
            t = st.test
            pos = t.operand if isinstance(t, ast.UnaryOp) and isinstance(
                t.op, ast.Not) else ast.UnaryOp(op=ast.Not(), operand=t)
            branches.append((pos, rest[j + 1:]))
            else_body = st.body
            break
        return None
    if len(branches) < 2:
        return None
    return pre, branches, else_body


def _anc_calls(node):
    n = getattr(node, "parent", None)
    while n is not None and not isinstance(n, ast.stmt):
        if isinstance(n, ast.Call):
            yield n
        n = getattr(n, "parent", None)


def _sample(field):
    spec = field.spec or ""
    m = re.fullmatch(r"0?(\d*)d", spec)
    if m:
        return "7".rjust(int(m.group(1) or 1), "0")
    return "7"


def _exec(stmts, env):
    """execute straight-line / if statements on the concrete evaluator"""
    for s in stmts:
        if isinstance(s, ast.If):
            _exec(s.body if ev(s.test, env) else s.orelse, env)
        elif isinstance(s, ast.Assign) and len(s.targets) == 1:
            t = s.targets[0]
            if isinstance(t, (ast.Tuple, ast.List)):
                _bind(t, ev(s.value, env), env)
            else:
                k = txt(t)
                env[k] = ev(s.value, env)
        elif isinstance(s, ast.Pass):
            pass
        else:
            raise _NoEval(short(s, 40))


def _opens(repo, call):
    """the call goes to a module-level helper of polygon_filter.py that
    opens a file and returns the handle"""
    if not isinstance(call.func, ast.Name):
        return False
    try:
        fn = repo.func(POLY, call.func.id)
    except AnalysisError:
        return False
    return any(isinstance(x, ast.Call) and last_attr(x) == "open"
               for x in ast.walk(fn)) and any(
        isinstance(x, ast.Return) and x.value is not None
        for x in ast.walk(fn))


def _one_handle(ctx, repo):
    """save(path, ret_fobj=True) opens the path in append mode and hands
    the buffered handle out un-closed.  A caller that saves several
    filters to one file keeps exactly one live handle: the handle returned
    by one call is what the next call writes to (or it is closed before
    the next call, or one handle opened by the caller is passed to all).
    A second handle opened while the first is alive and un-flushed writes
    *before* the first one's buffered text as soon as it exceeds the I/O
    buffer (F15c)."""
    fn = repo.func(POLY, "PolygonFilter.save_all")
    body = inline_helpers(repo, POLY, fn)
    calls = [c for c in find_calls(body, attr="save")
             if not isinstance(c.func, ast.Name)]
    if not calls:
        raise AnalysisError("PolygonFilter.save_all: no call of save()")
    bad = None
    for c in calls:
        ret = kwarg(c, "ret_fobj", 1)
        if ret is None or (isinstance(ret, ast.Constant)
                           and not ret.value):
            continue        # save() closes what it opened
        if not (isinstance(ret, ast.Constant) and ret.value is True):
            raise AnalysisError("save_all: ret_fobj is not a literal")
        loop = c
        while loop is not None and not isinstance(
                loop, (ast.For, ast.While, ast.ListComp, ast.GeneratorExp,
                       ast.FunctionDef)):
            loop = getattr(loop, "parent", None)
        if not isinstance(loop, (ast.For, ast.While)):
            if isinstance(loop, ast.FunctionDef) and len(calls) == 1:
                continue    # a single save outside any loop
            raise AnalysisError("save_all: shape of the saving loop not "
                                "recognised")
        dest = kwarg(c, "polyfile", 0)
        st = c
        while not isinstance(st, ast.stmt):
            st = st.parent
        target = txt(st.targets[0]) if isinstance(st, ast.Assign) \
            and st.value is c and len(st.targets) == 1 else None
        # (i) the handle is threaded through the calls
        if target is not None and isinstance(dest, ast.Name) \
                and dest.id == target:
            continue
        # (ii) one handle opened by the caller outside the loop
        if isinstance(dest, ast.Name):
            def _openers(name, depth=0):
                """assignments / with-items that bind `name` (or a name it
                is copied from) to an opened file"""
                out = []
                for n in walk(body):
                    if isinstance(n, ast.withitem) \
                            and n.optional_vars is not None \
                            and txt(n.optional_vars) == name \
                            and last_attr(n.context_expr) == "open":
                        out.append(n)
                    elif isinstance(n, ast.Assign) \
                            and txt(n.targets[0]) == name:
                        if any(isinstance(x, ast.Call)
                               and (last_attr(x) == "open"
                                    or _opens(repo, x))
                               for x in ast.walk(n.value)):
                            out.append(n)
                        elif isinstance(n.value, ast.Name) and depth < 4 \
                                and _openers(n.value.id, depth + 1):
                            out.append(n)
                return out
            opened = _openers(dest.id)
            inside = {id(x) for x in ast.walk(loop)}
            rebound = [n for n in ast.walk(loop)
                       if isinstance(n, ast.Name) and n.id == dest.id
                       and isinstance(n.ctx, ast.Store)]
            if opened and not any(id(o) in inside for o in opened) \
                    and not rebound:
                continue
        # (iii) the returned handle is closed within the iteration
        if target is not None:
            blk = st.parent.body if st in getattr(st.parent, "body", []) \
                else []
            later = blk[blk.index(st) + 1:] if st in blk else []
            if any(isinstance(x, ast.Expr) and isinstance(x.value, ast.Call)
                   and txt(x.value.func) == f"{target}.close"
                   for x in later):
                continue
        bad = c
        break
    ctx.ob("R15.3", bad is None,
           "save_all keeps one live file handle: the handle returned by "
           "save(…, ret_fobj=True) is what the next filter is written to"
           if bad is None else
           f"`{short(bad, 60)}` in a loop opens the destination again for "
           "every filter while the handle returned for the previous filter "
           "is still open and un-flushed: a filter longer than the I/O "
           "buffer reaches the file before its predecessor (sections and "
           "points of different filters are interleaved in the .poly file)",
           node=bad if bad is not None else fn,
           label="one live handle in save_all")


def run(ctx):
    repo = ctx.repo
    ctx.rule("R15.1", "crossing rule of the compiled source: half-open "
             "straddle table (13 orderings), edge abscissa as rational "
             "function, documented boundary convention, guarded division, "
             "cyclic edge enumeration, parity", minimum=7)
    ctx.rule("R15.2", "x/y columns and counts reach the compiled routine "
             "consistently through every wrapper in a float64 buffer; "
             "inversion iff self.inverted (filter and copy); vertices read "
             "through the normalising property; filter() stateless; cache "
             "digests cover the classification inputs (logical array order); "
             "the vertex property hands out a copy / read-only array",
             minimum=27)
    ctx.rule("R15.3", "save/_load agree on keys, attribute mapping, header "
             "and index parsing, first-'=' split; >= 17 significant digits; "
             "the written lines, rendered for sample names, are read back "
             "one to one by the parsed line preparation of _load",
             minimum=31)
    r151(ctx, repo)
    r152(ctx, repo)
    r153(ctx, repo)


# ----------------------------------------------------------------------
_HIT = ("            (((yp[i] <= y) and (y < yp[j])) or\n"
        "            ((yp[j] <= y) and (y < yp[i])))\n"
        "            and (x < (xp[j] - xp[i]) * (y - yp[i]) / (yp[j] - yp[i])"
        " + xp[i])\n")

MUTANTS = [
    ("straddle closed at both ends", GEO,
     ("(((yp[i] <= y) and (y < yp[j])) or", "(((yp[i] <= y) and (y <= yp[j]))"
      " or"), "R15.1"),
    ("straddle open at both ends (one direction)", GEO,
     ("((yp[j] <= y) and (y < yp[i])))", "((yp[j] < y) and (y < yp[i])))"),
     "R15.1"),
    ("only upward edges counted", GEO,
     ("            (((yp[i] <= y) and (y < yp[j])) or\n"
      "            ((yp[j] <= y) and (y < yp[i])))\n",
      "            ((yp[i] <= y) and (y < yp[j]))\n"), "R15.1"),
    ("straddle compares the same end twice", GEO,
     ("((yp[j] <= y) and (y < yp[i])))", "((yp[j] <= y) and (y < yp[j])))"),
     "R15.1"),
    ("upper end closed instead of lower", GEO,
     [("(((yp[i] <= y) and (y < yp[j])) or", "(((yp[i] < y) and (y <= yp[j]))"
       " or"),
      ("((yp[j] <= y) and (y < yp[i])))", "((yp[j] < y) and (y <= yp[i])))")],
     "R15.1"),
    ("abscissa non-strict", GEO,
     ("and (x < (xp[j]", "and (x <= (xp[j]"), "R15.1"),
    ("abscissa uses the wrong vertex height", GEO,
     ("* (y - yp[i]) /", "* (y - yp[j]) /"), "R15.1"),
    ("abscissa offset from the other vertex", GEO,
     ("(yp[j] - yp[i]) + xp[i])", "(yp[j] - yp[i]) + xp[j])"), "R15.1"),
    ("abscissa slope inverted", GEO,
     ("(xp[j] - xp[i]) * (y - yp[i]) / (yp[j] - yp[i])",
      "(yp[j] - yp[i]) * (y - yp[i]) / (xp[j] - xp[i])"), "R15.1"),
    ("abscissa precedence lost", GEO,
     ("(x < (xp[j] - xp[i]) * (y - yp[i]) / (yp[j] - yp[i]) + xp[i])",
      "(x < (xp[j] - xp[i]) * (y - yp[i]) / (yp[j] - yp[i] + xp[i]))"),
     "R15.1"),
    ("closing edge skipped", GEO,
     ("    for i in range(nr_verts):\n        if (",
      "    for i in range(1, nr_verts):\n        if ("), "R15.1"),
    ("previous vertex starts out of range", GEO,
     ("cdef Py_ssize_t j = nr_verts - 1", "cdef Py_ssize_t j = nr_verts"),
     "R15.1"),
    ("previous vertex never advanced", GEO,
     ("            c = not c\n        j = i\n",
      "            c = not c\n"), "R15.1"),
    ("previous vertex advanced only on a hit", GEO,
     ("            c = not c\n        j = i\n",
      "            c = not c\n            j = i\n"), "R15.1"),
    ("hit sets instead of toggles", GEO,
     ("            c = not c\n", "            c = 1\n"), "R15.1"),
    ("x and y of the query swapped in the loop", GEO,
     ("point_in_polygon(nr_verts, xp, yp, x[n], y[n])",
      "point_in_polygon(nr_verts, xp, yp, y[n], x[n])"), "R15.2"),
    ("last point not evaluated", GEO,
     ("    for n in range(nr_points):", "    for n in range(nr_points - 1):"),
     "R15.2"),
    ("vertex columns swapped", PNP,
     [("    vx = verts[:, 0].astype(np.double)\n"
       "    vy = verts[:, 1].astype(np.double)\n\n"
       "    cdef cnp.ndarray[cnp.uint8_t, ndim=1] out",
       "    vx = verts[:, 1].astype(np.double)\n"
       "    vy = verts[:, 0].astype(np.double)\n\n"
       "    cdef cnp.ndarray[cnp.uint8_t, ndim=1] out")], "R15.2"),
    ("point count passed as vertex count", PNP,
     ("    points_in_polygon(vx.shape[0], &vx[0], &vy[0],",
      "    points_in_polygon(x.shape[0], &vx[0], &vy[0],"), "R15.2"),
    ("python wrapper swaps its arguments", PNPY,
     ("return _points_in_poly(points, verts)",
      "return _points_in_poly(verts, points)"), "R15.2"),
    ("points property hands out the stored vertex buffer", POLY,
     ("        return np.array(self._points)\n",
      "        return np.asarray(self._points)\n"), "R15.2"),
    ("points property converts with copy=False", POLY,
     ("        return np.array(self._points)\n",
      "        pts = np.array(self._points, dtype=float, copy=False)\n"
      "        return pts\n"), "R15.2"),
    ("points property returns a writeable view", POLY,
     ("        return np.array(self._points)\n",
      "        return np.atleast_2d(np.asarray(self._points)).view()\n"),
     "R15.2"),
    ("_load cuts every line at the first '#' (comment tolerance)", POLY,
     ("        subdata = data[start:end]\n",
      "        subdata = data[start:end]\n"
      "        subdata = [li.split(\"#\", 1)[0] for li in subdata]\n"
      "        subdata = [li for li in subdata if li.strip()]\n"), "R15.3"),
    ("_load removes ';' remarks after the key/value split", POLY,
     ("        subdata = [[it.strip() for it in li.split(\"=\", 1)] "
      "for li in subdata]\n",
      "        subdata = [[it.partition(\";\")[0].strip() for it in "
      "li.split(\"=\", 1)] for li in subdata]\n"), "R15.3"),
    ("_load skips lines that look like a stray section head", POLY,
     ("        subdata = data[start:end]\n",
      "        subdata = [li for li in data[start:end] if \"[\" not in li]"
      "\n"), "R15.3"),
    ("_load strips quotes around the value", POLY,
     ("        subdata = [[it.strip() for it in li.split(\"=\", 1)] "
      "for li in subdata]\n",
      "        subdata = [[it.strip().strip(\"'\\\"\") for it in "
      "li.split(\"=\", 1)] for li in subdata]\n"), "R15.3"),
    ("filter columns swapped", POLY,
     [("        points[:, 0] = datax\n", "        points[:, 0] = datay\n"),
      ("        points[:, 1] = datay\n", "        points[:, 1] = datax\n")],
     "R15.2"),
    ("point buffer inherits the dtype of the x axis", POLY,
     ("        points = np.zeros((datax.shape[0], 2), dtype=np.float64)\n",
      "        points = np.zeros_like(datax, shape=(datax.shape[0], 2))\n"),
     "R15.2"),
    ("point buffer allocated with the x dtype", POLY,
     ("        points = np.zeros((datax.shape[0], 2), dtype=np.float64)\n",
      "        points = np.zeros((datax.shape[0], 2), dtype=datax.dtype)\n"),
     "R15.2"),
    ("point buffer in single precision", POLY,
     ("        points = np.zeros((datax.shape[0], 2), dtype=np.float64)\n",
      "        points = np.zeros((datax.shape[0], 2), dtype=np.float32)\n"),
     "R15.2"),
    ("stacked points cast to single precision", POLY,
     ("        points = np.zeros((datax.shape[0], 2), dtype=np.float64)\n"
      "        points[:, 0] = datax\n        points[:, 1] = datay\n",
      "        points = np.column_stack([datax, datay]).astype(np.float32)\n"
      ), "R15.2"),
    ("inverted copy of an inverted filter stays inverted (seeded C15_4)",
     POLY, ("        if invert:\n            inverted = not self.inverted\n        else:\n            inverted = self.inverted\n",
            "        inverted = self.inverted or invert\n"), "R15.2"),
    ("copy ignores the invert request", POLY,
     ("        if invert:\n            inverted = not self.inverted\n        else:\n            inverted = self.inverted\n", "        inverted = self.inverted\n"), "R15.2"),
    ("hash digests the raw vertex field (seeded C15_5)", POLY,
     ("return hashobj([self.axes, self.points, self.inverted])",
      "return hashobj([self.axes, self._points, self.inverted])"), "R15.2"),
    ("filter evaluates the raw vertex field", POLY,
     ("f = points_in_poly(points=points, verts=self.points)",
      "f = points_in_poly(points=points, verts=self._points)"), "R15.2"),
    ("bounding-box fast path returns before the inversion (seeded C15_9)",
     POLY,
     ("        f = points_in_poly(points=points, verts=self.points)\n",
      "        pmin = np.min(self.points, axis=0)\n"
      "        pmax = np.max(self.points, axis=0)\n"
      "        if not np.any(np.all((points >= pmin) & (points <= pmax),\n"
      "                             axis=1)):\n"
      "            return np.zeros(datax.shape[0], dtype=bool)\n"
      "        f = points_in_poly(points=points, verts=self.points)\n"),
     "R15.2"),
    ("identifier taken decided by the counter (seeded C15_7)", POLY,
     ("        if PolygonFilter.instace_exists(unique_id):",
      "        if unique_id < PolygonFilter._instance_counter:"), "R15.3"),
    ("allocator not advanced past the assigned identifier", POLY,
     ("        ic = max(PolygonFilter._instance_counter, unique_id+1)",
      "        ic = max(PolygonFilter._instance_counter, unique_id)"),
     "R15.3"),
    ("replacement identifier may be in use", POLY,
     ("            newid = max(PolygonFilter._instance_counter, "
      "unique_id+1)", "            newid = unique_id + 1"), "R15.3"),
    ("wrapper evaluates full blocks only (seeded C03_10)", PNPY,
     [("from ._pnpoly import _grid_points_in_poly, _points_in_poly\n", "import numpy as np\n\nfrom ._pnpoly import _grid_points_in_poly, _points_in_poly\n\n_PNPOLY_CHUNK = 2**19\n"),
      ("    return _points_in_poly(points, verts)\n",
       "    points = np.asarray(points)\n"
       "    if points.shape[0] <= _PNPOLY_CHUNK:\n"
       "        return _points_in_poly(points, verts)\n"
       "    mask = np.zeros(points.shape[0], dtype=bool)\n"
       "    for ii in range(points.shape[0] // _PNPOLY_CHUNK):\n"
       "        block = slice(ii * _PNPOLY_CHUNK, (ii + 1) * _PNPOLY_CHUNK)\n"
       "        mask[block] = _points_in_poly(points[block], verts)\n"
       "    return mask\n")], "R15.2"),
    ("wrapper writes a block to the wrong place", PNPY,
     [("from ._pnpoly import _grid_points_in_poly, _points_in_poly\n", "import numpy as np\n\nfrom ._pnpoly import _grid_points_in_poly, _points_in_poly\n\n_PNPOLY_CHUNK = 2**19\n"),
      ("    return _points_in_poly(points, verts)\n",
       "    points = np.asarray(points)\n"
       "    n = points.shape[0]\n"
       "    mask = np.zeros(n, dtype=bool)\n"
       "    for start in range(0, n, _PNPOLY_CHUNK):\n"
       "        stop = min(start + _PNPOLY_CHUNK, n)\n"
       "        mask[0:stop - start] = _points_in_poly(points[start:stop],\n"
       "                                               verts)\n"
       "    return mask\n")], "R15.2"),
    ("filter memoises its last classification (seeded C15_12)", POLY,
     [("    _instance_counter = 0\n\n    def __init__(",
       "    _instance_counter = 0\n    _memo = None\n\n    def __init__("),
      ("        points = np.zeros((datax.shape[0], 2), dtype=np.float64)\n"
       "        points[:, 0] = datax\n        points[:, 1] = datay\n"
       "        f = points_in_poly(points=points, verts=self.points)\n",
       "        verts = self.points\n        memo = self._memo\n"
       "        if (memo is not None and memo[0] is datax and memo[1] is "
       "datay\n                and np.array_equal(memo[2], verts)):\n"
       "            f = memo[3]\n        else:\n"
       "            points = np.zeros((datax.shape[0], 2), "
       "dtype=np.float64)\n"
       "            points[:, 0] = datax\n            points[:, 1] = datay\n"
       "            f = points_in_poly(points=points, verts=verts)\n"
       "            self._memo = (datax, datay, verts, f)\n")], "R15.2"),
    ("filter remembers its last result on the instance", POLY,
     ("        f = points_in_poly(points=points, verts=self.points)\n",
      "        f = points_in_poly(points=points, verts=self.points)\n"
      "        self._last_result = f\n"), "R15.2"),
    ("polygon digest omits the axes", POLY,
     ("return hashobj([self.axes, self.points, self.inverted])",
      "return hashobj([self.points, self.inverted])"), "R15.2"),
    ("instance registered before validation (seeded C15_14)", POLY,
     ("        self._check_data()\n"
      "        # if everything worked out, add to instances\n"
      "        PolygonFilter.instances.append(self)\n",
      "        PolygonFilter.instances.append(self)\n"
      "        self._check_data()\n"), "R15.3"),
    ("inversion flag tested by identity (seeded C15_15)", POLY,
     ("        if self.inverted:\n            np.invert(f, f)\n",
      "        if self.inverted is True:\n            np.invert(f, f)\n"),
     "R15.2"),
    ("arrays digested in memory order (seeded C15_13)", "dclab/util.py",
     ("        return obj.tobytes()\n",
      "        return obj.tobytes(order=\"A\")\n"), "R15.2"),
    ("reader decodes latin-1, writer writes the default (seeded C15_18)",
     POLY,
     ('        with filename.open("r", errors="replace") as fd:',
      '        with filename.open("r", encoding="latin-1") as fd:'),
     "R15.3"),
    ("restored vertices ignored when merely close (seeded C15_17)", POLY,
     ('        self.points = state["points"]\n',
      '        points = np.array(state["points"], dtype=np.float64)\n'
      '        if (points.shape != self.points.shape\n'
      '                or not np.allclose(points, self.points)):\n'
      '            self.points = points\n'), "R15.2"),
    ("inversion result discarded", POLY,
     ("            np.invert(f, f)\n", "            np.invert(f)\n"),
     "R15.2"),
    ("inversion dropped", POLY,
     ("        if self.inverted:\n            np.invert(f, f)\n", ""),
     "R15.2"),
    ("inversion polarity", POLY,
     ("        if self.inverted:\n            np.invert(f, f)\n",
      "        if not self.inverted:\n            np.invert(f, f)\n"),
     "R15.2"),
    ("dataset filter swaps the axes", FILT,
     [("datax = rtdc_ds[pf.axes[0]]", "datax = rtdc_ds[pf.axes[1]]"),
      ("datay = rtdc_ds[pf.axes[1]]", "datay = rtdc_ds[pf.axes[0]]")],
     "R15.2"),
    ("reader key drift", POLY,
     ('            elif var.lower() == "inverted":',
      '            elif var.lower() == "invert":'), "R15.3"),
    ("writer drops the inversion flag", POLY,
     ('        data2write.append("Inverted = {}".format(self.inverted))\n',
      ""), "R15.3"),
    ("axes restored in swapped order", POLY,
     ("        self.axes = (xaxis, yaxis)", "        self.axes = (yaxis, "
      "xaxis)"), "R15.3"),
    ("inversion literal lower-case", POLY,
     ('                if val == "True":', '                if val == "true":'
      ), "R15.3"),
    ("point index slice off by one", POLY,
     ("points.append([int(var[5:]), val])",
      "points.append([int(var[6:]), val])"), "R15.3"),
    ("coordinates written y first", POLY,
     [("point[0],\n", "point[1],\n"),
      ("                   point[1]))", "                   point[0]))")],
     "R15.3"),
    ("precision reduced to 8 digits", POLY,
     lambda s: re.sub(r'"point\{:08d\} = \{:\.1\de\} (\{:\.1\de\})"',
                      r'"point{:08d} = {:.7e} \1"', s), "R15.3"),
    ("fixed-point coordinates", POLY,
     lambda s: re.sub(r'"point\{:08d\} = \{:\.1\de\} \{:\.1\de\}"',
                      '"point{:08d} = {:.17f} {:.17f}"', s), "R15.3"),
    ("header prefix not stripped", POLY,
     ('.strip("Polygon []"))', '.strip("[]"))'), "R15.3"),
    ("float format back to .15e (F15 returns)", "dclab/polygon_filter.py",
     ("{:.16e} {:.16e}", "{:.15e} {:.15e}"), "R15.3"),
    ("split at every '=' (F15b returns)", "dclab/polygon_filter.py",
     ('li.split("=", 1)', 'li.split("=")'), "R15.3"),
    ("save_all opens the path again for every filter (F15c returns)",
     "dclab/polygon_filter.py",
     ("polyobj = p.save(polyobj, ret_fobj=True)",
      "polyobj = p.save(polyfile, ret_fobj=True)"), "R15.3"),
]

TWINS = [
    ("straddle via inequality of two tests", GEO,
     ("            (((yp[i] <= y) and (y < yp[j])) or\n"
      "            ((yp[j] <= y) and (y < yp[i])))\n",
      "            ((yp[i] <= y) != (yp[j] <= y))\n")),
    ("abscissa written from the other vertex", GEO,
     ("(x < (xp[j] - xp[i]) * (y - yp[i]) / (yp[j] - yp[i]) + xp[i])",
      "(xp[j] + (y - yp[j]) * (xp[i] - xp[j]) / (yp[i] - yp[j]) > x)")),
    ("next-vertex indexing instead of previous-vertex tracking", GEO,
     lambda s: s.replace("    cdef Py_ssize_t j = nr_verts - 1\n", "")
     .replace("    for i in range(nr_verts):\n        if (",
              "    for i in range(nr_verts):\n"
              "        j = (i + 1) % nr_verts\n        if (")
     .replace("            c = not c\n        j = i\n",
              "            c = not c\n")),
    ("parity by xor, local names", GEO,
     lambda s: s.replace("            c = not c\n", "            c ^= 1\n")
     .replace("double x,\n", "double px,\n").replace(
         "and (x < (xp[j]", "and (px < (xp[j]")),
    ("nested tests with local aliases", GEO,
     lambda s: s.replace(_HIT.join(["        if (\n", "        ):\n"])
                         + "            c = not c\n",
                         "        ya = yp[i]\n        yb = yp[j]\n"
                         "        if (ya <= y) != (yb <= y):\n"
                         "            if x < xp[i] + (y - ya) * (xp[j] - xp[i])"
                         " / (yb - ya):\n"
                         "                c = not c\n")),
    ("point buffer via np.empty with dtype=float", POLY,
     ("        points = np.zeros((datax.shape[0], 2), dtype=np.float64)\n",
      "        points = np.empty((datax.shape[0], 2), dtype=float)\n")),
    ("points stacked and cast to float64", POLY,
     ("        points = np.zeros((datax.shape[0], 2), dtype=np.float64)\n"
      "        points[:, 0] = datax\n        points[:, 1] = datay\n",
      "        points = np.column_stack([datax, datay]).astype(np.float64)\n"
      )),
    ("copy inversion as an inequality", POLY,
     ("        if invert:\n            inverted = not self.inverted\n        else:\n            inverted = self.inverted\n", "        inverted = self.inverted != invert\n")),
    ("copy inversion as a conditional expression", POLY,
     ("        if invert:\n            inverted = not self.inverted\n        else:\n            inverted = self.inverted\n"
      "\n        return PolygonFilter(axes=self.axes,\n"
      "                             points=self.points,\n"
      "                             name=self.name,\n"
      "                             inverted=inverted)",
      "        return PolygonFilter(\n"
      "            axes=self.axes, points=self.points, name=self.name,\n"
      "            inverted=(not self.inverted) if invert else "
      "self.inverted)")),
    ("early return for empty input", POLY,
     ("        points = np.zeros((datax.shape[0], 2), dtype=np.float64)\n",
      "        if datax.size == 0:\n"
      "            return np.zeros(0, dtype=bool)\n"
      "        points = np.zeros((datax.shape[0], 2), dtype=np.float64)\n")),
    ("identifier looked up with the other registry scan", POLY,
     ("        if PolygonFilter.instace_exists(unique_id):",
      "        if PolygonFilter.unique_id_exists(unique_id):")),
    ("wrapper evaluates large inputs in blocks that tile the input", PNPY,
     [("from ._pnpoly import _grid_points_in_poly, _points_in_poly\n", "import numpy as np\n\nfrom ._pnpoly import _grid_points_in_poly, _points_in_poly\n\n_PNPOLY_CHUNK = 2**19\n"),
      ("    return _points_in_poly(points, verts)\n",
       "    points = np.asarray(points)\n"
       "    n = points.shape[0]\n"
       "    if n <= _PNPOLY_CHUNK:\n"
       "        return _points_in_poly(points, verts)\n"
       "    mask = np.zeros(n, dtype=bool)\n"
       "    for start in range(0, n, _PNPOLY_CHUNK):\n"
       "        stop = min(start + _PNPOLY_CHUNK, n)\n"
       "        mask[start:stop] = _points_in_poly(points[start:stop], "
       "verts)\n"
       "    return mask\n")]),
    ("points property: asarray followed by an explicit copy", POLY,
     ("        return np.array(self._points)\n",
      "        pts = np.asarray(self._points)\n"
      "        return pts.copy()\n")),
    ("points property: copy keyword spelled out", POLY,
     ("        return np.array(self._points)\n",
      "        return np.array(self._points, copy=True)\n")),
    ("points property: read-only view of the stored vertices", POLY,
     ("        return np.array(self._points)\n",
      "        pts = np.asarray(self._points).view()\n"
      "        pts.flags.writeable = False\n"
      "        return pts\n")),
    ("_load skips blank lines before the key/value split", POLY,
     ("        subdata = data[start:end]\n",
      "        subdata = data[start:end]\n"
      "        subdata = [li for li in subdata if li.strip()]\n")),
    ("_load separates key and value with partition", POLY,
     ("        subdata = [[it.strip() for it in li.split(\"=\", 1)] "
      "for li in subdata]\n",
      "        subdata = [[it.strip() for it in li.partition(\"=\")[::2]] "
      "for li in subdata]\n")),
    ("_load strips the line ends in a separate pass", POLY,
     ("        subdata = data[start:end]\n",
      "        lines = [li.rstrip(\"\\r\\n\") for li in data[start:end]]\n"
      "        subdata = lines\n")),
    ("vertices bound to a local before the containment test", POLY,
     ("        f = points_in_poly(points=points, verts=self.points)\n",
      "        verts = self.points\n"
      "        f = points_in_poly(points=points, verts=verts)\n")),
    ("inversion flag compared by equality", POLY,
     ("        if self.inverted:\n            np.invert(f, f)\n",
      "        if self.inverted == True:  # noqa: E712\n"
      "            np.invert(f, f)\n")),
    ("restored vertices stored unless exactly equal", POLY,
     ('        self.points = state["points"]\n',
      '        points = np.array(state["points"], dtype=np.float64)\n'
      '        if not np.array_equal(points, self.points):\n'
      '            self.points = points\n')),
    ("filter returns the complement by expression", POLY,
     ("            np.invert(f, f)\n", "            f = ~f\n")),
    ("save with f-strings", POLY,
     [('        data2write.append("Name = {}".format(self.name))\n',
       '        data2write.append(f"Name = {self.name}")\n'),
      ('        data2write.append("Inverted = {}".format(self.inverted))\n',
       '        data2write.append(f"Inverted = {self.inverted}")\n')]),
    ("inversion parsed by assignment", POLY,
     ('                if val == "True":\n'
      '                    self.inverted = True\n',
      '                self.inverted = val == "True"\n')),
    ('refactoring: filter with renamed locals and early return', POLY,
     [('        points = np.zeros((datax.shape[0], 2), dtype=np.float64)\n'
       '        points[:, 0] = datax\n'
       '        points[:, 1] = datay\n'
       '        f = points_in_poly(points=points, verts=self.points)\n'
       '\n'
       '        if self.inverted:\n'
       '            np.invert(f, f)\n'
       '\n'
       '        return f\n',
       '        num_events = datax.shape[0]\n'
       '        coords = np.zeros((num_events, 2), dtype=np.float64)\n'
       '        coords[:, 0] = datax\n'
       '        coords[:, 1] = datay\n'
       '        inside = points_in_poly(points=coords, verts=self.points)\n'
       '\n'
       '        if not self.inverted:\n'
       '            return inside\n'
       '\n'
       '        # in-place logical negation of the boolean mask\n'
       '        np.invert(inside, inside)\n'
       '        return inside\n')]),
    ('refactoring: save() with f-strings and a list comprehension', POLY,
     [('        data2write.append("[Polygon {:08d}]".format(self.unique_id))\n'
       '        data2write.append("X Axis = {}".format(self.axes[0]))\n'
       '        data2write.append("Y Axis = {}".format(self.axes[1]))\n'
       '        data2write.append("Name = {}".format(self.name))\n'
       '        data2write.append("Inverted = {}".format(self.inverted))\n'
       '        for i, point in enumerate(self.points):\n'
       '            # 17 significant digits are required to represent '
       'float64\n'
       '            data2write.append("point{:08d} = {:.16e} '
       '{:.16e}".format(i,\n'
       '                                                                     '
       'point[0],\n'
       '                                                                     '
       'point[1]))\n'
       '        # Add new lines\n'
       '        for i in range(len(data2write)):\n'
       '            data2write[i] += "\\n"\n',
       '        data2write.append(f"[Polygon {self.unique_id:08d}]")\n'
       '        data2write.append(f"X Axis = {self.axes[0]}")\n'
       '        data2write.append(f"Y Axis = {self.axes[1]}")\n'
       '        data2write.append(f"Name = {self.name}")\n'
       '        data2write.append(f"Inverted = {self.inverted}")\n'
       '        for i, point in enumerate(self.points):\n'
       '            # 17 significant digits are required to represent '
       'float64\n'
       '            data2write.append(\n'
       '                f"point{i:08d} = {point[0]:.16e} {point[1]:.16e}")\n'
       '        # Add new lines\n'
       '        data2write = [line + "\\n" for line in data2write]\n')]),
    ('refactoring: section bounds extracted into a static helper', POLY,
     [('        bool_head = [li.strip().startswith("[") for li in data]\n'
       '\n'
       '        int_head = np.squeeze(np.where(bool_head))\n'
       '        int_head = np.atleast_1d(int_head)\n'
       '\n'
       '        start = int_head[self.fileid]+1\n'
       '\n'
       '        if len(int_head) > self.fileid+1:\n'
       '            end = int_head[self.fileid+1]\n'
       '        else:\n'
       '            end = len(data)\n',
       '        start, end = self._get_section_bounds(data, self.fileid)\n'),
      ('    def _set_unique_id(self, unique_id):\n',
       '    @staticmethod\n'
       '    def _get_section_bounds(data, fileid):\n'
       '        """Line range [start, end) of section `fileid` (or '
       'IndexError)"""\n'
       '        bool_head = [li.strip().startswith("[") for li in data]\n'
       '\n'
       '        int_head = np.squeeze(np.where(bool_head))\n'
       '        int_head = np.atleast_1d(int_head)\n'
       '\n'
       '        start = int_head[fileid]+1\n'
       '\n'
       '        if len(int_head) > fileid+1:\n'
       '            end = int_head[fileid+1]\n'
       '        else:\n'
       '            end = len(data)\n'
       '\n'
       '        return start, end\n'
       '\n'
       '    def _set_unique_id(self, unique_id):\n')]),
    ('refactoring: wrapper binds the mask to a local, imports split', PNPY,
     [('from ._pnpoly import _grid_points_in_poly, _points_in_poly\n',
       'from ._pnpoly import _grid_points_in_poly\n'
       'from ._pnpoly import _points_in_poly\n'),
      ('    return _points_in_poly(points, verts)\n',
       '    # delegate to the compiled implementation\n'
       '    mask = _points_in_poly(points, verts)\n'
       '    return mask\n')]),
    ('refactoring: key alias, mirrored comparisons, locals in point_in_poly', POLY,
     [('        if len(int_head) > self.fileid+1:\n'
       '            end = int_head[self.fileid+1]\n'
       '        else:\n'
       '            end = len(data)\n',
       '        next_id = self.fileid+1\n'
       '        if next_id >= len(int_head):\n'
       '            # last section: it extends to the end of the file\n'
       '            end = len(data)\n'
       '        else:\n'
       '            end = int_head[next_id]\n'),
      ('            if var.lower() == "x axis":\n'
       '                xaxis = val.lower()\n'
       '            elif var.lower() == "y axis":\n'
       '                yaxis = val.lower()\n'
       '            elif var.lower() == "name":\n'
       '                self.name = val\n'
       '            elif var.lower() == "inverted":\n'
       '                if val == "True":\n'
       '                    self.inverted = True\n'
       '            elif var.lower().startswith("point"):\n',
       '            key = var.lower()\n'
       '            if key == "x axis":\n'
       '                xaxis = val.lower()\n'
       '            elif key == "y axis":\n'
       '                yaxis = val.lower()\n'
       '            elif key == "name":\n'
       '                self.name = val\n'
       '            elif key == "inverted":\n'
       '                if "True" == val:\n'
       '                    self.inverted = True\n'
       '            elif key.startswith("point"):\n'),
      ('        f = points_in_poly(points=points, verts=np.array(poly))\n'
       '        return f.item()\n',
       '        verts = np.array(poly)\n'
       '        inside = points_in_poly(points=points, verts=verts)\n'
       '        return inside.item()\n')]),
    ("refactoring 2: split/strip pass merged into the parsing loop", POLY,
     [("        subdata = data[start:end]\n\n"
       "        # separate all elements and strip them\n"
       "        # (split at the first \"=\" only; the name may contain \"=\" "
       "as well)\n"
       "        subdata = [[it.strip() for it in li.split(\"=\", 1)] "
       "for li in subdata]\n\n", ""),
      ("        for var, val in subdata:\n",
       "        for line in data[start:end]:\n"
       "            var, val = [it.strip() for it in line.split(\"=\", 1)]\n"
       )]),
    ("refactoring 2: filter with a debug log line and out= keyword", POLY,
     [("import io\n", "import io\nimport logging\n"),
      ("class FilterIdExistsWarning(UserWarning):",
       "logger = logging.getLogger(__name__)\n\n\n"
       "class FilterIdExistsWarning(UserWarning):"),
      ("            np.invert(f, f)\n\n        return f\n",
       "            np.invert(f, out=f)\n\n"
       "        logger.debug(\"polygon filter applied to %d events\", "
       "f.size)\n        return f\n")]),
    ('refactoring 4: compiled module imported under an alias', PNPY,
     [('from ._pnpoly import _grid_points_in_poly, _points_in_poly\n',
       '# compiled implementation (cython extension module)\n'
       'from . import _pnpoly as _pnpoly_cy\n'),
      ('    return _grid_points_in_poly(shape, verts)\n',
       '    return _pnpoly_cy._grid_points_in_poly(shape, verts)\n'),
      ('    return _points_in_poly(points, verts)\n',
       '    return _pnpoly_cy._points_in_poly(points, verts)\n')]),
    ('refactoring 4: keyword arguments made positional', POLY,
     [('            self._load(filename, unique_id=unique_id)\n',
       '            self._load(filename, unique_id)\n'),
      ('        return PolygonFilter(axes=self.axes,\n'
       '                             points=self.points,\n'
       '                             name=self.name,\n'
       '                             inverted=inverted)\n'
       '\n'
       '    def filter(self, datax, datay):\n'
       '        """Filter a set of datax and datay according to '
       '`self.points`"""\n'
       '        points = np.zeros((datax.shape[0], 2), dtype=np.float64)\n'
       '        points[:, 0] = datax\n'
       '        points[:, 1] = datay\n'
       '        f = points_in_poly(points=points, verts=self.points)\n',
       '        # positional order of `__init__`: axes, points, inverted, '
       'name\n'
       '        return PolygonFilter(self.axes, self.points, inverted, '
       'self.name)\n'
       '\n'
       '    def filter(self, datax, datay):\n'
       '        """Filter a set of datax and datay according to '
       '`self.points`"""\n'
       '        points = np.zeros((datax.shape[0], 2), dtype=np.float64)\n'
       '        points[:, 0] = datax\n'
       '        points[:, 1] = datay\n'
       '        f = points_in_poly(points, self.points)\n'),
      ('        f = points_in_poly(points=points, verts=np.array(poly))\n',
       '        f = points_in_poly(points, np.array(poly))\n')]),
    ('refactoring 5: key dispatch written as guard clauses', POLY,
     [('        if len(int_head) > self.fileid+1:\n'
       '            end = int_head[self.fileid+1]\n'
       '        else:\n'
       '            end = len(data)\n',
       '        end = len(data)\n'
       '        if len(int_head) > self.fileid+1:\n'
       '            end = int_head[self.fileid+1]\n'),
      ('            if var.lower() == "x axis":\n'
       '                xaxis = val.lower()\n'
       '            elif var.lower() == "y axis":\n'
       '                yaxis = val.lower()\n'
       '            elif var.lower() == "name":\n'
       '                self.name = val\n'
       '            elif var.lower() == "inverted":\n'
       '                if val == "True":\n'
       '                    self.inverted = True\n'
       '            elif var.lower().startswith("point"):\n'
       '                val = np.array(val.strip("[]").split(), '
       'dtype=np.float64)\n'
       '                points.append([int(var[5:]), val])\n'
       '            else:\n'
       '                raise KeyError("Unknown variable: {} = {}".\n'
       '                               format(var, val))\n',
       '            # each recognized key is handled by one guard clause\n'
       '            if var.lower() == "x axis":\n'
       '                xaxis = val.lower()\n'
       '                continue\n'
       '            if var.lower() == "y axis":\n'
       '                yaxis = val.lower()\n'
       '                continue\n'
       '            if var.lower() == "name":\n'
       '                self.name = val\n'
       '                continue\n'
       '            if var.lower() == "inverted":\n'
       '                if val == "True":\n'
       '                    self.inverted = True\n'
       '                continue\n'
       '            if not var.lower().startswith("point"):\n'
       '                raise KeyError("Unknown variable: {} = {}".\n'
       '                               format(var, val))\n'
       '            val = np.array(val.strip("[]").split(), '
       'dtype=np.float64)\n'
       '            points.append([int(var[5:]), val])\n')]),
    ('refactoring 5: filter delegates to a module-level helper', POLY,
     [('class PolygonFilter(object):\n',
       'def _filter_events(polygon_filter, datax, datay):\n'
       '    """Classify the events (datax, datay) with a '
       ':class:`PolygonFilter`"""\n'
       '    points = np.zeros((datax.shape[0], 2), dtype=np.float64)\n'
       '    points[:, 0] = datax\n'
       '    points[:, 1] = datay\n'
       '    f = points_in_poly(points=points, verts=polygon_filter.points)\n'
       '\n'
       '    if polygon_filter.inverted:\n'
       '        np.invert(f, f)\n'
       '\n'
       '    return f\n'
       '\n'
       '\n'
       'class PolygonFilter(object):\n'),
      ('        points = np.zeros((datax.shape[0], 2), dtype=np.float64)\n'
       '        points[:, 0] = datax\n'
       '        points[:, 1] = datay\n'
       '        f = points_in_poly(points=points, verts=self.points)\n'
       '\n'
       '        if self.inverted:\n'
       '            np.invert(f, f)\n'
       '\n'
       '        return f\n',
       '        return _filter_events(self, datax, datay)\n')]),
    ('refactoring 5: local aliases for the registry lookup and the cache', FILT,
     [('import warnings\n', 'import operator\nimport warnings\n'),
      ('        for pf_id in cfg_cur["polygon filters"]:\n'
       '            pf = PolygonFilter.get_instance_from_id(pf_id)\n'
       '            if (pf_id not in self._poly_filters\n'
       '                    or pf.hash != self._poly_filters[pf_id][0]):\n'
       '                datax = rtdc_ds[pf.axes[0]]\n'
       '                datay = rtdc_ds[pf.axes[1]]\n'
       '                self._poly_filters[pf_id] = (pf.hash, '
       'pf.filter(datax, datay))\n'
       '        # store polygon filters\n'
       '        arr_polygon = self._get_rw_array("polygon")\n'
       '        arr_polygon[:] = True\n'
       '        for pf_id in self._poly_filters:\n'
       '            arr_polygon &= self._poly_filters[pf_id][1]\n',
       '        # cached results: {unique id: (hash, boolean array)}\n'
       '        poly_filters = self._poly_filters\n'
       '        get_polygon_filter = PolygonFilter.get_instance_from_id\n'
       '        for pf_id in cfg_cur["polygon filters"]:\n'
       '            pf = get_polygon_filter(pf_id)\n'
       '            if (pf_id not in poly_filters\n'
       '                    or pf.hash != poly_filters[pf_id][0]):\n'
       '                datax = rtdc_ds[pf.axes[0]]\n'
       '                datay = rtdc_ds[pf.axes[1]]\n'
       '                poly_filters[pf_id] = (pf.hash, pf.filter(datax, '
       'datay))\n'
       '        # store polygon filters\n'
       '        arr_polygon = self._get_rw_array("polygon")\n'
       '        arr_polygon[:] = True\n'
       '        for pf_mask in map(operator.itemgetter(1), '
       'poly_filters.values()):\n'
       '            arr_polygon &= pf_mask\n')]),
    ('refactoring 6: constructor split into private steps', POLY,
     [('            filename = pathlib.Path(filename)\n'
       '            if not isinstance(fileid, int):\n'
       '                raise ValueError("`fileid` must be an integer!")\n'
       '            if not filename.exists():\n'
       '                raise ValueError("Error, no such file: '
       '{}".format(filename))\n'
       '            self.fileid = fileid\n'
       '            # This also sets a unique id\n'
       '            self._load(filename, unique_id=unique_id)\n'
       '        else:\n'
       '            if len(axes) != 2:\n'
       '                raise ValueError("`axes` must have length 2, "\n'
       '                                 + "got \'{}\'!".format(axes))\n'
       '            self.axes = axes\n'
       '            self.points = np.array(points, dtype=np.float64)\n'
       '            self.name = name\n'
       '            if unique_id is None:\n'
       '                # Force giving away a unique id\n'
       '                unique_id = self._instance_counter\n'
       '\n',
       '            self._init_from_file(filename, fileid, unique_id)\n'
       '        else:\n'
       '            unique_id = self._init_from_args(axes, points, name, '
       'unique_id)\n'
       '        self._init_register(unique_id)\n'
       '\n'
       '    def _init_from_file(self, filename, fileid, unique_id):\n'
       '        """Initialize the instance from filter `fileid` of a .poly '
       'file"""\n'
       '        filename = pathlib.Path(filename)\n'
       '        if not isinstance(fileid, int):\n'
       '            raise ValueError("`fileid` must be an integer!")\n'
       '        if not filename.exists():\n'
       '            raise ValueError("Error, no such file: '
       '{}".format(filename))\n'
       '        self.fileid = fileid\n'
       '        # This also sets a unique id\n'
       '        self._load(filename, unique_id=unique_id)\n'
       '\n'
       '    def _init_from_args(self, axes, points, name, unique_id):\n'
       '        """Initialize the instance from `axes`, `points`, and `name`\n'
       '\n'
       '        Returns the unique id that must be set for the instance.\n'
       '        """\n'
       '        if len(axes) != 2:\n'
       '            raise ValueError("`axes` must have length 2, "\n'
       '                             + "got \'{}\'!".format(axes))\n'
       '        self.axes = axes\n'
       '        self.points = np.array(points, dtype=np.float64)\n'
       '        self.name = name\n'
       '        if unique_id is None:\n'
       '            # Force giving away a unique id\n'
       '            unique_id = self._instance_counter\n'
       '        return unique_id\n'
       '\n'
       '    def _init_register(self, unique_id):\n'
       '        """Set the unique id, check the data, and register the '
       'instance"""\n')]),
    ("save_all opens one handle itself and passes it to every save",
     "dclab/polygon_filter.py",
     [("        polyobj = polyfile\n        for p in PolygonFilter.instances:\n",
       "        polyobj = polyfile if isinstance(polyfile, io.IOBase) \\\n"
       "            else pathlib.Path(polyfile).open(\"a\")\n"
       "        for p in PolygonFilter.instances:\n"),
      ("            polyobj = p.save(polyobj, ret_fobj=True)\n",
       "            p.save(polyobj, ret_fobj=True)\n")]),
    ("save_all lets save() close after every filter", "dclab/polygon_filter.py",
     [("            polyobj = p.save(polyobj, ret_fobj=True)\n",
       "            p.save(polyfile)\n"),
      ("        polyobj = polyfile\n", ""),
      ("        # close the object after we are done saving all filters\n"
       "        polyobj.close()\n", "")]),
]
