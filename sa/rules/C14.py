"""C14 – basins are only followed when matching, acyclic and permitted.

R14.1 isolation.  (table) every direct subclass of ``Basin`` declares a
      constant ``basin_format`` / ``basin_type``; formats are unique.  (sites)
      in ``RTDCBase.basins_retrieve`` every instantiation of the class selected
      by ``format`` is dominated by the ``_local_basins_allowed`` test, or by a
      test that the class's ``basin_type`` equals the declared ``type`` on a
      branch whose declared type is not ``file``.  (who-may-write) the only
      writers of ``_local_basins_allowed`` are ``RTDCBase.__init__`` (False),
      ``RTDC_HDF5.__init__`` (true for format "hdf5" only) and the in-memory
      ``RTDC_Dict``; ``format`` is only derived from the class name and no
      subclass of ``RTDC_HDF5`` derives "hdf5"; remote basin classes load
      such a network class (nested basins inherit the restriction).
R14.2 cycle cut.  (a) the ``key in self._basins_ignored`` test dominates
      every instantiation; (b) ``ignored_basins`` handed to every class is
      own keys + inherited keys; (c) ``Basin.ds`` installs it on the loaded
      dataset before anything can evaluate that dataset's basins, no dataset
      constructor evaluates basins; (d) ``BasinProxy`` forwards
      ``ignore_basins``; (e) the ignore list is only ever extended; (f) every
      ``basins_get_dicts`` attaches ``key``.
      (g) termination also needs that code inside ``with self._av_check_lock``
      (a non-reentrant lock) never reaches a method that takes the lock again
      (calls, property reads, string conversion of ``self``).
R14.3 identifier law.  ``verify_basin``: equality for mapping "same",
      ``referrer.startswith(basin)`` otherwise; the verdict is returned;
      ``get_feature_data`` asserts it before touching data; file basins are
      admitted through ``verify_basin()`` only; no basin class other than
      the internal one overrides the chain; ``RTDCWriter.store_basin`` applies
      the same law when verifying.
R14.4 degradation.  In ``_get_basin_feature_data`` all basin access is
      inside the ``try``; a catch-all handler exists; no handler re-raises;
      the result is ``None`` unless a basin delivered; the basin list is
      iterated over a copy when it is edited; ``features_basin`` lists
      features of available basins only.
"""
from __future__ import annotations

import ast
import re

from ..cfg import CFG, branch_facts
from ..core import (AnalysisError, call_name, const_str, dotted, find_calls,
                    is_name, is_self_attr, kwarg, last_attr, link, names_in,
                    qualname, short, txt, walk)
from ..normalize import expand_locals
from ..lib_C14 import (BASIN_TYPES, CORE, DCORBASE, FB, FDICT, H5BASE,
                       WRITER, Raises, Unknown, Mini, Model, base_names,
                       cfg_ids,
                       class_assign, classes_in, edge_guarded,
                       enclosing_conditions, fact_guard, files_mentioning,
                       fold, fold_basin_classes, method, self_attr_writes,
                       run_straight, single_assign, stmt_of, basin_loop,
                       class_constants, expand_partials,
                       inline_module_helpers, interpret, method_mro,
                       ifexp_to_if,
                       module_functions)

ASSUMPTIONS = [
    "NOT decided: termination as a wall-clock fact; availability checks of "
    "remote basins (network); that the features of an identifier-mismatched "
    "remote basin are not listed (they are listed until accessed).",
    "Basin keys served by a DCOR server (RTDC_DCOR.basins_get_dicts) are "
    "taken to be present and unique – the server is outside the repository.",
    "Writers of `_local_basins_allowed` / `_basins_ignored` / `format` are "
    "found syntactically (assignment, augmented assignment, setattr with a "
    "constant name, mutating list methods); writes through __dict__ or "
    "computed attribute names are not seen.",
    "The table of permitted writers of `_local_basins_allowed` (RTDCBase, "
    "RTDC_HDF5 under format == 'hdf5', in-memory RTDC_Dict) is a table of "
    "the rule, confirmed by reading.",
]

ALLOWED_WRITERS = {
    (CORE, "RTDCBase.__init__"): "false",
    (H5BASE, "RTDC_HDF5.__init__"): "hdf5-only",
    (FDICT, "RTDC_Dict"): "in-memory",
}
PROBE_FORMATS = ("hdf5", "http", "s3", "dcor", "dict", "hierarchy", "tdms",
                 "x")
BASIN_TOUCHING = {"basins", "features", "features_basin", "features_innate",
                  "features_loaded", "features_local", "features_scalar",
                  "features_ancillary", "basins_retrieve",
                  "_get_basin_feature_data", "_feature_candidates"}
CHAIN = ("verify_basin", "_assert_measurement_identifier",
         "get_feature_data", "get_measurement_identifier", "ds",
         "load_dataset")


#: (referrer identifier, basin identifier, relation) – one representative
#: per way two identifiers can be related
ID_PAIRS = (
    ("2024-M7-ab12", "2024-M7-ab12", "equal"),
    ("2024-M7-ab12", "2024-M7", "basin is a proper prefix"),
    ("2024-M7-ab12", "ab12", "basin is a proper suffix"),
    ("2024-M7-ab12", "M7", "basin is an infix"),
    ("2024-M7-ab12", "zz9", "unrelated"),
    ("2024-M7", "2024-M7-ab12", "referrer is a proper prefix of the basin"),
    ("ab12", "2024-M7-ab12", "referrer is a proper suffix of the basin"),
    ("M7", "2024-M7-ab12", "referrer is an infix of the basin"),
    ("2024-M7-AB12", "2024-m7-ab12", "equal up to case"),
    ("2024-M7-ab12", "", "empty basin identifier"),
    ("", "2024-M7", "empty referrer identifier"),
    ("", "", "both empty"),
    ("2024-M7-ab12", None, "basin without identifier"),
)


#: methods that are anchors of rules and are never inlined
KEEP_CALLS = ("_get_basin_feature_data", "_get_ancillary_feature_data",
              "_assert_measurement_identifier", "_load_dataset")


def is_key(e, var, key):
    return (isinstance(e, ast.Subscript) and is_name(e.value, var)
            and const_str(e.slice) == key)


# ----------------------------------------------------------------------
# instantiation sites of basins_retrieve

class Sites:
    def __init__(self, func):
        self.func = func
        self.bc = {n.targets[0].id for n in walk(func)
                   if isinstance(n, ast.Assign) and len(n.targets) == 1
                   and isinstance(n.targets[0], ast.Name)
                   and isinstance(n.value, ast.Call)
                   and last_attr(n.value) == "get_basin_classes"}
        if not self.bc:
            raise AnalysisError("basins_retrieve: basin class table "
                                "(get_basin_classes) no longer looked up")
        self.cls_rhs = {}
        for n in walk(func):
            if isinstance(n, ast.Assign) and len(n.targets) == 1 \
                    and isinstance(n.targets[0], ast.Name) \
                    and isinstance(n.value, ast.Subscript) \
                    and isinstance(n.value.value, ast.Name) \
                    and n.value.value.id in self.bc:
                self.cls_rhs.setdefault(n.targets[0].id, set()).add(
                    txt(n.value))
        self.calls = []
        for c in walk(func):
            if not isinstance(c, ast.Call):
                continue
            f = c.func
            if isinstance(f, ast.Name) and f.id in self.cls_rhs:
                self.calls.append(c)
            elif isinstance(f, ast.Subscript) and isinstance(
                    f.value, ast.Name) and f.value.id in self.bc:
                self.calls.append(c)
        if not self.calls:
            raise AnalysisError("basins_retrieve: no instantiation of the "
                                "class selected by the basin format found")
        for name, rhs in self.cls_rhs.items():
            if len(rhs) != 1:
                raise AnalysisError(
                    f"basins_retrieve: `{name}` is bound to different "
                    f"classes ({sorted(rhs)})")
        # the loop over the definitions
        loops = [n for n in walk(func) if isinstance(n, ast.For)
                 and isinstance(n.target, ast.Name)
                 and all(any(x is c for x in ast.walk(n))
                         for c in self.calls)]
        if not loops:
            raise AnalysisError("basins_retrieve: loop over the basin "
                                "definitions not found")
        self.loop = min(loops, key=lambda n: n.lineno)
        self.var = self.loop.target.id
        rebinding = [n for n in walk(self.loop) if isinstance(
            n, (ast.Assign, ast.AugAssign, ast.For)) and n is not self.loop
            and any(isinstance(t, ast.Name) and t.id == self.var
                    for t in ast.walk(n.targets[0] if isinstance(
                        n, ast.Assign) else n.target)
                    if isinstance(t, ast.Name) and isinstance(
                        t.ctx, ast.Store))]
        if rebinding:
            raise AnalysisError("basins_retrieve: the definition variable is "
                                "rebound inside the loop")
        # locals that stand for an entry of the definition
        # (b_type = bdict["type"]), assigned exactly once
        self.alias = {}
        stores = {}
        for n in walk(func):
            if isinstance(n, ast.Name) and isinstance(n.ctx, ast.Store):
                stores[n.id] = stores.get(n.id, 0) + 1
        for n in walk(self.loop):
            if isinstance(n, ast.Assign) and len(n.targets) == 1 \
                    and isinstance(n.targets[0], ast.Name) \
                    and stores.get(n.targets[0].id) == 1 \
                    and isinstance(n.value, ast.Subscript) and is_name(
                        n.value.value, self.var) and const_str(
                        n.value.slice) is not None:
                self.alias[n.targets[0].id] = const_str(n.value.slice)
        self.cfg = CFG(func)

    def is_entry(self, e, key):
        """`<def>[key]` or a local assigned once from it"""
        return is_key(e, self.var, key) or (
            isinstance(e, ast.Name) and self.alias.get(e.id) == key)

    def cls_text(self, call):
        f = call.func
        if isinstance(f, ast.Name):
            return f.id, list(self.cls_rhs[f.id])[0]
        return None, txt(f)

    def label(self, call):
        # independent of the name chosen for the loop variable
        return re.sub(rf"\b{re.escape(self.var)}\b", "<def>",
                      short(call, 60))

    # facts -------------------------------------------------------------
    def type_set(self, e, t):
        """set of declared types guaranteed by (e, t) or None"""
        if not (isinstance(e, ast.Compare) and len(e.ops) == 1):
            return None
        a, op, b = e.left, e.ops[0], e.comparators[0]
        if self.is_entry(b, "type") and isinstance(op, (ast.Eq, ast.NotEq)):
            a, b = b, a
        if not self.is_entry(a, "type"):
            return None
        if isinstance(op, ast.Eq) and t or isinstance(op, ast.NotEq) and not t:
            s = const_str(b)
            return {s} if s is not None else None
        if isinstance(op, ast.In) and t or isinstance(op, ast.NotIn) and not t:
            if isinstance(b, (ast.List, ast.Tuple, ast.Set)) and all(
                    const_str(x) is not None for x in b.elts):
                return {const_str(x) for x in b.elts}
        return None

    def declared(self, call):
        ids = cfg_ids(self.cfg, call)
        out = set()
        for T in BASIN_TYPES:
            def fact(e, t, T=T):
                s = self.type_set(e, t)
                return s is not None and T not in s
            if not edge_guarded(self.cfg, ids, fact_guard(fact)):
                out.add(T)
        return out

    def allowed_guard(self, call):
        def fact(e, t):
            return t and is_self_attr(e, "_local_basins_allowed")
        return edge_guarded(self.cfg, cfg_ids(self.cfg, call),
                            fact_guard(fact))

    def agree_guard(self, call):
        name, rhs = self.cls_text(call)

        def is_cls_type(x):
            return isinstance(x, ast.Attribute) and x.attr == "basin_type" \
                and ((name is not None and is_name(x.value, name))
                     or txt(x.value) == rhs)

        def fact(e, t):
            if not (isinstance(e, ast.Compare) and len(e.ops) == 1):
                return False
            a, op, b = e.left, e.ops[0], e.comparators[0]
            pair = (is_cls_type(a) and self.is_entry(b, "type")) or (
                is_cls_type(b) and self.is_entry(a, "type"))
            if not pair:
                return False
            return (isinstance(op, ast.Eq) and t) or (
                isinstance(op, ast.NotEq) and not t)
        return edge_guarded(self.cfg, cfg_ids(self.cfg, call),
                            fact_guard(fact))


# ----------------------------------------------------------------------
def r141(ctx, repo, sites):
    table = fold_basin_classes(repo)
    seen = {}
    for rel, cls, fmt, typ in table:
        ok = fmt is not None and typ in BASIN_TYPES
        ctx.ob("R14.1", ok,
               f"basin class {cls.name}: format {fmt!r}, type {typ!r}"
               + ("" if ok else " – format/type must be class-level string "
                  "constants, type one of internal/file/remote"),
               node=cls, key=f"{rel}::{cls.name}::basin class table entry")
        seen.setdefault(fmt, []).append(cls.name)
    dup = {k: v for k, v in seen.items() if len(v) > 1}
    ctx.ob("R14.1", not dup,
           "basin formats are unique" if not dup else
           f"basin format registered by several classes: {dup}",
           node=table[0][1], key=f"{FB}::get_basin_classes::unique formats")
    ctx.stat("basin class table", {fmt: (cls.name, typ)
                                   for _, cls, fmt, typ in table})
    gbc = repo.func(FB, "get_basin_classes")
    reg = any(isinstance(n, ast.Assign) and isinstance(
        n.targets[0], ast.Subscript) and isinstance(
        n.targets[0].slice, ast.Attribute)
        and n.targets[0].slice.attr == "basin_format" for n in walk(gbc)) \
        or any(isinstance(n, ast.DictComp) and isinstance(
            n.key, ast.Attribute) and n.key.attr == "basin_format"
            and txt(n.key.value) == txt(n.value)
            and len(n.generators) == 1 and is_name(
                n.generators[0].target, txt(n.value))
            and "__subclasses__" in txt(n.generators[0].iter)
            for n in walk(gbc))
    sub = any(last_attr(c) == "__subclasses__" for c in find_calls(
        gbc, attr="__subclasses__"))
    if not (reg and sub):
        raise AnalysisError("get_basin_classes: registry idiom "
                            "(Basin.__subclasses__ keyed by basin_format) "
                            "not recognised")
    file_formats = sorted(f for _, _, f, t in table if t == "file")

    # (sites)
    for c in sites.calls:
        decl = sites.declared(c)
        allowed = sites.allowed_guard(c)
        agree = sites.agree_guard(c)
        ok = allowed or (agree and "file" not in decl)
        how = ("dominated by the _local_basins_allowed test" if allowed else
               "class type tested against the declared type "
               f"{sorted(decl)}")
        ctx.ob("R14.1", ok,
               (f"instantiation on declared type(s) {sorted(decl)}: " + how)
               if ok else
               f"the class selected by `format` is instantiated for declared "
               f"type(s) {sorted(decl)} without the _local_basins_allowed "
               f"test and without comparing its basin_type with the declared "
               f"type: a definition with such a type and a file-type format "
               f"({', '.join(file_formats)}) makes a dataset that must not "
               f"follow local basins open a local file",
               node=c, label="isolation " + sites.label(c))
    # `_local_basins_allowed` must not change under the guard
    # (checked with the writers below: no writer inside basins_retrieve)


def r141_writers(ctx, repo):
    writes = self_attr_writes(repo, "_local_basins_allowed")
    fmt_expr = None
    init = repo.func(CORE, "RTDCBase.__init__")
    for n in walk(init):
        if isinstance(n, ast.Assign) and any(
                is_self_attr(t, "format") for t in n.targets):
            fmt_expr = n.value
    if fmt_expr is None:
        raise AnalysisError("RTDCBase.__init__: derivation of `format` lost")
    for rel, node, kind, value in writes:
        q = qualname(node)
        where = (rel, q)
        policy = ALLOWED_WRITERS.get(where)
        lab = f"writer of _local_basins_allowed [{kind}]"
        if kind == "class" and _shadowed(repo, q, init):
            ctx.ob("R14.1", True,
                   "class attribute shadowed by the instance attribute set "
                   "in RTDCBase.__init__ (dead)", node=node, label=lab,
                   nontrivial=False)
            ctx.note(f"{rel}::{q}: class-level _local_basins_allowed is "
                     f"shadowed by RTDCBase.__init__ (dead)")
            continue
        if policy is None:
            never = False
            if value is not None:
                try:
                    never = Mini({}).ev(value) is False
                except Unknown:
                    never = False
            ctx.ob("R14.1", never,
                   "switches local basins off" if never else
                   f"`{short(node, 60)}`: local basins are switched on "
                   f"outside RTDCBase/RTDC_HDF5/RTDC_Dict – a dataset format "
                   f"that is not local may follow file basins",
                   node=node, label=lab)
            continue
        if policy == "false":
            ok = kind == "assign" and isinstance(value, ast.Constant) \
                and value.value is False
            ctx.ob("R14.1", ok,
                   "the base class switches local basins off" if ok else
                   f"the base class default is `{txt(value)}`, not False: "
                   f"every format follows file basins", node=node, label=lab)
        elif policy == "hdf5-only":
            func = repo.func(rel, q)
            if kind != "assign" or not all(
                    is_self_attr(t, "_local_basins_allowed")
                    for t in node.targets):
                raise AnalysisError(f"{rel}::{q}: unrecognised write "
                                    f"`{short(node, 60)}`")
            conds = enclosing_conditions(node, func)
            on = []
            for f in PROBE_FORMATS:
                env = {"self.format": f}
                path = all(bool(fold(t, env, "guard of the writer")) == pol
                           for t, pol in conds)
                if path and fold(value, env, "value of the writer"):
                    on.append(f)
            ok = set(on) <= {"hdf5"}
            ctx.ob("R14.1", ok,
                   f"RTDC_HDF5 enables local basins for format(s) {on} only"
                   if ok else
                   f"RTDC_HDF5 enables local basins for formats {on}: a "
                   f"subclass with any of these formats that is not the local "
                   f"'hdf5' reader (network readers such as http / s3 are "
                   f"subclasses of RTDC_HDF5) follows file basins",
                   node=node, label=lab)
            # the instance attribute is set after the base initialiser ran
        elif policy == "in-memory":
            ctx.ob("R14.1", kind == "class",
                   "class attribute of the in-memory format", node=node,
                   label=lab, nontrivial=False)
    present = {(rel, qualname(node)) for rel, node, _, _ in writes}
    for where in [(CORE, "RTDCBase.__init__")]:
        if where not in present:
            raise AnalysisError("RTDCBase.__init__ no longer initialises "
                                "_local_basins_allowed")
    # the format seen by the RTDC_HDF5 guard is the derived one
    index = dataset_classes(repo)
    h5init = repo.func(H5BASE, "RTDC_HDF5.__init__")
    fw = [n for n in walk(h5init) if isinstance(n, (ast.Assign, ast.AugAssign))
          and any(is_self_attr(t, "format") for t in (
              n.targets if isinstance(n, ast.Assign) else [n.target]))]
    for nm, (rel_, cls_) in sorted(index.items()):
        if class_assign(cls_, "format") is not None or method(
                cls_, "format") is not None:
            fw.append(cls_)
    ctx.ob("R14.1", not fw,
           "`format` is only derived from the class name in "
           "RTDCBase.__init__ (no class-level format, no reassignment before "
           "the RTDC_HDF5 guard)" if not fw else
           f"`format` is redefined ({short(fw[0], 50)}): the test "
           f"format == 'hdf5' no longer identifies local files",
           node=fw[0] if fw else init,
           key=f"{CORE}::RTDCBase.__init__::sole source of format")
    # network classes never derive "hdf5"

    fmt_full = ast.parse(expand_locals(init, fmt_expr), mode="eval").body

    def derived(name):
        return fold(fmt_full, {"self.__class__.__name__": name},
                    "format derivation")
    if derived("RTDC_HDF5") != "hdf5":
        raise AnalysisError("format derivation no longer maps RTDC_HDF5 to "
                            "'hdf5'")
    subs = [n for n in index if n != "RTDC_HDF5"
            and "RTDC_HDF5" in chain_of(index, n)]
    for n in sorted(subs):
        rel, cls = index[n]
        d = derived(n)
        ctx.ob("R14.1", d != "hdf5",
               f"{n} (subclass of RTDC_HDF5) has format {d!r}: local basins "
               f"stay off" if d != "hdf5" else
               f"{n} derives format 'hdf5' from its name and therefore "
               f"follows local basins although it is not RTDC_HDF5",
               node=cls, key=f"{rel}::{n}::derived format is not hdf5")
    # remote basin classes load network datasets
    enabling = {qualname(node).split(".")[0] for rel, node, kind, v in writes
                if ALLOWED_WRITERS.get((rel, qualname(node))) != "false"}
    for rel, cls, fmt, typ in fold_basin_classes(repo):
        if typ != "remote":
            continue
        ld = method(cls, "_load_dataset")
        if ld is None:
            raise AnalysisError(f"{rel}::{cls.name}: _load_dataset lost")
        loaded = set()
        for r in [n for n in walk(ld) if isinstance(n, ast.Return)]:
            v = r.value
            if isinstance(v, ast.Name):
                v = single_assign(ld, v.id)
            if not isinstance(v, ast.Call) or dotted(v.func) is None:
                raise AnalysisError(f"{rel}::{cls.name}._load_dataset: "
                                    f"unrecognised return value")
            loaded.add(dotted(v.func).split(".")[-1])
        bad = []
        for c in sorted(loaded):
            if c not in index:
                raise AnalysisError(f"{rel}::{cls.name}._load_dataset loads "
                                    f"unknown class {c}")
            ch = chain_of(index, c)
            if "RTDC_HDF5" in ch and derived(c) == "hdf5":
                bad.append(f"{c} has format 'hdf5'")
            own = [x for x in ch if x in enabling and x != "RTDC_HDF5"]
            if own:
                bad.append(f"{own[0]} enables local basins")
        ctx.ob("R14.1", not bad,
               f"remote basin class {cls.name} loads {sorted(loaded)}: local "
               f"basins stay off in nested datasets" if not bad else
               f"remote basin class {cls.name}: {bad[0]} – basins nested in "
               f"a remote basin may be local files",
               node=ld, key=f"{rel}::{cls.name}._load_dataset::loads a "
               f"dataset class without local basins")


def _shadowed(repo, clsname, base_init):
    """a class-level attribute of dataset class `clsname` is dead when every
    constructor on the way up calls the base constructor and RTDCBase.__init__
    assigns the instance attribute unconditionally"""
    index = dataset_classes(repo)
    if clsname not in index:
        return False
    ch = chain_of(index, clsname)
    if "RTDCBase" not in ch:
        return False
    if not any(isinstance(st, ast.Assign) and any(
            is_self_attr(t, "_local_basins_allowed") for t in st.targets)
            for st in base_init.body):
        return False
    for nm in ch:
        if nm == "RTDCBase":
            continue
        ini = method(index[nm][1], "__init__")
        if ini is None:
            continue
        sup = [st for st in ini.body if isinstance(st, ast.Expr)
               and isinstance(st.value, ast.Call)
               and last_attr(st.value) == "__init__"
               and isinstance(st.value.func.value, ast.Call)
               and call_name(st.value.func.value) == "super"]
        if not sup:
            return False
    return True


def dataset_classes(repo):
    index = {}
    for rel in files_mentioning(repo, ["(RTDCBase)", "(RTDC_HDF5)",
                                       "RTDCBase,", "RTDC_HDF5,"]):
        for name, cls in classes_in(repo, rel):
            index[name] = (rel, cls)
    base = repo.cls(CORE, "RTDCBase")
    index["RTDCBase"] = (CORE, base)
    return index


def chain_of(index, name):
    out = []
    todo = [name]
    while todo:
        n = todo.pop(0)
        if n in out or n not in index:
            continue
        out.append(n)
        todo += base_names(index[n][1])
    return out


# ----------------------------------------------------------------------
def r142(ctx, repo, sites):
    func, var, cfg = sites.func, sites.var, sites.cfg

    # (a) cycle test before every instantiation
    bound_keys = {n.targets[0].id for n in walk(sites.loop)
                  if isinstance(n, ast.Assign) and len(n.targets) == 1
                  and isinstance(n.targets[0], ast.Name)
                  and is_key(n.value, var, "key")}

    def is_keyexpr(e):
        return is_key(e, var, "key") or (
            isinstance(e, ast.Name) and e.id in bound_keys)

    def member(e):
        """+1: `key in ignored`, -1: `key not in ignored`, 0: neither"""
        if isinstance(e, ast.Compare) and len(e.ops) == 1 and is_keyexpr(
                e.left) and is_self_attr(e.comparators[0], "_basins_ignored"):
            if isinstance(e.ops[0], ast.In):
                return 1
            if isinstance(e.ops[0], ast.NotIn):
                return -1
        return 0

    def presence(e):
        return isinstance(e, ast.Compare) and len(e.ops) == 1 and isinstance(
            e.ops[0], ast.In) and const_str(e.left) == "key" and is_name(
            e.comparators[0], var)

    def not_ignored(src, lab, dst):
        if src.kind != "test" or lab not in ("T", "F"):
            return False
        for e, t in branch_facts(src.ast.test, lab == "T"):
            m = member(e)
            if (m == 1 and not t) or (m == -1 and t):
                return True
            if presence(e) and not t:
                return True     # no key at all: nothing to compare
            if isinstance(e, ast.BoolOp) and isinstance(e.op, ast.And) \
                    and not t and any(member(v) == 1 for v in e.values) \
                    and all(member(v) == 1 or presence(v) for v in e.values):
                return True
        return False
    for c in sites.calls:
        ok = edge_guarded(cfg, cfg_ids(cfg, c), not_ignored)
        ctx.ob("R14.2", ok,
               "the cycle test (key in self._basins_ignored -> skip) "
               "dominates the instantiation" if ok else
               "a basin whose key is in the ignore list can be instantiated: "
               "cyclic basin definitions recurse without bound",
               node=c, label="cycle-test " + sites.label(c))

    # (b) ignored_basins = own keys + inherited keys, handed to every class
    passed = {}
    for c in sites.calls:
        val = kwarg(c, "ignored_basins")
        if val is None:
            for kw in c.keywords:
                if kw.arg is None and isinstance(kw.value, ast.Name):
                    d = [n.value for n in walk(func) if isinstance(
                        n, ast.Assign) and len(n.targets) == 1 and is_name(
                        n.targets[0], kw.value.id)]
                    for dd in d:
                        if isinstance(dd, ast.Dict):
                            for k, v in zip(dd.keys, dd.values):
                                if const_str(k) == "ignored_basins":
                                    val = v
        passed[c] = val
        ctx.ob("R14.2", val is not None,
               f"the class receives ignored_basins={txt(val)}"
               if val is not None else
               "the basin is created without `ignored_basins`: the dataset "
               "it loads follows the definitions that led here",
               node=c, label="passes ignored_basins " + sites.label(c))
    vals = {txt(v) for v in passed.values() if v is not None}
    if len(vals) == 1 and all(isinstance(v, ast.Name) for v in passed.values()
                              if v is not None):
        V = list(vals)[0]
        # definitions list
        it = sites.loop.iter
        defs_names = {it.id} if isinstance(it, ast.Name) else set()
        for n in walk(func):
            if isinstance(n, ast.Assign) and len(n.targets) == 1 and is_name(
                    n.targets[0], V) or isinstance(
                    n, ast.AugAssign) and is_name(n.target, V):
                if any(x is n for x in ast.walk(sites.loop)):
                    raise AnalysisError(
                        f"basins_retrieve: `{V}` is modified inside the "
                        f"loop over the definitions")
        own = inherited = None
        unknown = []

        def is_defs(it):
            return (isinstance(it, ast.Name) and it.id in defs_names) \
                or "basins_get_dicts" in txt(it)

        def presence_of(t, v):
            return isinstance(t, ast.Compare) and len(
                t.ops) == 1 and const_str(t.left) == "key" and isinstance(
                t.ops[0], ast.In) and is_name(t.comparators[0], v)

        def parts(e):
            if isinstance(e, ast.BinOp) and isinstance(e.op, ast.Add):
                return parts(e.left) + parts(e.right)
            if isinstance(e, ast.Call) and call_name(e) in (
                    "list", "sorted", "tuple") and len(e.args) == 1:
                return parts(e.args[0])
            if isinstance(e, (ast.List, ast.Tuple)) and any(
                    isinstance(x, ast.Starred) for x in e.elts):
                out = []
                for x in e.elts:
                    out += parts(x.value) if isinstance(
                        x, ast.Starred) else [x]
                return out
            return [e]

        def classify(e, st):
            """-> 'own' | 'inherited' | 'none' | 'self' | None (unknown)"""
            if isinstance(e, (ast.List, ast.Tuple)) and not e.elts:
                return "none"
            if is_name(e, V):
                return "self"
            if is_self_attr(e, "_basins_ignored"):
                return "inherited"
            if isinstance(e, (ast.ListComp, ast.GeneratorExp,
                              ast.SetComp)) and len(e.generators) == 1:
                g = e.generators[0]
                if isinstance(g.target, ast.Name) and is_key(
                        e.elt, g.target.id, "key") and is_defs(
                        g.iter) and all(presence_of(i, g.target.id)
                                        for i in g.ifs):
                    return "own"
            return None
        for n in func.body:
            if n is sites.loop:
                break
            contrib = None
            if isinstance(n, ast.Assign) and len(
                    n.targets) == 1 and is_name(n.targets[0], V):
                own = inherited = None    # rebuilt from here
                unknown = []
                contrib = parts(n.value)
            elif isinstance(n, ast.AugAssign) and is_name(
                    n.target, V) and isinstance(n.op, ast.Add):
                contrib = parts(n.value)
            elif isinstance(n, ast.Expr) and isinstance(
                    n.value, ast.Call) and isinstance(
                    n.value.func, ast.Attribute) and is_name(
                    n.value.func.value, V):
                if n.value.func.attr == "extend" and len(n.value.args) == 1:
                    contrib = parts(n.value.args[0])
                elif n.value.func.attr == "append":
                    unknown.append(n)
                else:
                    unknown.append(n)
            elif isinstance(n, ast.For):
                adds = [c for c in walk(n) if isinstance(c, ast.Call)
                        and isinstance(c.func, ast.Attribute)
                        and is_name(c.func.value, V)]
                if adds:
                    for c in adds:
                        good = isinstance(n.target, ast.Name) and is_defs(
                            n.iter) and c.func.attr == "append" and len(
                            c.args) == 1 and is_key(
                            c.args[0], n.target.id, "key") and all(
                            pol and presence_of(t, n.target.id)
                            for t, pol in enclosing_conditions(c, n)) \
                            and not any(isinstance(x, (ast.Break,
                                                       ast.Continue,
                                                       ast.Return))
                                        for x in walk(n))
                        if good:
                            own = n
                        else:
                            unknown.append(n)
            elif any(isinstance(x, ast.Name) and x.id == V and isinstance(
                    x.ctx, ast.Store) for x in walk(n)) or any(
                    isinstance(c, ast.Call) and isinstance(
                        c.func, ast.Attribute) and is_name(c.func.value, V)
                    for c in walk(n)):
                unknown.append(n)
            for e in contrib or []:
                k = classify(e, n)
                if k == "own":
                    own = n
                elif k == "inherited":
                    inherited = n
                elif k is None:
                    unknown.append(n)
        if unknown and (own is None or inherited is None):
            raise AnalysisError(
                f"basins_retrieve: cannot classify how `{V}` is built "
                f"(`{short(unknown[0], 60)}`)")
        ctx.ob("R14.2", own is not None,
               f"`{V}` contains the key of every definition of this dataset"
               if own is not None else
               f"`{V}` does not collect the keys of this dataset's own "
               f"definitions: A -> B -> A is followed for ever",
               node=own or func, label="ignored_basins has own keys")
        ctx.ob("R14.2", inherited is not None,
               f"`{V}` also contains the inherited ignore list"
               if inherited is not None else
               f"`{V}` drops the inherited ignore list: cycles of length > 2 "
               f"are followed for ever",
               node=inherited or func, label="ignored_basins has inherited "
               "keys")
    elif vals:
        raise AnalysisError("basins_retrieve: the sites receive different "
                            f"ignored_basins values {sorted(vals)}")

    # (c) Basin.ds installs the list before anything else touches the dataset
    dsf = None
    bcls = repo.cls(FB, "Basin")
    for st in bcls.body:
        if isinstance(st, ast.FunctionDef) and st.name == "ds" and any(
                txt(d) == "property" for d in st.decorator_list):
            dsf = st
    if dsf is None:
        raise AnalysisError("Basin.ds property lost")
    loads = [n for n in walk(dsf) if isinstance(n, ast.Assign)
             and isinstance(n.value, ast.Call)
             and last_attr(n.value) in ("load_dataset", "_load_dataset")]
    if len(loads) != 1 or len(loads[0].targets) != 1 or not isinstance(
            loads[0].targets[0], (ast.Attribute, ast.Name)):
        raise AnalysisError("Basin.ds: loading idiom not recognised")
    aliases = {txt(loads[0].targets[0])}
    alias_stmts = set()
    changed = True
    while changed:
        changed = False
        for n in walk(dsf):
            if isinstance(n, ast.Assign) and len(n.targets) == 1 and txt(
                    n.value) in aliases and isinstance(
                    n.targets[0], (ast.Attribute, ast.Name)):
                alias_stmts.add(id(n))
                if txt(n.targets[0]) not in aliases:
                    aliases.add(txt(n.targets[0]))
                    changed = True
    dcfg = CFG(dsf)

    def is_install(n):
        if n.ast is None or n.kind != "stmt":
            return False
        for c in find_calls(n.ast, attr="ignore_basins"):
            if isinstance(c.func, ast.Attribute) and txt(
                    c.func.value) in aliases and c.args:
                arg = expand_locals(dsf, c.args[0])
                if arg in ("self.ignored_basins", "(self.ignored_basins)"):
                    return True
                if isinstance(ast.parse(arg, mode="eval").body,
                              (ast.Name, ast.Call)):
                    raise AnalysisError(
                        f"Basin.ds: cannot tell what `{short(c, 50)}` "
                        f"installs")
        return False

    def mentions(a):
        return any(txt(x) in aliases for x in ast.walk(a)
                   if isinstance(x, (ast.Attribute, ast.Name)))
    ok = all(dcfg.must_pass(is_install, src=i,
                            avoid_edge=lambda s, lab, d: lab == "x")
             for i in dcfg.ids_of(loads[0]))
    early = []
    for i in dcfg.ids_of(loads[0]):
        for j in dcfg.reach([i], avoid_node=is_install,
                            avoid_edge=lambda s, lab, d: lab == "x"):
            nd = dcfg.nodes[j]
            a = nd.ast
            if a is None or nd.kind not in ("stmt", "test", "for"):
                continue
            part = a.test if nd.kind == "test" else (
                a.iter if nd.kind == "for" else a)
            if id(a) in alias_stmts or isinstance(a, ast.Return):
                continue
            if mentions(part):
                early.append(a)
    ctx.ob("R14.2", ok and not early,
           "the loaded dataset gets ignore_basins(self.ignored_basins) "
           "before it is returned or used" if ok and not early else
           ("the loaded dataset is used before the ignore list is installed"
            if early else
            "Basin.ds can return the loaded dataset without installing the "
            "ignore list: cycles are not cut"),
           node=loads[0], label="install ignore list")
    bi = repo.func(FB, "Basin.__init__")
    st = [n for n in walk(bi) if isinstance(n, ast.Assign) and any(
        is_self_attr(t, "ignored_basins") for t in n.targets)]
    ok = bool(st) and all("ignored_basins" in names_in(n.value) for n in st)
    ctx.ob("R14.2", ok,
           "Basin keeps the ignored_basins it was given" if ok else
           "Basin.__init__ does not keep the ignored_basins argument",
           node=st[0] if st else bi, label="Basin stores ignored_basins")
    # (c') no dataset constructor evaluates the basins
    index = dataset_classes(repo)
    loaded = set()
    for rel, cls, fmt, typ in fold_basin_classes(repo):
        ld = method(cls, "_load_dataset")
        if ld is None:
            continue    # abstract: the class cannot be instantiated
        for c in [n for n in walk(ld) if isinstance(n, ast.Call)]:
            nm = (dotted(c.func) or "").split(".")[-1]
            if nm in index:
                loaded.add(nm)
    todo = set()
    for nm in loaded:
        todo |= set(chain_of(index, nm))
    for nm in sorted(todo):
        rel, cls = index[nm]
        init = method(cls, "__init__")
        if init is None:
            continue
        touch = []
        for n in walk(init):
            if is_self_attr(n) and n.attr in BASIN_TOUCHING:
                touch.append(n)
            elif isinstance(n, ast.Subscript) and is_name(n.value, "self") \
                    and isinstance(n.ctx, ast.Load):
                touch.append(n)
            elif isinstance(n, ast.Compare) and any(
                    isinstance(o, (ast.In, ast.NotIn)) and is_name(c, "self")
                    for o, c in zip(n.ops, n.comparators)):
                touch.append(n)
            elif isinstance(n, ast.Call) and (
                    (call_name(n) == "len" and len(n.args) == 1
                     and is_name(n.args[0], "self"))
                    or (is_self_attr(n.func) and n.func.attr in (
                        "_get_length", "__len__", "__iter__",
                        "__contains__", "__getitem__"))):
                # len(self) falls back to the basin features when the
                # event count is not in the metadata
                touch.append(n)
        ctx.ob("R14.2", not touch,
               f"{nm}.__init__ does not evaluate features or basins"
               if not touch else
               f"{nm}.__init__ evaluates `{short(touch[0], 40)}`: basins are "
               f"resolved before Basin.ds installs the ignore list",
               node=touch[0] if touch else init,
               key=f"{rel}::{nm}.__init__::constructor leaves basins alone")

    # (d) BasinProxy forwards ignore_basins to the wrapped dataset: decided
    # by interpreting __getattr__ for the attribute name
    bpc = repo.cls(FB, "BasinProxy")
    ga = method_mro(repo, FB, bpc, "__getattr__")
    if ga is None:
        raise AnalysisError("anchor vanished: BasinProxy.__getattr__")
    if len(ga.args.args) != 2:
        raise AnalysisError("BasinProxy.__getattr__: signature changed")
    item = ga.args.args[1].arg
    consts = {f"self.{k}": v for k, v in
              class_constants(repo, FB, bpc).items()}
    for st in repo.tree(FB).body:
        if isinstance(st, ast.Assign) and len(st.targets) == 1 \
                and isinstance(st.targets[0], ast.Name):
            try:
                consts[st.targets[0].id] = Mini({}).ev(st.value)
            except Unknown:
                pass
    for nm, nt in (("ignore_basins", True), ("basins", False)):
        try:
            kind, val = run_straight(ga, {item: nm}, consts)
        except Unknown as u:
            raise AnalysisError(f"BasinProxy.__getattr__: cannot interpret "
                                f"`{u}`")
        def wrapped_ds(e):
            """`self.ds`, also spelled getattr(self, <name folding to
            "ds">)"""
            if txt(e) == "self.ds":
                return True
            if isinstance(e, ast.Call) and call_name(e) == "getattr" \
                    and len(e.args) == 2 and is_name(e.args[0], "self"):
                try:
                    return Mini({**consts, item: nm}).ev(e.args[1]) == "ds"
                except Unknown:
                    return False
            return False
        ok = kind == "return" and isinstance(val, ast.Call) and call_name(
            val) == "getattr" and len(val.args) >= 2 and wrapped_ds(
            val.args[0]) and is_name(val.args[1], item)
        if kind == "return" and not ok and not (
                isinstance(val, ast.Call) and call_name(val) == "getattr"):
            raise AnalysisError("BasinProxy.__getattr__: forwarding idiom "
                                f"`{short(val, 50)}` not recognised")
        ctx.ob("R14.2", ok,
               f"BasinProxy forwards `{nm}` to the wrapped dataset"
               if ok else
               f"BasinProxy does not forward `{nm}`: the ignore list never "
               f"reaches the dataset of a mapped basin", node=ga,
               label=f"proxy forwards {nm}", nontrivial=nt)

    # (e) the ignore list only grows
    for rel, node, kind, value in self_attr_writes(repo, "_basins_ignored"):
        q = qualname(node)
        if rel == CORE and q == "RTDCBase.__init__" and kind == "assign":
            ok = isinstance(value, ast.List) and not value.elts
            msg = "starts empty"
        elif kind == "augassign" and isinstance(node.op, ast.Add):
            ok, msg = True, "extended in place"
        elif kind in ("mutate:append", "mutate:extend"):
            ok, msg = True, "extended in place"
        else:
            ok, msg = False, ""
        ctx.ob("R14.2", ok,
               f"_basins_ignored {msg}" if ok else
               f"`{short(node, 60)}` can shrink or replace the ignore list: "
               f"the termination argument (the list grows along every "
               f"resolution path) is lost", node=node,
               label=f"ignore list write [{kind}]")
    ib = repo.func(CORE, "RTDCBase.ignore_basins")
    grows = [n for n in walk(ib) if (isinstance(n, ast.AugAssign)
                                      and is_self_attr(n.target,
                                                       "_basins_ignored")
                                      and isinstance(n.op, ast.Add)
                                      and ib.args.args[1].arg in names_in(
                                          n.value))
             or (isinstance(n, ast.Call) and last_attr(n) == "extend"
                 and is_self_attr(n.func.value, "_basins_ignored")
                 and n.args and ib.args.args[1].arg in names_in(n.args[0]))]
    ctx.ob("R14.2", bool(grows),
           "ignore_basins adds the given identifiers" if grows else
           "ignore_basins no longer adds the given identifiers to "
           "_basins_ignored", node=grows[0] if grows else ib,
           label="ignore_basins extends")

    # (f) every basins_get_dicts attaches `key`
    for rel in files_mentioning(repo, ["def basins_get_dicts"]):
        for q, f in repo.all_functions(rel):
            if f.name != "basins_get_dicts":
                continue
            _check_get_dicts(ctx, repo, rel, q, f)


def _check_get_dicts(ctx, repo, rel, q, f):
    rets = [n for n in walk(f) if isinstance(n, ast.Return)]
    lab = "definitions carry key"
    if all(isinstance(r.value, ast.List) and not r.value.elts for r in rets):
        ctx.ob("R14.2", True, "no basins", node=f, label=lab,
               nontrivial=False)
        return
    if rel == DCORBASE:
        srv = any(last_attr(c) == "get" and "basins" in txt(c)
                  for c in find_calls(f, attr="get"))
        if not srv:
            raise AnalysisError(f"{rel}::{q}: unrecognised source of basin "
                                f"definitions")
        ctx.ob("R14.2", True, "definitions (with keys) are supplied by the "
               "DCOR server (assumption)", node=f, label=lab,
               nontrivial=False)
        return
    # the implementation and the helpers of the same class whose result it
    # returns (directly or through a local)
    cls_q = q.rsplit(".", 1)[0]
    funcs = [f]
    for c in [n for n in walk(f) if isinstance(n, ast.Call)]:
        fn = c.func
        if isinstance(fn, ast.Attribute) and isinstance(
                fn.value, ast.Name) and fn.value.id in (
                "self", "cls", cls_q.split(".")[-1]):
            h = repo.func(rel, cls_q + "." + fn.attr, missing_ok=True)
            if h is not None and h is not f and h not in funcs:
                funcs.append(h)
    appended = []
    for target in funcs:
        for lp in [n for n in walk(target) if isinstance(n, ast.For)]:
            if not isinstance(lp.target, ast.Name):
                continue
            for c in find_calls(lp, attr="append"):
                if c.args and isinstance(c.args[0], ast.Name):
                    d = c.args[0].id
                    keyed = [n for n in walk(lp) if isinstance(n, ast.Assign)
                             and is_key(n.targets[0], d, "key")
                             and is_name(n.value, lp.target.id)
                             and n.lineno < c.lineno]
                    appended.append((c, bool(keyed), target))
    if not appended:
        raise AnalysisError(f"{rel}::{q}: cannot see how the definitions are "
                            f"built")
    ok = all(k for _, k, _ in appended)
    ctx.ob("R14.2", ok,
           "every definition gets key = name of its HDF5 dataset" if ok else
           "a definition is returned without `key`: it can never be "
           "recognised as already visited", node=appended[0][2],
           key=f"{rel}::{q}::{lab}")
    # the key is a function of the definition only: a component taken from
    # the dataset that happens to read it (its path, identifier, ...) gives
    # the same definition another key on the next round of a cycle – unless
    # it is a location that is resolved to a canonical spelling first
    NORMALISERS = ("resolve", "realpath", "samefile")
    bad = []
    n_keys = 0
    for target in funcs:
        for n in walk(target):
            if not (isinstance(n, ast.Assign) and any(
                    isinstance(t, ast.Subscript) and const_str(
                        t.slice) == "key" for t in n.targets)):
                continue
            n_keys += 1
            vt = ast.parse(expand_locals(target, n.value),
                           mode="eval").body
            link(vt)
            for x in ast.walk(vt):
                if isinstance(x, ast.Attribute) and is_name(x.value, "self"):
                    norm = False
                    y = x
                    while getattr(y, "parent", None) is not None:
                        y = y.parent
                        if isinstance(y, ast.Call) and last_attr(
                                y) in NORMALISERS:
                            norm = True
                    if not norm:
                        bad.append((n, f"self.{x.attr}"))
    if n_keys == 0:
        if ok:
            raise AnalysisError(f"{rel}::{q}: key assignment not found")
        return      # already reported: the definitions carry no key
    ctx.ob("R14.2", not bad,
           "the key of a definition depends on the definition only (name of "
           "its HDF5 dataset)" if not bad else
           f"`{short(bad[0][0], 60)}` mixes `{bad[0][1]}` of the reading "
           f"dataset into the key without resolving it: the same definition "
           f"reached again through another spelling of the location (e.g. "
           f"../-relative paths joined by basins_retrieve) gets a new key, "
           f"so a cycle is never recognised and never cut",
           node=bad[0][0] if bad else appended[0][2],
           key=f"{rel}::{q}::key depends on the definition only")


# ----------------------------------------------------------------------
def r142_locks(ctx, repo):
    """termination: code running inside ``with self.<lock>:`` (a
    non-reentrant threading.Lock) must not reach a method that acquires the
    same lock – through method calls, property reads or the string
    conversion of ``self`` (f-string, str(), format, %)."""
    base = repo.cls(FB, "Basin")
    classes = [(FB, base)] + [(rel, cls) for rel, cls, _, _ in
                              fold_basin_classes(repo)]
    # kind of every lock attribute
    locks = {}
    for rel, cls in classes:
        for m in [st for st in cls.body if isinstance(st, ast.FunctionDef)]:
            for n in walk(m):
                if isinstance(n, ast.Assign) and isinstance(
                        n.value, ast.Call) and (dotted(n.value.func)
                                                or "").split(".")[-1] in (
                        "Lock", "RLock"):
                    for t in n.targets:
                        if is_self_attr(t):
                            locks[t.attr] = dotted(n.value.func).split(
                                ".")[-1]

    def members(cls):
        """name -> FunctionDef over the class and Basin (the MRO)"""
        out = {}
        for c in (base, cls):
            for st in c.body:
                if isinstance(st, ast.FunctionDef):
                    out[st.name] = st
        return out

    def regions(fn):
        """[(lock attribute, body statements)] of `with self.<lock>:`"""
        out = []
        for n in walk(fn):
            if isinstance(n, (ast.With, ast.AsyncWith)):
                for it in n.items:
                    if is_self_attr(it.context_expr) \
                            and it.context_expr.attr in locks:
                        out.append((it.context_expr.attr, n))
            elif isinstance(n, ast.Call) and last_attr(n) == "acquire" \
                    and isinstance(n.func, ast.Attribute) and is_self_attr(
                        n.func.value) and n.func.value.attr in locks:
                raise AnalysisError(
                    f"{fn.name}: explicit acquire() of "
                    f"self.{n.func.value.attr} (only `with` is analysed)")
        return out

    def edges(nodes, mem):
        """members of the class reached directly from the given AST nodes;
        -> {member name: how}"""
        out = {}

        def conv(how):
            for nm in ("__format__", "__str__", "__repr__"):
                if nm in mem:
                    out.setdefault(nm, how)
                    if nm != "__format__":
                        return
        for root in nodes:
            for n in walk(root):
                if is_self_attr(n) and isinstance(n.ctx, ast.Load) \
                        and n.attr in mem:
                    out.setdefault(n.attr, f"self.{n.attr}")
                elif isinstance(n, ast.FormattedValue) and is_name(
                        n.value, "self"):
                    conv("f-string of self")
                elif isinstance(n, ast.Call):
                    d = dotted(n.func) or ""
                    selfarg = [a for a in list(n.args) + [
                        k.value for k in n.keywords] if is_name(a, "self")]
                    if not selfarg:
                        continue
                    if d in ("str", "repr", "format", "print") or (
                            isinstance(n.func, ast.Attribute)
                            and n.func.attr == "format") or d in (
                            "warnings.warn", "logging.warning",
                            "logger.warning", "logger.info"):
                        conv(f"{d or n.func.attr}(self)")
                    elif d in ("super", "isinstance", "id", "hex", "type",
                               "weakref.ref"):
                        continue
                    else:
                        raise AnalysisError(
                            f"`{short(n, 50)}` passes self out of a locked "
                            f"region: cannot follow")
                elif isinstance(n, ast.BinOp) and isinstance(
                        n.op, ast.Mod) and any(is_name(x, "self")
                                               for x in ast.walk(n.right)):
                    conv("%-formatting of self")
        return out
    n_regions = 0
    for rel, cls in classes:
        mem = members(cls)
        acquirers = {}
        for nm, fn in mem.items():
            for lk, _ in regions(fn):
                acquirers.setdefault(lk, set()).add(nm)
        for st in cls.body:
            if not isinstance(st, ast.FunctionDef):
                continue
            for lk, w in regions(st):
                n_regions += 1
                path = None
                if locks[lk] != "RLock":
                    seen = {}
                    todo = [(k, [f"{how}"]) for k, how in edges(
                        w.body, mem).items()]
                    # a nested `with` on the same lock
                    for n in w.body:
                        for x in walk(n):
                            if isinstance(x, ast.With) and any(
                                    is_self_attr(i.context_expr, lk)
                                    for i in x.items):
                                path = ["nested with"]
                    while todo and path is None:
                        nm, trail = todo.pop(0)
                        if nm in seen:
                            continue
                        seen[nm] = trail
                        if nm in acquirers.get(lk, ()):
                            path = trail + [f"{nm} acquires self.{lk}"]
                            break
                        for k, how in edges(mem[nm].body, mem).items():
                            if k not in seen:
                                todo.append((k, trail + [
                                    f"{nm} -> {how}"]))
                ctx.ob("R14.2", path is None,
                       f"nothing inside `with self.{lk}` "
                       + ("(re-entrant lock)" if locks[lk] == "RLock" else
                          "reaches a method that takes the lock again")
                       if path is None else
                       f"inside `with self.{lk}` (non-reentrant "
                       f"threading.Lock) the code reaches "
                       f"{' ; '.join(path)}: the thread waits for the lock "
                       f"it holds – opening the dataset never terminates",
                       node=w, key=f"{rel}::{cls.name}.{st.name}::lock "
                       f"self.{lk} not re-entered")
    if n_regions == 0:
        raise AnalysisError("no locked region found in the basin classes")


# ----------------------------------------------------------------------
def r143(ctx, repo, sites):
    # private step methods are inlined; module-level functions are left to
    # the evaluator, which interprets them by definition
    vb = inline_module_helpers(repo, FB, repo.func(FB, "Basin.verify_basin"),
                               methods=True, keep=KEEP_CALLS,
                               functions=False)
    vb_names = {"verify_basin"} | set(getattr(vb, "inlined_names", ()))
    REF = "self.measurement_identifier"
    BAS = ("self.get_measurement_identifier()",
           "self.ds.get_measurement_identifier()")
    BUILTIN = {"str", "operator", "len", "bool", "self", "True", "False",
               "None"}

    def applicable(node, mapping):
        """may the statement run when self.mapping == mapping?"""
        for t, pol in enclosing_conditions(node, vb):
            if "mapping" not in txt(t):
                continue
            try:
                if bool(Mini({"self.mapping": mapping}).ev(t)) != pol:
                    return False
            except Unknown:
                pass
        return True

    def free_names(expr, env):
        bound = set()
        for x in ast.walk(expr):
            if isinstance(x, ast.Lambda):
                bound |= {a.arg for a in x.args.args}
        return sorted({x.id for x in ast.walk(expr)
                       if isinstance(x, ast.Name) and x.id not in BUILTIN
                       and x.id not in bound and x.id not in env})

    def outcomes(expr, env, mapping, depth=0):
        """all values `expr` can take (one per choice of the applicable
        definitions of the local names it uses)"""
        if depth > 4:
            raise Unknown("definitions nested too deeply")
        names = free_names(expr, env)
        if not names:
            return [Mini(env).ev(expr)]
        nm = names[0]
        defs = [n.value for n in walk(vb) if isinstance(n, ast.Assign)
                and len(n.targets) == 1 and is_name(n.targets[0], nm)
                and applicable(n, mapping)]
        if not defs:
            raise Unknown(f"{nm} (no definition)")
        out = []
        for d in defs:
            for val in outcomes(d, env, mapping, depth + 1):
                out += outcomes(expr, {**env, nm: val}, mapping, depth)
        return out
    flags = [n for n in walk(vb) if isinstance(n, ast.Assign) and any(
        is_self_attr(t, "_measurement_identifier_verified")
        for t in n.targets)]
    verdicts = [n for n in flags if not isinstance(n.value, ast.Constant)]
    if not verdicts:
        raise AnalysisError("verify_basin: identifier verdict lost")
    if not any(REF in txt(n.value) or any(
            x in txt(n.value) for x in BAS) or free_names(n.value, {})
            for n in verdicts):
        raise AnalysisError("verify_basin: the verdict does not depend on "
                            "the identifiers")
    params = {a.arg for a in vb.args.args[1:]}
    # state in which the identifier check is due: requested, basin
    # available, not verified yet
    DUE = dict(module_functions(repo, FB))
    DUE.update({p_: True for p_ in params})
    DUE.update({"self._measurement_identifier_verified": False,
                "self.is_available()": True})
    for nm in {t.id for n in walk(vb) if isinstance(n, ast.Assign)
               for t in n.targets if isinstance(t, ast.Name)
               and "is_available" in txt(n.value)}:
        DUE[nm] = True
    n_eval = 0
    for mapping, law, lawtxt in (
            ("same", lambda r, b: b is not None and r == b,
             "referrer == basin"),
            ("basinmap1", lambda r, b: b is not None and r.startswith(b),
             "referrer.startswith(basin)")):
        bad = []
        for ref, bas, what in ID_PAIRS:
            env = dict(DUE)
            env.update({"self.mapping": mapping, REF: ref})
            env.update({k: bas for k in BAS})
            got = []
            try:
                for n in flags:
                    runs = True
                    for t, pol in enclosing_conditions(n, vb):
                        vals = {bool(v) for v in outcomes(t, env, mapping)}
                        if len(vals) != 1:
                            raise Unknown(f"{txt(t)} (ambiguous)")
                        if vals != {pol}:
                            runs = False
                            break
                    if runs:
                        got += outcomes(n.value, env, mapping)
            except Raises as u:
                bad.append((what, ref, bas, f"makes verify_basin raise "
                            f"(`{u}`)"))
                continue
            except Unknown as u:
                raise AnalysisError(
                    f"verify_basin: identifier comparison cannot be "
                    f"evaluated for referrer {ref!r} / basin {bas!r} "
                    f"(`{u}`)")
            if not got:
                bad.append((what, ref, bas, "gets no verdict although the "
                            "check is due (requested, basin available, not "
                            "verified yet)"))
                continue
            for g in got:
                n_eval += 1
                acc = g is NotImplemented or bool(g)
                if acc != bool(law(ref, bas)):
                    bad.append((what, ref, bas,
                                ("is accepted" if acc else "is rejected")
                                + (" (the comparison returns NotImplemented, "
                                   "which is truthy)"
                                   if g is NotImplemented else "")))
        ctx.ob("R14.3", not bad,
               f"mapping {mapping!r}: the verdict equals `{lawtxt}` on "
               f"{len(ID_PAIRS)} identifier pairs (a basin without "
               f"identifier is rejected)" if not bad else
               f"mapping {mapping!r}: referrer {bad[0][1]!r} / basin "
               f"{bad[0][2]!r} ({bad[0][0]}) {bad[0][3]}, the law "
               f"`{lawtxt}` says "
               f"{'accept' if law(bad[0][1], bad[0][2]) else 'reject'} "
               f"({len(bad)} of {len(ID_PAIRS)} pairs differ)",
               node=verdicts[0], label=f"identifier law [{mapping}]")
    ctx.stat("R14.3 verifier evaluations", n_eval)
    # what verify_basin returns, decided by interpreting the function for
    # every identifier pair in the state in which the check is due
    def returned(mapping, ref, bas, **state):
        env = dict(DUE)
        env.update({"self.mapping": mapping, REF: ref})
        env.update({k: bas for k in BAS})
        env.update(state)
        try:
            kind, val = interpret(vb, env)
        except Raises:
            return None
        except Unknown as u:
            raise AnalysisError(f"verify_basin: cannot interpret `{u}`")
        if kind != "return":
            return False
        return val is NotImplemented or bool(val)
    bad = []
    for mapping, law in (("same", lambda r, b: b is not None and r == b),
                         ("basinmap1", lambda r, b: b is not None
                          and r.startswith(b))):
        for ref, bas, what in ID_PAIRS:
            got = returned(mapping, ref, bas)
            if got is not None and got != bool(law(ref, bas)):
                bad.append((mapping, ref, bas, got))
    rets = [n for n in walk(vb) if isinstance(n, ast.Return)]
    ctx.ob("R14.3", not bad,
           "verify_basin returns the identifier verdict of every identifier "
           "pair (basin available, check requested)" if not bad else
           f"verify_basin returns {bad[0][3]} for referrer {bad[0][1]!r} / "
           f"basin {bad[0][2]!r} (mapping {bad[0][0]!r}) although the "
           f"identifier law says {not bad[0][3]}: the verdict is not what is "
           f"returned ({len(bad)} of {2 * len(ID_PAIRS)} cases)",
           node=rets[0] if rets else vb, label="verdict returned")
    # the check is waived only on request, and availability is part of the
    # answer
    ref, bas = "2024-M7-ab12", "zz9"
    prm = [a.arg for a in vb.args.args[1:]]
    if "run_identifier" not in prm:
        raise AnalysisError("verify_basin: run_identifier parameter lost")
    probs = []
    for mapping in ("same", "basinmap1"):
        if returned(mapping, ref, bas) is not False:
            probs.append("an unrelated basin passes although the check was "
                         "requested")
        if returned(mapping, ref, ref, **{"self.is_available()": False,
                                          **{n_: False for n_ in DUE
                                             if n_.startswith("check_")}}) \
                is not False:
            probs.append("an unavailable basin passes")
    ctx.ob("R14.3", not probs,
           "the identifier verdict is waived only when run_identifier is "
           "off; an unavailable basin never passes" if not probs else
           f"verify_basin: {probs[0]}", node=rets[0] if rets else vb,
           label="verdict waived only on request")
    # the verified flag is only set by the comparison, or waived when the
    # referrer has no identifier
    for rel, node, kind, value in self_attr_writes(
            repo, "_measurement_identifier_verified"):
        if kind != "assign":
            ok = False
        elif isinstance(value, ast.Constant) and value.value is False:
            ok = True
        elif isinstance(value, ast.Constant):
            fn = node
            while not isinstance(fn, ast.FunctionDef):
                fn = fn.parent
            ok = any(pol and isinstance(t, ast.Compare) and txt(t) ==
                     "self.measurement_identifier is None"
                     for t, pol in enclosing_conditions(node, fn))
        else:
            fn_ = node
            while fn_ is not None and not isinstance(fn_, ast.FunctionDef):
                fn_ = getattr(fn_, "parent", None)
            ok = rel == FB and fn_ is not None and fn_.name in vb_names \
                and isinstance(getattr(fn_, "parent", None), ast.ClassDef) \
                and fn_.parent.name == "Basin"
        ctx.ob("R14.3", ok,
               "the verified flag is set by the comparison, cleared, or "
               "waived for a referrer without identifier" if ok else
               f"`{short(node, 60)}` marks the basin as verified without "
               f"comparing identifiers", node=node,
               label="verified flag " + short(node, 50))
    # get_feature_data asserts before touching data
    gfd = repo.func(FB, "Basin.get_feature_data")
    g = CFG(gfd)
    touches = [n for n in walk(gfd) if isinstance(n, ast.Subscript)
               and "self.ds" in txt(n.value)]
    if not touches:
        raise AnalysisError("Basin.get_feature_data: data access lost")

    def is_assert(n):
        return n.ast is not None and n.kind == "stmt" and bool(find_calls(
            n.ast, attr="_assert_measurement_identifier"))
    ok = all(g.always_before(i, is_assert) for t in touches
             for i in cfg_ids(g, t))
    ctx.ob("R14.3", ok,
           "get_feature_data asserts the measurement identifier before it "
           "touches the basin's data" if ok else
           "get_feature_data can deliver data without the identifier check",
           node=touches[0], label="assert before data")
    am = repo.func(FB, "Basin._assert_measurement_identifier")
    ok = False
    for n in walk(am):
        if isinstance(n, ast.If) and any(isinstance(x, ast.Raise)
                                         for x in n.body):
            t = n.test
            if isinstance(t, ast.UnaryOp) and isinstance(t.op, ast.Not) \
                    and isinstance(t.operand, ast.Call) and last_attr(
                    t.operand) == "verify_basin":
                ri = kwarg(t.operand, "run_identifier", 0)
                if ri is None:
                    d = dict(zip([a.arg for a in vb.args.args][::-1],
                                 vb.args.defaults[::-1]))
                    ri = d.get("run_identifier")
                ok = ri is not None and txt(ri) == "True"
    ctx.ob("R14.3", ok,
           "_assert_measurement_identifier raises unless verify_basin("
           "run_identifier=True) holds" if ok else
           "_assert_measurement_identifier no longer raises on a failed "
           "identifier check", node=am, label="assert raises")
    # file basins are admitted through verify_basin() only
    cfg = sites.cfg
    bound = {}
    for c in sites.calls:
        st = stmt_of(c)
        if isinstance(st, ast.Assign) and st.value is c and isinstance(
                st.targets[0], ast.Name):
            bound.setdefault(st.targets[0].id, []).append(c)
    n_file = 0
    for ap in find_calls(sites.func, attr="append"):
        if not (ap.args and isinstance(ap.args[0], ast.Name)
                and ap.args[0].id in bound):
            continue
        if sites.declared(ap) != {"file"}:
            continue
        n_file += 1
        x = ap.args[0].id
        before = [c for c in bound[x] if c.lineno <= ap.lineno]
        site = max(before or bound[x], key=lambda c: c.lineno)

        def fact(e, t, x=x):
            return t and isinstance(e, ast.Call) and last_attr(
                e) == "verify_basin" and is_name(e.func.value, x) and all(
                txt(k.value) == "True" for k in e.keywords) and not e.args
        ok = edge_guarded(cfg, cfg_ids(cfg, ap), fact_guard(fact))
        ctx.ob("R14.3", ok,
               f"file basin `{x}` is admitted only when {x}.verify_basin() "
               f"holds" if ok else
               f"file basin `{x}` is added without verify_basin(): a file "
               f"of another measurement at that path is used",
               node=ap, label="file basin verified " + sites.label(site))
    if n_file == 0:
        raise AnalysisError("basins_retrieve: no file-basin admission found")
    # overrides of the verification chain
    for rel, cls, fmt, typ in fold_basin_classes(repo):
        over = [m for m in CHAIN if method(cls, m) is not None
                or class_assign(cls, m) is not None]
        if typ == "internal":
            over = [m for m in over if m != "verify_basin"]
        ctx.ob("R14.3", not over,
               f"{cls.name} inherits the identifier verification"
               if not over else
               f"{cls.name} overrides {over}: the identifier verification of "
               f"Basin can be by-passed for {typ} basins", node=cls,
               key=f"{rel}::{cls.name}::verification chain not overridden")
    # what is compared is what was stored: the metadata converters of the
    # keys the measurement identifier is made of keep the string as it is
    gmi = repo.func(CORE, "RTDCBase.get_measurement_identifier")
    keys = set()
    for c in [n for n in walk(gmi) if isinstance(n, ast.Call)]:
        if last_attr(c) == "get" and c.args and isinstance(
                c.func.value, ast.Call) and last_attr(
                c.func.value) == "get" and c.func.value.args:
            sec, key = const_str(c.func.value.args[0]), const_str(c.args[0])
            if sec and key:
                keys.add((sec, key))
    for n in walk(gmi):
        if isinstance(n, ast.Subscript) and isinstance(
                n.value, ast.Subscript) and const_str(n.slice) and const_str(
                n.value.slice) and "config" in txt(n.value.value):
            keys.add((const_str(n.value.slice), const_str(n.slice)))
    if ("experiment", "run identifier") not in keys:
        raise AnalysisError("get_measurement_identifier: run identifier "
                            "lookup not recognised")
    META = "dclab/definitions/meta_const.py"
    table = repo.module_assign(META, "CFG_METADATA")
    if not isinstance(table, ast.Dict):
        raise AnalysisError("CFG_METADATA cannot be folded")
    conv = {}
    for k, v in zip(table.keys, table.values):
        if isinstance(v, (ast.List, ast.Tuple)):
            for item in v.elts:
                if isinstance(item, (ast.List, ast.Tuple)) and len(
                        item.elts) >= 2 and const_str(item.elts[0]):
                    conv[(const_str(k), const_str(item.elts[0]))] = \
                        item.elts[1]
    for sec, key in sorted(keys):
        if (sec, key) not in conv:
            raise AnalysisError(f"CFG_METADATA has no entry [{sec}] '{key}'")
        c_ = conv[(sec, key)]
        ok = is_name(c_, "str")
        ctx.ob("R14.3", ok,
               f"[{sec}] '{key}' is stored as the plain string" if ok else
               f"[{sec}] '{key}' passes the converter `{txt(c_)}` when a "
               f"file is read: identifiers are no longer compared as "
               f"written (e.g. case-insensitively) and a foreign "
               f"measurement can pass the identifier check",
               node=c_, key=f"{META}::CFG_METADATA::converter of [{sec}] "
               f"{key} keeps the identifier")
    # the writer applies the same law
    sb = inline_module_helpers(
        repo, WRITER, repo.func(WRITER, "RTDCWriter.store_basin"),
        methods=True, keep=("store_feature", "write_text", "write_ndarray"))
    cur = [n.targets[0].id for n in walk(sb) if isinstance(n, ast.Assign)
           and isinstance(n.targets[0], ast.Name)
           and "run identifier" in txt(n.value)]
    oth = [n.targets[0].id for n in walk(sb) if isinstance(n, ast.Assign)
           and isinstance(n.targets[0], ast.Name) and isinstance(
               n.value, ast.Call)
           and last_attr(n.value) == "get_measurement_identifier"]
    if len(cur) != 1 or len(oth) != 1:
        raise AnalysisError("store_basin: identifier bindings lost")
    cur, oth = cur[0], oth[0]
    tests = [n for n in walk(sb) if isinstance(n, ast.If)
             and {cur, oth} <= names_in(n.test)
             and any(isinstance(x, ast.Raise) for x in n.body)]
    if len(tests) != 1:
        raise AnalysisError("store_basin: identifier mismatch test lost")
    mapname = "basin_map"
    if mapname not in {a.arg for a in sb.args.args}:
        raise AnalysisError("store_basin: basin_map parameter lost")
    bad = []
    marker = object()
    n_cases = 0
    for ref, bas, rel_ in ID_PAIRS:
        if not ref:
            continue      # store_basin skips the check without identifier
        for mapped in (False, True):
            env = {cur: ref, oth: bas, mapname: marker if mapped else None}
            try:
                rejected = bool(Mini(env).ev(tests[0].test))
            except Raises:
                rejected = True     # an exception refuses the basin as well
            except Unknown as u:
                raise AnalysisError("cannot fold store_basin identifier "
                                    f"test (`{u}`)")
            want_ok = bas is not None and (
                ref == bas or (mapped and ref.startswith(bas)))
            n_cases += 1
            if rejected == want_ok:
                bad.append((rel_, ref, bas, "mapped" if mapped else "same",
                            "rejected" if rejected else "accepted"))
    ctx.ob("R14.3", not bad,
           "store_basin(verify=True) accepts equal identifiers, and a basin "
           "identifier that is a prefix of the referrer's for mapped basins "
           f"only ({n_cases} cases)" if not bad else
           f"store_basin(verify=True) disagrees with the identifier law: "
           f"{bad[0]} ({len(bad)} of {n_cases} cases)", node=tests[0],
           label="writer identifier law")
    kw = None
    for n in walk(sites.func):
        if isinstance(n, ast.Dict):
            for k, v in zip(n.keys, n.values):
                if const_str(k) == "measurement_identifier":
                    kw = v
    ok = kw is not None and isinstance(kw, ast.Call) and txt(kw) == \
        "self.get_measurement_identifier()"
    ctx.ob("R14.3", ok,
           "basins are created with the referrer's measurement identifier"
           if ok else
           "basins are created without the referrer's measurement "
           "identifier: the check is disabled", node=kw or sites.func,
           label="referrer identifier passed")


# ----------------------------------------------------------------------
def r144(ctx, repo):
    f = repo.func(CORE, "RTDCBase._get_basin_feature_data")
    lp, bn, base_iter, _keeps = basin_loop(f, "_get_basin_feature_data")
    tries = [n for n in walk(lp) if isinstance(n, ast.Try)]
    inside = set()
    for t in tries:
        for st in t.body:
            for x in ast.walk(st):
                inside.add(id(x))
    outside = [n for n in walk(lp) if isinstance(n, ast.Attribute)
               and is_name(n.value, bn) and id(n) not in inside
               and n.attr != "basin_type"
               and not any(id(n) in {id(y) for h in t.handlers
                                     for y in ast.walk(h)} for t in tries)]
    outside += [n for n in walk(lp) if isinstance(n, ast.Subscript)
                and is_name(n.value, bn) and id(n) not in inside]
    ctx.ob("R14.4", bool(tries) and not outside,
           "every access to the basin lies inside the try block"
           if tries and not outside else
           (f"`{short(outside[0].parent, 50)}` touches the basin outside the "
            f"try block: an unavailable basin raises instead of being skipped"
            if outside else "the try block around basin access is gone"),
           node=outside[0] if outside else lp, label="access inside try")
    if not tries:
        return
    handlers = [h for t in tries for h in t.handlers]
    catch_all = [h for h in handlers if h.type is None
                 or txt(h.type) == "BaseException"
                 or (isinstance(h.type, ast.Tuple) and any(
                     txt(x) == "BaseException" for x in h.type.elts))]
    ctx.ob("R14.4", bool(catch_all),
           "a catch-all handler (BaseException) covers every failure of a "
           "basin" if catch_all else
           "no catch-all handler: BasinNotAvailableError / "
           "OldFormatNotSupportedError derive from BaseException and other "
           "errors of remote access escape",
           node=catch_all[0] if catch_all else tries[0],
           label="catch-all handler")
    gets = find_calls(lp, attr="get_feature_data")
    in_try = all(id(c) in inside for c in gets)
    if not gets:
        raise AnalysisError("_get_basin_feature_data: get_feature_data lost")
    fin = [t for t in tries if t.finalbody and any(
        isinstance(x, (ast.Raise, ast.Return)) for s in t.finalbody
        for x in ast.walk(s))]
    rer = [x for h in handlers for s in h.body for x in walk(s)
           if isinstance(x, ast.Raise)]
    ctx.ob("R14.4", not rer and not fin and in_try,
           "no handler re-raises" if not rer and not fin and in_try else
           "a handler re-raises: an unreachable basin makes the feature "
           "access fail instead of falling through to the next source",
           node=rer[0] if rer else tries[0], label="no re-raise")
    # what the function can return: None, or what a basin delivered (inside
    # the try block) – directly or through a result variable
    rets = [n for n in walk(f) if isinstance(n, ast.Return)]
    results = []          # (expression, node)
    for r in rets:
        if isinstance(r.value, ast.Name):
            asg = [n for n in walk(f) if isinstance(n, ast.Assign)
                   and any(is_name(t, r.value.id) for t in n.targets)]
            if not asg:
                raise AnalysisError("_get_basin_feature_data: result "
                                    f"`{r.value.id}` never assigned")
            results += [(n.value, n) for n in asg]
        else:
            results.append((r.value, r))
    if not rets:
        raise AnalysisError("_get_basin_feature_data: return idiom lost")

    def is_none(e):
        return e is None or (isinstance(e, ast.Constant)
                             and e.value is None)

    def is_delivery(e, node):
        return isinstance(e, ast.Call) and last_attr(
            e) == "get_feature_data" and is_name(
            e.func.value, bn) and id(node) in inside
    others = [(e, n) for e, n in results if not is_none(e)]
    ok = bool(others) and all(is_delivery(e, n) for e, n in others)
    ctx.ob("R14.4", ok,
           "the result is None unless a basin delivered the feature" if ok
           else "the result can be something else than None or the data "
           "delivered by a basin (inside the try block)",
           node=([n for e, n in others if not is_delivery(e, n)]
                 or [n for _, n in results] or [f])[0],
           label="result None or basin data")
    # only features the basin lists are requested
    guarded = True
    for c in gets:
        ok_c = False
        for t, pol in enclosing_conditions(c, lp):
            if pol and isinstance(t, ast.Compare) and isinstance(
                    t.ops[0], ast.In) and txt(t.comparators[0]) == \
                    f"{bn}.features":
                ok_c = True
        guarded = guarded and ok_c
    ctx.ob("R14.4", guarded,
           "a basin is only asked for features it lists" if guarded else
           "get_feature_data is called for features the basin does not list "
           "(the feature list of the definition is not honoured)",
           node=gets[0], label="feature listed by basin")
    # iteration over a copy when the list is edited
    edits = [c for c in walk(lp) if isinstance(c, ast.Call) and last_attr(c)
             in ("remove", "pop", "clear") and isinstance(
                 c.func.value, ast.Attribute)
             and c.func.value.attr in ("_basins", "basins")]
    copy = isinstance(base_iter, ast.Call) and (call_name(base_iter) in (
        "list", "tuple", "copy.copy") or last_attr(base_iter) == "copy") \
        or isinstance(base_iter, ast.Subscript)
    ctx.ob("R14.4", copy or not edits,
           "the basin list is iterated over a copy while unavailable basins "
           "are removed" if edits else "the basin list is not edited",
           node=lp, label="iterate over copy", nontrivial=bool(edits))
    if not (copy or not edits):
        ctx.obs[-1].msg = ("unavailable basins are removed from the list "
                           "that is being iterated: the basin after a "
                           "removed one is skipped")
    # features_basin lists available basins only
    fbp = None
    for st in repo.cls(CORE, "RTDCBase").body:
        if isinstance(st, ast.FunctionDef) and st.name == "features_basin":
            fbp = st
    if fbp is None:
        raise AnalysisError("RTDCBase.features_basin lost")
    # the list that becomes self._basins_features
    stores = [n for n in walk(fbp) if isinstance(n, ast.Assign) and any(
        is_self_attr(t, "_basins_features") for t in n.targets)]
    lists = set()
    for n in stores:
        for x in ast.walk(n.value):
            if isinstance(x, ast.Name) and isinstance(single_assign_any(
                    fbp, x.id), ast.List):
                lists.add(x.id)
    if len(lists) != 1:
        raise AnalysisError("features_basin: collection idiom lost")
    L = list(lists)[0]
    adds = []
    for n in walk(fbp):
        if isinstance(n, ast.AugAssign) and is_name(n.target, L):
            adds.append((n, n.value))
        elif isinstance(n, ast.Expr) and isinstance(
                n.value, ast.Call) and isinstance(
                n.value.func, ast.Attribute) and is_name(
                n.value.func.value, L) and n.value.func.attr in (
                "extend", "append", "update", "insert") and n.value.args:
            adds.append((n, n.value.args[-1]))
        elif isinstance(n, ast.Assign) and is_name(
                n.targets[0], L) and not isinstance(n.value, ast.List):
            adds.append((n, n.value))
    if not adds:
        raise AnalysisError("features_basin: nothing is added to the list")
    loopvars = {n.target.id for n in walk(fbp) if isinstance(n, ast.For)
                and isinstance(n.target, ast.Name)
                and "basins" in txt(n.iter)}
    g = CFG(fbp)
    getter_safe = _features_getter_checks_availability(repo)
    for a, v in adds:
        vt = ast.parse(expand_locals(fbp, v), mode="eval").body
        owners = {x.value.id for x in ast.walk(vt) if isinstance(
            x, ast.Attribute) and x.attr == "features" and isinstance(
            x.value, ast.Name) and x.value.id in loopvars}
        if len(owners) != 1:
            raise AnalysisError(f"features_basin: cannot tell whose features "
                                f"`{short(a, 50)}` adds")
        owner = list(owners)[0]
        av_names = {n.targets[0].id for n in walk(fbp) if isinstance(
            n, ast.Assign) and len(n.targets) == 1 and isinstance(
            n.targets[0], ast.Name) and isinstance(n.value, ast.Call)
            and last_attr(n.value) == "is_available"
            and is_name(n.value.func.value, owner)
            and single_assign(fbp, n.targets[0].id) is not None}

        def fact(e, t, owner=owner, av_names=av_names):
            if isinstance(e, ast.Name) and e.id in av_names:
                return t
            return t and isinstance(e, ast.Call) and last_attr(
                e) == "is_available" and is_name(e.func.value, owner)
        ok = getter_safe or edge_guarded(g, g.ids_of(a), fact_guard(fact))
        ctx.ob("R14.4", ok,
               "features of a basin are listed only when it is available"
               if ok else
               "features of a basin are listed without the availability "
               "test (Basin.features returns the feature list of the "
               "definition also for an unreachable basin): features that "
               "cannot be read are offered", node=a,
               label="features of available basins")


#: what makes a helper of is_available a *probe* of the remote object (as
#: opposed to a pure predicate on the location string, which may be cached;
#: `is_s3_url` also asks whether the string names a local file – that is
#: classification of the string, not availability of the object)
IMPURE_PREFIX = ("socket.", "requests.", "boto3.", "botocore.",
                 "urllib.request.")
IMPURE_METHODS = {"connect", "get_session", "head_object", "urlopen", "load",
                  "head", "request"}
MEMO_DECORATORS = ("lru_cache", "cache", "cached_property", "memoize",
                   "memoized")
MUTATORS = {"add", "append", "extend", "update", "insert", "setdefault",
            "pop", "remove", "discard", "clear", "__setitem__"}


def _resolve_function(repo, rel, name):
    """(rel, FunctionDef) of a module-level function `name` visible in file
    `rel`: defined there or imported from a module of the package"""
    f = repo.lookup(rel, name, missing_ok=True)
    if isinstance(f, ast.FunctionDef) and isinstance(f.parent, ast.Module):
        return rel, f
    for st in repo.tree(rel).body:
        if isinstance(st, ast.ImportFrom) and any(
                (a.asname or a.name) == name for a in st.names):
            orig = [a.name for a in st.names
                    if (a.asname or a.name) == name][0]
            parts = rel.split("/")[:-1]
            if st.level:
                parts = parts[:len(parts) - (st.level - 1)]
            else:
                parts = []
            mod = parts + (st.module.split(".") if st.module else [])
            for cand in ("/".join(mod) + ".py",
                         "/".join(mod) + "/__init__.py"):
                if repo.exists(cand):
                    f2 = repo.lookup(cand, orig, missing_ok=True)
                    if isinstance(f2, ast.FunctionDef):
                        return cand, f2
    return None


def r144_probes(ctx, repo):
    """availability is probed on every call: the functions that touch the
    network / file system on behalf of is_available keep no shared memo of
    their results"""
    graph = {}       # (rel, name) -> (FunctionDef, callees)

    def visit(rel, fn):
        key = (rel, fn.name)
        if key in graph:
            return
        graph[key] = (fn, [])
        for c in [n for n in walk(fn) if isinstance(n, ast.Call)]:
            if isinstance(c.func, ast.Name):
                r = _resolve_function(repo, rel, c.func.id)
                if r is not None:
                    graph[key][1].append((r[0], r[1].name))
                    visit(*r)

    def directly_impure(fn):
        for c in [n for n in walk(fn) if isinstance(n, ast.Call)]:
            d = dotted(c.func) or ""
            if d.startswith(IMPURE_PREFIX) or d in ("open",):
                return True
            if isinstance(c.func, ast.Attribute) and c.func.attr in \
                    IMPURE_METHODS:
                return True
        return False
    methods = []
    for rel, cls, fmt, typ in fold_basin_classes(repo):
        m = method(cls, "is_available")
        if m is None:
            continue        # abstract: the class cannot be instantiated
        methods.append((rel, cls, m))
        # the probing may be delegated to a private method of the class:
        # judge the method with the delegate's body in place
        visit(rel, inline_module_helpers(repo, rel, m, methods=True,
                                         functions=False))
    impure = {k for k, (fn, _) in graph.items() if directly_impure(fn)}
    changed = True
    while changed:
        changed = False
        for k, (fn, callees) in graph.items():
            if k not in impure and any(c in impure for c in callees):
                impure.add(k)
                changed = True
    meth_keys = {(rel, m.name) for rel, cls, m in methods}

    def shared_writes(rel, fn, cls=None):
        """writes to module-level names (or class-level state) inside fn"""
        modnames = {t.id for st in repo.tree(rel).body
                    if isinstance(st, (ast.Assign, ast.AnnAssign))
                    for t in (st.targets if isinstance(st, ast.Assign)
                              else [st.target]) if isinstance(t, ast.Name)}
        clsnames = set()
        if cls is not None:
            for c in (cls, repo.cls(FB, "Basin")):
                clsnames |= {t.id for st in c.body
                             if isinstance(st, ast.Assign)
                             for t in st.targets if isinstance(t, ast.Name)}
        localn = {n.id for n in walk(fn) if isinstance(n, ast.Name)
                  and isinstance(n.ctx, ast.Store)}
        glob = {x for n in walk(fn) if isinstance(n, ast.Global)
                for x in n.names}
        out = []

        def shared(e):
            if isinstance(e, ast.Name):
                return (e.id in modnames and e.id not in localn) \
                    or e.id in glob
            if isinstance(e, ast.Attribute) and isinstance(
                    e.value, ast.Name):
                if e.value.id in ("cls",) or (
                        cls is not None and e.value.id == cls.name):
                    return True
                if e.value.id == "self" and e.attr in clsnames:
                    return True
            if isinstance(e, ast.Attribute) and txt(e.value) in (
                    "type(self)", "self.__class__"):
                return True
            return False
        for n in walk(fn):
            if isinstance(n, ast.Call) and isinstance(
                    n.func, ast.Attribute) and n.func.attr in MUTATORS \
                    and shared(n.func.value):
                out.append(n)
            elif isinstance(n, (ast.Assign, ast.AugAssign)):
                for t in (n.targets if isinstance(n, ast.Assign)
                          else [n.target]):
                    base = t.value if isinstance(t, ast.Subscript) else t
                    if isinstance(t, ast.Subscript) and shared(base):
                        out.append(n)
                    elif isinstance(t, ast.Name) and t.id in glob:
                        out.append(n)
                    elif isinstance(t, ast.Attribute) and shared(t) \
                            and not is_self_attr(t):
                        out.append(n)
        return out
    n_ob = 0
    for (rel, name), (fn, _) in sorted(graph.items(),
                                       key=lambda kv: kv[0]):
        is_meth = (rel, name) in meth_keys and isinstance(
            fn.parent, ast.ClassDef)
        if not is_meth and (rel, name) not in impure:
            continue        # pure helper (string predicates may be cached)
        cls = fn.parent if is_meth else None
        memo = [d for d in fn.decorator_list if any(
            m in txt(d) for m in MEMO_DECORATORS)]
        writes = shared_writes(rel, fn, cls)
        n_ob += 1
        q = f"{cls.name}.{name}" if cls is not None else name
        ok = not memo and not writes
        ctx.ob("R14.4", ok,
               f"{q} probes the basin on every call (no shared memo of "
               f"results)" if ok else
               (f"{q} is memoised by `@{txt(memo[0])}`" if memo else
                f"{q} records results in shared state "
                f"(`{short(writes[0], 50)}`)")
               + ": a basin that has become unreachable is still reported "
               "as available to datasets opened later, and its features are "
               "offered although they cannot be read",
               node=(memo or writes or [fn])[0],
               key=f"{rel}::{q}::availability probed on every call")
    if n_ob < len(methods):
        raise AnalysisError("availability probes not found")
    # the HTTP probe asks like the later data access does: a request that
    # follows redirects, so that the status of the final target is judged
    for (rel, name), (fn, _) in sorted(graph.items(),
                                       key=lambda kv: kv[0]):
        if (rel, name) not in impure or isinstance(fn.parent, ast.ClassDef):
            continue
        params = {a.arg for a in fn.args.args}
        for c in [n for n in walk(fn) if isinstance(n, ast.Call)]:
            if not (isinstance(c.func, ast.Attribute) and c.func.attr in (
                    "get", "head", "options", "post", "request")
                    and c.args and isinstance(c.args[-1 if c.func.attr ==
                                                     "request" else 0],
                                              ast.Name)
                    and c.args[-1 if c.func.attr == "request" else 0].id
                    in params
                    and any(k.arg == "timeout" for k in c.keywords)):
                continue
            ar = kwarg(c, "allow_redirects")
            if c.func.attr == "get":
                ok = ar is None or txt(ar) == "True"
            elif c.func.attr in ("head", "options"):
                ok = ar is not None and txt(ar) == "True"
            else:
                raise AnalysisError(f"{rel}::{name}: request "
                                    f"`{short(c, 50)}` not recognised")
            ctx.ob("R14.4", ok,
                   f"{name} probes with `{c.func.attr}` following redirects "
                   f"(as the data access does)" if ok else
                   f"`{short(c, 60)}` does not follow redirects: a basin URL "
                   f"that redirects to a dead target answers 3xx and is "
                   f"reported available, its features are offered although "
                   f"they cannot be read", node=c,
                   key=f"{rel}::{name}::probe request follows redirects")


TRANSIENT_REASONS = ("no connection", "oserror", "service unavailable",
                     "bad gateway", "gateway timeout", "too many requests",
                     "request timeout", "internal server error")
PERMANENT_REASONS = ("forbidden", "not found")


def r144_transient(ctx, repo):
    """a transient failure of the availability probe (no connection, 5xx,
    429 ...) must not mark an HTTP basin as unavailable for good: only the
    permanent reasons may set _available_verified = False"""
    HTTP = "dclab/rtdc_dataset/fmt_http.py"
    m_src = repo.func(HTTP, "HTTPBasin.is_available")
    # the decision may be delegated to a private method of the class
    m = inline_module_helpers(repo, HTTP, m_src, methods=True,
                              functions=False)
    probe = ifexp_to_if(repo.func("dclab/http_utils.py", "is_url_available"))
    produced = {const_str(n.value) for n in walk(probe)
                if isinstance(n, ast.Assign) and any(
                    is_name(t, "reason") for t in n.targets)
                and const_str(n.value)}
    if not {"no connection", "oserror"} <= produced or not any(
            isinstance(n, ast.Assign) and any(is_name(t, "reason")
                                              for t in n.targets)
            and "reason" in txt(n.value) and "lower" in txt(n.value)
            for n in walk(probe)):
        raise AnalysisError("is_url_available: reason strings not "
                            "recognised")
    names = None
    for n in walk(m):
        if isinstance(n, ast.Assign) and isinstance(
                n.targets[0], ast.Tuple) and len(
                n.targets[0].elts) == 2 and isinstance(
                n.value, ast.Call) and call_name(
                n.value) == "is_url_available" and all(
                isinstance(x, ast.Name) for x in n.targets[0].elts):
            names = [x.id for x in n.targets[0].elts]
    if names is None:
        # the result kept as one object: a tuple (indexed) or a named tuple
        # (fields folded from the return statement of the probe)
        for n in walk(m):
            if isinstance(n, ast.Assign) and len(
                    n.targets) == 1 and isinstance(
                    n.targets[0], ast.Name) and isinstance(
                    n.value, ast.Call) and call_name(
                    n.value) == "is_url_available":
                obj = n.targets[0].id
                for r_ in [x for x in walk(probe)
                           if isinstance(x, ast.Return)]:
                    v = r_.value
                    if isinstance(v, ast.Tuple) and len(v.elts) == 2 \
                            and is_name(v.elts[1], "reason"):
                        names = [f"{obj}[0]", f"{obj}[1]"]
                    elif isinstance(v, ast.Call) and v.keywords:
                        fr = [k.arg for k in v.keywords
                              if is_name(k.value, "reason")]
                        fa = [k.arg for k in v.keywords
                              if not is_name(k.value, "reason")]
                        if len(fr) == 1 and len(fa) == 1:
                            names = [f"{obj}.{fa[0]}", f"{obj}.{fr[0]}"]
    if names is None:
        raise AnalysisError("HTTPBasin.is_available: probe call with reason "
                            "not found")
    av, rs = names
    falses = [n for n in walk(m) if isinstance(n, ast.Assign) and any(
        is_self_attr(t, "_available_verified") for t in n.targets)
        and isinstance(n.value, ast.Constant) and n.value.value is False]
    bad, kept = [], []
    for r in TRANSIENT_REASONS + PERMANENT_REASONS:
        env = {av: False, rs: r, "REQUESTS_AVAILABLE": True,
               "self._available_verified": None}
        hit = False
        for n in falses:
            try:
                if all(bool(Mini(env).ev(t)) == pol
                       for t, pol in enclosing_conditions(n, m)):
                    hit = True
            except Unknown as u:
                raise AnalysisError("HTTPBasin.is_available: cannot "
                                    f"evaluate `{u}`")
        if r in TRANSIENT_REASONS and hit:
            bad.append(r)
        if r in PERMANENT_REASONS and hit:
            kept.append(r)
    ctx.ob("R14.4", not bad,
           f"transient probe failures leave the availability undecided "
           f"(permanent: {kept})" if not bad else
           f"the transient reason {bad[0]!r} sets _available_verified = "
           f"False for good ({len(bad)} transient reasons): after a "
           f"temporary server or network problem the features of the "
           f"remote basin stay unavailable for the life of the dataset",
           node=(falses if m is m_src else [m_src])[0] if (
               falses or m is not m_src) else m_src,
           key=f"{HTTP}::HTTPBasin.is_available::transient failures are "
           f"re-checked")


# ----------------------------------------------------------------------
# the availability verdict is evaluated on the table of probe outcomes
class _ProbeFailed(Exception):
    """the probe (or the method itself) raises on this row"""


class _Row(tuple, Model):
    """value of a probe that returns a (named) pair"""

    def __new__(cls, vals, **kw):
        return tuple.__new__(cls, vals)

    def __init__(self, vals, **kw):
        self.__dict__.update(kw)


_RAISES = "<raises>"
PATH_PROBES = {"exists", "is_file", "is_dir"}


def _http_failure_phrases():
    import http
    return tuple(sorted({s.phrase.lower() for s in http.HTTPStatus
                         if s.value >= 400}))


def _function_is_impure(repo, rel, fn, seen=None):
    """`fn` (module-level function of file `rel`) touches the network / file
    system itself or through the module-level functions it calls"""
    seen = set() if seen is None else seen
    if (rel, fn.name) in seen:
        return False
    seen.add((rel, fn.name))
    for c in [n for n in walk(fn) if isinstance(n, ast.Call)]:
        d = dotted(c.func) or ""
        if d.startswith(IMPURE_PREFIX) or d == "open":
            return True
        if isinstance(c.func, ast.Attribute) and c.func.attr in \
                IMPURE_METHODS:
            return True
        if isinstance(c.func, ast.Name):
            r = _resolve_function(repo, rel, c.func.id)
            if r is not None and _function_is_impure(repo, r[0], r[1], seen):
                return True
    return False


def _probe_rows(what, fd, call):
    """the values the probe function `fd` can hand to `call`, each with the
    answer "the object is available": -> [(value, available)]"""
    fd = ifexp_to_if(fd)
    a = fd.args
    params = [x.arg for x in a.args]
    env = {}
    for prm, d in zip(a.args[len(a.args) - len(a.defaults):], a.defaults):
        if isinstance(d, ast.Constant):
            env[prm.arg] = d.value
    for i, arg in enumerate(call.args):
        if isinstance(arg, ast.Starred) or i >= len(params):
            raise AnalysisError(f"{what}: probe call `{short(call, 50)}` "
                                f"not understood")
        env.pop(params[i], None)
        if isinstance(arg, ast.Constant):
            env[params[i]] = arg.value
    for k in call.keywords:
        if k.arg is None:
            raise AnalysisError(f"{what}: probe call `{short(call, 50)}` "
                                f"not understood")
        env.pop(k.arg, None)
        if isinstance(k.value, ast.Constant):
            env[k.arg] = k.value.value
    rets = []
    for r in [n for n in walk(fd) if isinstance(n, ast.Return)]:
        try:
            live = all(bool(Mini(env).ev(t)) == pol
                       for t, pol in enclosing_conditions(r, fd))
        except Unknown:
            live = True
        if live:
            rets.append(r)
    if not rets or any(r.value is None for r in rets):
        raise AnalysisError(f"{what}: results of {fd.name} not recognised")

    def fields(v):
        """[(field name or None, value expr)] of a returned pair, or None"""
        if isinstance(v, ast.Tuple) and len(v.elts) == 2:
            return [(None, x) for x in v.elts]
        if isinstance(v, ast.Call) and len(v.keywords) == 2 and not v.args \
                and all(k.arg for k in v.keywords):
            return [(k.arg, k.value) for k in v.keywords]
        return None
    shapes = [fields(r.value) for r in rets]
    if all(s is None for s in shapes):
        if any(isinstance(r.value, (ast.Tuple, ast.Call, ast.Dict, ast.List,
                                    ast.IfExp)) for r in rets):
            raise AnalysisError(f"{what}: results of {fd.name} not "
                                f"recognised")
        return [(True, True), (False, False)]
    if any(s is None for s in shapes) or len(
            {tuple((f, txt(x)) for f, x in s) for s in shapes}) != 1:
        raise AnalysisError(f"{what}: {fd.name} returns pairs of different "
                            f"shape")
    shape = shapes[0]
    if not all(isinstance(x, ast.Name) for _, x in shape):
        raise AnalysisError(f"{what}: {fd.name}: returned pair not made of "
                            f"locals")

    def values(name):
        return [n.value for n in walk(fd) if isinstance(n, ast.Assign)
                and any(is_name(t, name) for t in n.targets)]
    kinds = []
    for _, x in shape:
        consts = [v.value for v in values(x.id)
                  if isinstance(v, ast.Constant)]
        if consts and all(isinstance(c, bool) for c in consts):
            kinds.append("avail")
        elif consts and all(isinstance(c, str) for c in consts):
            kinds.append("reason")
        else:
            kinds.append("?")
    if sorted(kinds) != ["avail", "reason"]:
        raise AnalysisError(f"{what}: {fd.name}: cannot tell the answer "
                            f"from the reason in the returned pair")
    an = shape[kinds.index("avail")][1].id
    rn = shape[kinds.index("reason")][1].id

    def initial(name):
        for st in fd.body:
            if isinstance(st, ast.Assign) and any(
                    is_name(t, name) for t in st.targets) and isinstance(
                    st.value, ast.Constant):
                return st.value.value
            if any(isinstance(n, ast.Name) and n.id == name
                   for n in ast.walk(st)):
                break
        raise AnalysisError(f"{what}: {fd.name}: initial value of `{name}` "
                            f"not found")
    if initial(an) is not False:
        raise AnalysisError(f"{what}: {fd.name}: `{an}` does not start as "
                            f"False")
    r0 = initial(rn)
    reasons = []
    for v in values(rn):
        if isinstance(v, ast.Constant):
            reasons.append(v.value)
        elif ".reason" in txt(v) and ".lower()" in txt(v):
            # the reason phrase of the HTTP response, lower-cased
            reasons.extend(_http_failure_phrases())
        else:
            raise AnalysisError(f"{what}: {fd.name}: reason "
                                f"`{short(v, 40)}` not recognised")
    rows = []
    for ok, rs in [(True, r0)] + [(False, r) for r in dict.fromkeys(reasons)
                                 if r != r0]:
        vals = [ok if k == "avail" else rs for k in kinds]
        names = {f: v for (f, _), v in zip(shape, vals) if f}
        rows.append((_Row(vals, **names), ok))
    return rows


def _availability_oracles(repo, rel, m, what):
    """the calls of an is_available method whose result the analysis does
    not compute: -> (probes {call text: rows}, predicates [call text],
    objects [call text])"""
    probes, preds, objs = {}, [], []

    def local_object(name):
        v = single_assign(m, name)
        return isinstance(v, ast.Call) and classify(v, dry=True) == "object"

    def classify(c, dry=False):
        f = c.func
        if isinstance(f, ast.Name):
            if f.id in ("bool",):
                return "transparent"
            r = _resolve_function(repo, rel, f.id)
            if r is not None:
                if _function_is_impure(repo, r[0], r[1]):
                    if not dry:
                        probes[txt(c)] = _probe_rows(what, r[1], c)
                    return "probe"
                if not dry:
                    preds.append(txt(c))
                return "predicate"
            if f.id[:1].isupper() and f.id not in ("Path",) and (
                    isinstance(repo.lookup(rel, f.id, missing_ok=True),
                               ast.ClassDef)
                    or any(isinstance(st, ast.ImportFrom) and any(
                        (al.asname or al.name) == f.id for al in st.names)
                        for st in repo.tree(rel).body)):
                if not dry:
                    objs.append(txt(c))
                return "object"
        if isinstance(f, ast.Attribute):
            if f.attr in PATH_PROBES and isinstance(
                    f.value, ast.Call) and dotted(f.value.func) in (
                    "pathlib.Path", "Path"):
                if not dry:
                    probes[txt(c)] = [(True, True), (False, False),
                                      (_RAISES, False)]
                return "probe"
            if isinstance(f.value, ast.Name) and local_object(f.value.id):
                # a request sent through a freshly made API object
                if not dry:
                    probes[txt(c)] = [(True, True), (False, False),
                                      (_RAISES, False)]
                return "probe"
        return None

    def visit(node):
        for ch in ast.iter_child_nodes(node):
            if isinstance(ch, (ast.FunctionDef, ast.AsyncFunctionDef,
                               ast.Lambda, ast.ClassDef)):
                continue
            if isinstance(ch, ast.Call):
                st = stmt_of(ch)
                if isinstance(st, ast.Expr) or (isinstance(
                        st, (ast.With, ast.AsyncWith)) and any(
                        ch is x or ch in list(ast.walk(x.context_expr))
                        for x in st.items)):
                    continue      # not part of the decision
                k = classify(ch)
                if k is None:
                    raise AnalysisError(f"{what}: call `{short(ch, 50)}` "
                                        f"not understood")
                if k != "transparent":
                    continue
            visit(ch)
    for st in m.body:
        if isinstance(st, ast.Expr):
            continue
        visit(st)
    return probes, preds, objs


def _run_availability(m, env, raising, hidx):
    """the value `m` returns in state `env` (normalised text -> value);
    the calls whose text is in `raising` raise; `hidx` selects the handler
    that takes the exception: -> value | _RAISES"""
    env = dict(env)

    def ev(expr):
        if raising and any(isinstance(n, ast.Call) and txt(n) in raising
                           for n in ast.walk(expr)):
            raise _ProbeFailed()
        return Mini(env).ev(expr)

    def assign(t, v):
        if isinstance(t, (ast.Name, ast.Attribute)):
            env[txt(t)] = v
        elif isinstance(t, (ast.Tuple, ast.List)) and isinstance(
                v, tuple) and len(v) == len(t.elts):
            for x, y in zip(t.elts, v):
                assign(x, y)
        else:
            raise Unknown(txt(t))

    def block(stmts):
        for st in stmts:
            r = None
            if isinstance(st, ast.If):
                r = block(st.body if ev(st.test) else st.orelse)
            elif isinstance(st, ast.With):
                if any(i.optional_vars is not None for i in st.items):
                    raise Unknown(txt(st)[:50])
                r = block(st.body)
            elif isinstance(st, ast.Try):
                try:
                    try:
                        r = block(st.body)
                    except _ProbeFailed:
                        if not st.handlers:
                            raise
                        h = st.handlers[min(hidx, len(st.handlers) - 1)]
                        if h.name:
                            env[h.name] = Model()
                        r = block(h.body)
                    else:
                        if r is None:
                            r = block(st.orelse)
                finally:
                    if st.finalbody:
                        r2 = block(st.finalbody)
                        r = r2 if r2 is not None else r
            elif isinstance(st, ast.Return):
                return ("return", None if st.value is None
                        else ev(st.value))
            elif isinstance(st, ast.Raise):
                raise _ProbeFailed()
            elif isinstance(st, ast.Assign):
                v = ev(st.value)
                for t in st.targets:
                    assign(t, v)
            elif isinstance(st, ast.AnnAssign) and st.value is not None:
                assign(st.target, ev(st.value))
            elif isinstance(st, (ast.Expr, ast.Pass, ast.AnnAssign)):
                continue
            else:
                raise Unknown(txt(st)[:60])
            if r is not None:
                return r
        return None
    try:
        r = block(m.body)
    except _ProbeFailed:
        return _RAISES
    return None if r is None else r[1]


def r144_verdict(ctx, repo):
    """a basin is reported available only when its probe said so: the
    is_available method of every file / remote basin class is evaluated on
    the table of results its probe can deliver (for is_url_available the
    (answer, reason) pairs read from its code), for both values of the
    library flags and of the pure URL predicates, starting from the state
    __init__ leaves; a truthy verdict needs an affirmative probe result"""
    import itertools
    done = 0
    for rel, cls, fmt, typ in fold_basin_classes(repo):
        if typ not in ("remote", "file"):
            continue
        m0 = method(cls, "is_available")
        if m0 is None:
            raise AnalysisError(f"{rel}::{cls.name}: is_available not "
                                f"defined in the class")
        what = f"{cls.name}.is_available"
        m = inline_module_helpers(repo, rel, m0, methods=True,
                                  functions=False)
        probes, preds, objs = _availability_oracles(repo, rel, m, what)
        if len(probes) != 1:
            raise AnalysisError(f"{what}: {len(probes)} probes of the "
                                f"basin location found (expected one)")
        # state the constructor leaves
        state = {}
        attrs = {txt(t) for n in walk(m) if isinstance(n, ast.Assign)
                 for t in n.targets if is_self_attr(t)}
        inits = [i for i in (method_mro(repo, rel, cls, "__init__"),
                             repo.func(FB, "Basin.__init__")) if i]
        for at in sorted(attrs):
            vals = [n.value for i in inits for n in walk(i)
                    if isinstance(n, ast.Assign) and any(
                        txt(t) == at for t in n.targets)]
            if len(vals) != 1 or not isinstance(vals[0], ast.Constant):
                raise AnalysisError(f"{what}: initial value of `{at}` not "
                                    f"found")
            state[at] = vals[0].value
        # module-level flags the decision reads
        local = {n.id for n in walk(m) if isinstance(n, ast.Name)
                 and isinstance(n.ctx, ast.Store)} | {
            h.name for h in walk(m) if isinstance(h, ast.ExceptHandler)
            and h.name}
        oracle_txt = set(probes) | set(preds) | set(objs)

        def free_names(node, out):
            for ch in ast.iter_child_nodes(node):
                if isinstance(ch, ast.Call) and txt(ch) in oracle_txt:
                    continue
                if isinstance(ch, ast.ExceptHandler):
                    for s in ch.body:
                        if not isinstance(s, ast.Expr):
                            free_names(ast.Module(body=[s],
                                                  type_ignores=[]), out)
                    continue
                if isinstance(ch, ast.Expr) or (isinstance(
                        ch, ast.withitem)):
                    continue
                if isinstance(ch, ast.Name) and isinstance(
                        ch.ctx, ast.Load) and ch.id not in local \
                        and ch.id not in ("self", "bool", "True", "False",
                                          "None"):
                    out.add(ch.id)
                free_names(ch, out)
        flags = set()
        for st in m.body:
            if not isinstance(st, ast.Expr):
                free_names(ast.Module(body=[st], type_ignores=[]), flags)
        if any(not re.fullmatch(r"[A-Z][A-Z0-9_]*", f) for f in flags):
            raise AnalysisError(f"{what}: free names {sorted(flags)} not "
                                f"understood")
        (ptxt, rows), = probes.items()
        n_handlers = max([len(t.handlers) for t in walk(m)
                          if isinstance(t, ast.Try)] + [1])
        dims = sorted(flags) + sorted(set(preds))
        bad, n_rows, positive = [], 0, 0
        for combo in itertools.product((True, False), repeat=len(dims)):
            for value, avail in rows:
                for hidx in range(n_handlers if value == _RAISES else 1):
                    env = dict(state)
                    env.update(dict(zip(dims, combo)))
                    env.update({o: Model() for o in objs})
                    raising = set()
                    if value == _RAISES:
                        raising.add(ptxt)
                    else:
                        env[ptxt] = value
                    try:
                        verdict = _run_availability(m, env, raising, hidx)
                    except Raises:
                        verdict = _RAISES
                    except Unknown as u:
                        raise AnalysisError(f"{what}: cannot evaluate "
                                            f"`{u}`")
                    n_rows += 1
                    truthy = verdict != _RAISES and bool(verdict)
                    positive += truthy
                    if truthy and not avail:
                        shown = "an exception" if value == _RAISES else \
                            repr(tuple(value) if isinstance(value, tuple)
                                 else value)
                        bad.append((shown, dict(zip(dims, combo)), verdict))
        if not positive:
            ctx.note(f"{what}: no row of the probe table makes the basin "
                     f"available")
        ctx.stat(f"R14.4 availability table rows {cls.name}", n_rows)
        ok = not bad
        probe_node = [n for n in walk(m0) if isinstance(n, ast.Call)
                      and txt(n) == ptxt]
        ctx.ob("R14.4", ok,
               f"{what} answers true only for an affirmative result of "
               f"`{short(ast.parse(ptxt, mode='eval').body, 40)}` "
               f"({n_rows} rows)" if ok else
               f"{what} returns {bad[0][2]!r} although the probe "
               f"`{short(ast.parse(ptxt, mode='eval').body, 40)}` delivered "
               f"{bad[0][0]}"
               + (f" with {bad[0][1]}" if bad[0][1] else "")
               + f" ({len(bad)} of {n_rows} rows): an unreachable basin is "
               f"cached as available, its features are offered "
               f"(features_basin, `feat in ds`) and reading them ends in "
               f"KeyError instead of the features being unavailable",
               node=(probe_node or [m0])[0],
               key=f"{rel}::{what}::available only on an affirmative probe "
               f"result")
        done += 1
    if done < 4:
        raise AnalysisError(f"availability verdicts: only {done} file / "
                            f"remote basin classes evaluated (4 known: "
                            f"hdf5, http, s3, dcor)")


def single_assign_any(func, name):
    """value of the first plain assignment to `name` (or None)"""
    for n in walk(func):
        if isinstance(n, ast.Assign) and len(n.targets) == 1 and is_name(
                n.targets[0], name):
            return n.value
    return None


def _features_getter_checks_availability(repo):
    """Basin.features returns something else than an empty list only after
    self.is_available() held"""
    fp = None
    for st in repo.cls(FB, "Basin").body:
        if isinstance(st, ast.FunctionDef) and st.name == "features":
            fp = st
    if fp is None:
        raise AnalysisError("Basin.features lost")
    g = CFG(fp)

    def fact(e, t):
        return t and isinstance(e, ast.Call) and last_attr(
            e) == "is_available" and is_self_attr(e.func)
    rets = [r for r in walk(fp) if isinstance(r, ast.Return)
            and not (isinstance(r.value, ast.List) and not r.value.elts)]
    return bool(rets) and all(edge_guarded(g, g.ids_of(r), fact_guard(fact))
                              for r in rets)


# ----------------------------------------------------------------------
def run(ctx):
    repo = ctx.repo
    ctx.rule("R14.1", "isolation: basin class table, every instantiation "
             "guarded against file-type classes when local basins are off, "
             "writers of _local_basins_allowed / format, network classes",
             minimum=19)
    ctx.rule("R14.2", "cycle cut: ignore test dominates instantiation, own + "
             "inherited keys handed down and installed before use, list only "
             "grows, definitions carry keys that depend on the definition only; "
             "locks not re-entered", minimum=31)
    ctx.rule("R14.3", "identifier law: equality / referrer.startswith(basin), "
             "asserted before data, file basins verified, chain not "
             "overridden, writer agrees, identifier converters", minimum=22)
    ctx.rule("R14.4", "degradation: basin access inside try, catch-all, no "
             "re-raise, None unless delivered, copy iteration, available "
             "basins only, availability probed on every call with the semantics "
             "of the data access; transient failures re-checked; verdict "
             "true only on an affirmative probe result (table of probe "
             "results, 4 classes)", minimum=20)
    sites = Sites(expand_partials(inline_module_helpers(
        repo, CORE, repo.func(CORE, "RTDCBase.basins_retrieve"),
        methods=True, keep=KEEP_CALLS)))
    r141(ctx, repo, sites)
    r141_writers(ctx, repo)
    r142(ctx, repo, sites)
    r142_locks(ctx, repo)
    r143(ctx, repo, sites)
    r144(ctx, repo)
    r144_probes(ctx, repo)
    r144_transient(ctx, repo)
    r144_verdict(ctx, repo)


def crossval(ctx):
    """thorough: the folded basin class table against the imported package
    (validates the analyser's model, decides nothing)"""
    import json
    import subprocess
    if ctx.repo.overlay:
        return {"status": "skipped", "reason": "overlay in use"}
    code = (
        "import json, dclab\n"
        "from dclab.rtdc_dataset import feat_basin as fb\n"
        "print(json.dumps({k: [v.__name__, v.basin_type] for k, v in "
        "fb.get_basin_classes().items()}))\n")
    try:
        r = subprocess.run(["/venv/bin/python", "-c", code],
                           capture_output=True, text=True, timeout=120,
                           cwd="/tmp")
        real = json.loads(r.stdout.strip().splitlines()[-1])
    except Exception as e:
        return {"status": "skipped", "reason": str(e)[:200]}
    mine = {k: list(v) for k, v in ctx.stats["basin class table"].items()}
    if mine != real:
        raise AnalysisError("folded basin class table disagrees with the "
                            f"imported package: {mine} != {real}")
    return {"status": "agrees", "classes": len(real)}


HTTPF = "dclab/rtdc_dataset/fmt_http.py"
H5BASIN = "dclab/rtdc_dataset/fmt_hdf5/basin.py"
S3F = "dclab/rtdc_dataset/fmt_s3.py"

_CYCLE = ('            if "key" in bdict and bdict["key"] in self._basins_ignored:\n'
          '                warnings.warn(\n'
          "                    f\"Encountered cyclic basin dependency '{bdict['key']}'\",\n"
          '                    feat_basin.CyclicBasinDependencyFoundWarning)\n'
          '                continue\n')
_LOCAL = ('                if not self._local_basins_allowed:\n'
          "                    warnings.warn(f\"Basin type 'file' not allowed for format \"\n"
          "                                  f\"'{self.format}'\")\n"
          '                    # stop processing this basin\n'
          '                    continue\n')
_VERIFIER = ('                    if self.mapping == "same":\n'
             '                        # When we have identical mapping, then the measurement\n'
             '                        # identifier has to match exactly.\n'
             '                        verifier = str.__eq__\n'
             '                    else:\n'
             '                        # When we have non-identical mapping (e.g. exported\n'
             '                        # data), then the measurement identifier has to\n'
             '                        # partially match.\n'
             '                        verifier = str.startswith\n')

MUTANTS = [
    # ---- R14.1
    ("file branch: local-basin test removed", CORE, (_LOCAL, ""), "R14.1"),
    ("file branch: local-basin test inverted", CORE,
     ("                if not self._local_basins_allowed:\n",
      "                if self._local_basins_allowed:\n"), "R14.1"),
    ("RTDC_HDF5 enables local basins for every subclass", H5BASE,
     ('self._local_basins_allowed = True if self.format == "hdf5" else False',
      "self._local_basins_allowed = True"), "R14.1"),
    ("RTDC_HDF5 guard excludes dcor only", H5BASE,
     ('True if self.format == "hdf5" else False',
      'True if self.format != "dcor" else False'), "R14.1"),
    ("RTDC_HTTP switches local basins on", HTTPF,
     ("        # Override self.path with the actual HTTP URL\n"
      "        self.path = url\n",
      "        # Override self.path with the actual HTTP URL\n"
      "        self.path = url\n"
      "        self._local_basins_allowed = True\n"), "R14.1"),
    ("RTDC_S3 switches local basins on via setattr", S3F,
     ("        # Override self.path with the actual S3 URL\n",
      "        setattr(self, \"_local_basins_allowed\", True)\n"
      "        # Override self.path with the actual S3 URL\n"), "R14.1"),
    ("base class default on", CORE,
     ("        self._local_basins_allowed = False\n",
      "        self._local_basins_allowed = True\n"), "R14.1"),
    ("new network class named *_HDF5", HTTPF,
     ("class HTTPBasin(Basin):",
      "class RTDC_Cached_HDF5(RTDC_HTTP):\n"
      "    \"\"\"HTTP access with a persistent cache\"\"\"\n\n\n"
      "class HTTPBasin(Basin):"), "R14.1"),
    ("second class registers format http as file type", HTTPF,
     ("class HTTPBasin(Basin):",
      "class HTTPMirrorBasin(Basin):\n    basin_format = \"http\"\n"
      "    basin_type = \"file\"\n\n\nclass HTTPBasin(Basin):"), "R14.1"),
    ("basin type not a constant", S3F,
     ("    basin_format = \"s3\"\n    basin_type = \"remote\"\n",
      "    basin_format = \"s3\"\n    basin_type = S3_BASIN_TYPE\n"), "R14.1"),
    # ---- R14.2
    ("cycle test removed", CORE, (_CYCLE, ""), "R14.2"),
    ("cycle test only warns", CORE,
     ("                    feat_basin.CyclicBasinDependencyFoundWarning)\n"
      "                continue\n",
      "                    feat_basin.CyclicBasinDependencyFoundWarning)\n"),
     "R14.2"),
    ("inherited ignore list dropped", CORE,
     ("        bd_keys += self._basins_ignored\n", ""), "R14.2"),
    ("own keys dropped", CORE,
     ('        bd_keys = [bd["key"] for bd in bdicts_srt if "key" in bd]\n',
      "        bd_keys = []\n"), "R14.2"),
    ("ignored_basins not handed to the basin", CORE,
     ('                # allow to ignore basins\n'
      '                "ignored_basins": bd_keys,\n', ""), "R14.2"),
    ("Basin.ds does not install the ignore list", FB,
     ("            self._ds.ignore_basins(self.ignored_basins)\n", ""),
     "R14.2"),
    ("Basin.ds installs an empty list", FB,
     ("self._ds.ignore_basins(self.ignored_basins)",
      "self._ds.ignore_basins([])"), "R14.2"),
    ("Basin forgets ignored_basins", FB,
     ("        self.ignored_basins = ignored_basins or []\n",
      "        self.ignored_basins = []\n"), "R14.2"),
    ("BasinProxy does not forward ignore_basins", FB,
     ('            "ignore_basins",\n', ""), "R14.2"),
    ("ignore_basins replaces the list", CORE,
     ("        self._basins_ignored += basin_identifiers\n",
      "        self._basins_ignored = basin_identifiers\n"), "R14.2"),
    ("basin key qualified with the reader's path (seeded C14_7)", H5BASE,
     ("        return self.basin_get_dicts_from_h5file(self.h5file)\n",
      "        basins = self.basin_get_dicts_from_h5file(self.h5file)\n"
      "        for bdict in basins:\n"
      "            bdict[\"key\"] = f\"{self.path}::{bdict['key']}\"\n"
      "        return basins\n"), "R14.2"),
    ("basin key qualified with the random dataset identifier", H5BASE,
     ("        return self.basin_get_dicts_from_h5file(self.h5file)\n",
      "        basins = self.basin_get_dicts_from_h5file(self.h5file)\n"
      "        prefix = self.identifier\n"
      "        for bdict in basins:\n"
      "            bdict[\"key\"] = prefix + \"-\" + bdict[\"key\"]\n"
      "        return basins\n"), "R14.2"),
    ("HDF5 definitions without key", H5BASE,
     ('            bdict["key"] = bk\n', ""), "R14.2"),
    ("RTDC_HDF5.__init__ fills the event count from len(self) "
     "(seeded C14_16)", H5BASE,
     ('        self.title = "{} - M{}".format(',
      '        if "event count" not in self.config["experiment"]:\n'
      '            try:\n'
      '                self.config["experiment"]["event count"] = len(self)\n'
      '            except ValueError:\n'
      '                self._length = None\n'
      '        self.title = "{} - M{}".format('), "R14.2"),
    ("RTDC_HDF5.__init__ evaluates features", H5BASE,
     ('        self.title = "{} - M{}".format(',
      '        if "trace" in self and not len(self["trace"]):\n'
      '            warnings.warn("empty trace")\n'
      '        self.title = "{} - M{}".format('), "R14.2"),
    ("warning formats self inside the availability lock (seeded C14_6)",
     H5BASIN,
     [("import pathlib\n", "import pathlib\nimport warnings\n"),
      ("                except OSError:\n                    pass\n",
       "                except OSError as exc:\n"
       "                    warnings.warn(f\"Could not check availability of \"\n"
       "                                  f\"{self}: {exc}\")\n")], "R14.2"),
    ("str(self) logged inside the availability lock", HTTPF,
     ("                if not REQUESTS_AVAILABLE:\n"
      "                    # don't even bother\n"
      "                    self._available_verified = False\n",
      "                if not REQUESTS_AVAILABLE:\n"
      "                    # don't even bother\n"
      "                    print(\"requests missing for \" + str(self))\n"
      "                    self._available_verified = False\n"), "R14.2"),
    ("features consulted inside the availability lock", S3F,
     ("                if not BOTO3_AVAILABLE:\n"
      "                    self._available_verified = False\n",
      "                if not BOTO3_AVAILABLE or not self.features:\n"
      "                    self._available_verified = False\n"), "R14.2"),
    # ---- R14.3
    ("startswith arguments swapped", FB,
     ("                            self.measurement_identifier,\n"
      "                            basin_identifier\n",
      "                            basin_identifier,\n"
      "                            self.measurement_identifier\n"), "R14.3"),
    ("guard for a basin without identifier removed (F14b returns)", FB,
     ("                    if basin_identifier is None:\n",
      "                    if False:\n"), "R14.3"),
    ("basin without identifier counts as verified", FB,
     ("                        # and `str.startswith(..., None)` raises "
      "TypeError).\n"
      "                        self._measurement_identifier_verified = False\n",
      "                        # and `str.startswith(..., None)` raises "
      "TypeError).\n"
      "                        self._measurement_identifier_verified = True\n"),
     "R14.3"),
    ("mapped basins need equal identifiers", FB,
     ("                        verifier = str.startswith\n",
      "                        verifier = str.__eq__\n"), "R14.3"),
    ("mapped basins accept the basin id anywhere in the referrer's", FB,
     ("                        verifier = str.startswith\n",
      "                        verifier = str.__contains__\n"), "R14.3"),
    ("mapped basins accept a suffix", FB,
     ("                        verifier = str.startswith\n",
      "                        verifier = str.endswith\n"), "R14.3"),
    ("mapped verifier lambda with swapped roles", FB,
     ("                        verifier = str.startswith\n",
      "                        verifier = lambda a, b: b.startswith(a)\n"),
     "R14.3"),
    ("mapped verifier compares the wrong slice", FB,
     ("                        verifier = str.startswith\n",
      "                        verifier = lambda a, b: a[-len(b):] == b\n"),
     "R14.3"),
    ("unmapped verifier ignores case", FB,
     ("                        verifier = str.__eq__\n",
      "                        verifier = lambda a, b: a.lower() == b.lower()\n"),
     "R14.3"),
    ("equality arguments both the referrer", FB,
     ("                            self.measurement_identifier,\n"
      "                            basin_identifier\n",
      "                            self.measurement_identifier,\n"
      "                            self.measurement_identifier\n"), "R14.3"),
    ("writer: basin id accepted anywhere in the referrer's", WRITER,
     ("and cur_id.startswith(ds_id))):", "and ds_id in cur_id)):"),
     "R14.3"),
    ("run identifier lower-cased when read (seeded C14_15)",
     "dclab/definitions/meta_const.py",
     ('        ["run identifier", str, "Unique measurement identifier"],',
      '        ["run identifier", lcstr, "Unique measurement identifier"],'),
     "R14.3"),
    ("setup identifier lower-cased when read",
     "dclab/definitions/meta_const.py",
     ('        ["identifier", str, "Unique setup identifier"],',
      '        ["identifier", lcstr, "Unique setup identifier"],'), "R14.3"),
    ("unmapped basins accept prefixes", FB,
     ("                        verifier = str.__eq__\n",
      "                        verifier = str.startswith\n"), "R14.3"),
    ("identifier check only for unavailable basins", FB,
     ("        if run_identifier and check_avail:\n",
      "        if run_identifier and not check_avail:\n"), "R14.3"),
    ("identifier check waived when requested", FB,
     ("        if run_identifier and check_avail:\n",
      "        if not run_identifier and check_avail:\n"), "R14.3"),
    ("verdict not returned", FB,
     ("        return check_rid and check_avail\n",
      "        return check_avail\n"), "R14.3"),
    ("get_feature_data skips the assertion", FB,
     ("        self._assert_measurement_identifier()\n"
      "        return self.ds[feat]\n", "        return self.ds[feat]\n"),
     "R14.3"),
    ("assertion without identifier check", FB,
     ("if not self.verify_basin(run_identifier=True):",
      "if not self.verify_basin(run_identifier=False):"), "R14.3"),
    ("file basin admitted on availability only", CORE,
     ("                    if bna.verify_basin():\n",
      "                    if bna.is_available():\n"), "R14.3"),
    ("relative file basin not verified", CORE,
     ("                        if bnr.verify_basin():\n",
      "                        if True:\n"), "R14.3"),
    ("HTTPBasin overrides verify_basin", HTTPF,
     ("    def _load_dataset(self, location, **kwargs):\n"
      "        h5file = RTDC_HTTP(location, **kwargs)\n",
      "    def verify_basin(self, *args, **kwargs):\n"
      "        return self.is_available()\n\n"
      "    def _load_dataset(self, location, **kwargs):\n"
      "        h5file = RTDC_HTTP(location, **kwargs)\n"), "R14.3"),
    ("basins start verified", FB,
     ("        self.measurement_identifier = measurement_identifier\n"
      "        self._measurement_identifier_verified = False\n",
      "        self.measurement_identifier = measurement_identifier\n"
      "        self._measurement_identifier_verified = True\n"), "R14.3"),
    ("writer: prefix test swapped", WRITER,
     ("and cur_id.startswith(ds_id))):", "and ds_id.startswith(cur_id))):"),
     "R14.3"),
    ("writer: prefix accepted for unmapped basins", WRITER,
     ("                                or (basin_map is not None\n"
      "                                    and cur_id.startswith(ds_id))):",
      "                                or cur_id.startswith(ds_id)):"),
     "R14.3"),
    ("referrer identifier not passed", CORE,
     ('"measurement_identifier": self.get_measurement_identifier(),',
      '"measurement_identifier": None,'), "R14.3"),
    # ---- R14.4
    ("available URLs remembered in a module-level set (seeded C14_11)",
     "dclab/http_utils.py",
     [("    avail = False\n    reason = \"none\"\n    if is_http_url(url):\n",
       "    avail = False\n    reason = \"none\"\n"
       "    if url in _available_urls:\n        avail = True\n"
       "    elif is_http_url(url):\n"),
      ("    if ret_reason:\n        return avail, reason\n",
       "    if avail:\n        _available_urls.add(url)\n"
       "    if ret_reason:\n        return avail, reason\n"),
      ("session_cache = ResoluteRequestsSessionCache()\n",
       "session_cache = ResoluteRequestsSessionCache()\n\n"
       "_available_urls = set()\n")], "R14.4"),
    ("S3 availability probe memoised with lru_cache", S3F,
     ("def is_s3_object_available(url: str,",
      "@functools.lru_cache(maxsize=1000)\n"
      "def is_s3_object_available(url: str,"), "R14.4"),
    ("file basin availability remembered per class", H5BASIN,
     [("    basin_type = \"file\"\n",
       "    basin_type = \"file\"\n    _known_paths = {}\n"),
      ("                    self._available_verified = \\\n"
       "                        pathlib.Path(self.location).exists()\n",
       "                    self._available_verified = \\\n"
       "                        pathlib.Path(self.location).exists()\n"
       "                    self._known_paths[str(self.location)] = \\\n"
       "                        self._available_verified\n")], "R14.4"),
    ("availability probe with HEAD, redirects not followed "
     "(seeded C14_13)", "dclab/http_utils.py",
     ("req = ses.get(url, stream=True, timeout=1)",
      "req = ses.head(url, timeout=1)"), "R14.4"),
    ("availability probe refuses redirects", "dclab/http_utils.py",
     ("req = ses.get(url, stream=True, timeout=1)",
      "req = ses.get(url, stream=True, timeout=1, allow_redirects=False)"),
     "R14.4"),
    ("every HTTP error marks the basin unavailable for good "
     "(seeded C19_17)", HTTPF,
     ("                    if reason in [\"forbidden\", \"not found\"]:\n"
      "                        # we cannot access the URL in the near future\n"
      "                        self._available_verified = False\n"
      "                    elif avail:\n"
      "                        self._available_verified = True\n",
      "                    if avail:\n"
      "                        self._available_verified = True\n"
      "                    elif reason not in [\"no connection\", "
      "\"oserror\"]:\n"
      "                        self._available_verified = False\n"), "R14.4"),
    ("any failed probe marks the basin unavailable for good", HTTPF,
     ("                    if reason in [\"forbidden\", \"not found\"]:\n",
      "                    if not avail:\n"), "R14.4"),
    ("catch-all handler removed", CORE,
     ("                except BaseException:\n"
      "                    warnings.warn(f\"Could not access {feat} in {self}:\\n\"\n"
      "                                  f\"{traceback.format_exc()}\")\n"
      "                    pass\n", ""), "R14.4"),
    ("catch-all narrowed to Exception", CORE,
     ("                except BaseException:\n",
      "                except Exception:\n"), "R14.4"),
    ("handler re-raises", CORE,
     ("                except (KeyError, OSError, PermissionError):\n"
      "                    # Basin data not available\n"
      "                    pass\n",
      "                except (KeyError, OSError, PermissionError):\n"
      "                    # Basin data not available\n"
      "                    raise\n"), "R14.4"),
    ("feature test outside try", CORE,
     ("                try:\n                    # There are all kinds",
      "                if feat not in bn.features:\n"
      "                    continue\n"
      "                try:\n                    # There are all kinds"),
     "R14.4"),
    ("list edited while iterated", CORE,
     ("            for bn in list(self.basins):\n",
      "            for bn in self.basins:\n"), "R14.4"),
    ("placeholder data for unavailable basin", CORE,
     ("                    self._basins.remove(bn)\n",
      "                    self._basins.remove(bn)\n"
      "                    data = np.full(len(self), np.nan)\n"), "R14.4"),
    ("availability guard merged away (seeded C14_5)", CORE,
     [("                    if bn.features and set(bn.features) <= set(features):\n",
       "                    bn_features = bn.features\n"
       "                    if bn_features and set(bn_features) <= set(features):\n"),
      ("                    if bn.is_available():\n"
       "                        features += bn.features\n",
       "                    features += bn_features\n")], "R14.4"),
    ("availability test of the wrong polarity", CORE,
     ("                    if bn.is_available():\n"
      "                        features += bn.features\n",
      "                    if not bn.is_available():\n"
      "                        features += bn.features\n"), "R14.4"),
    ("features of unavailable basins listed", CORE,
     ("                    if bn.is_available():\n"
      "                        features += bn.features\n",
      "                    if True:\n"
      "                        features += bn.features\n"), "R14.4"),
    ("feature list of the basin ignored", CORE,
     ("                    if feat in bn.features:\n",
      "                    if True:\n"), "R14.4"),
]

def _twin_entry_locals(src):
    """b_format / b_type locals instead of repeated dictionary look-ups"""
    src = src.replace('bdict["type"]', "b_type")
    return src.replace(
        '            b_cls = bc[bdict["format"]]\n',
        '            b_format = bdict["format"]\n'
        '            b_cls = bc[b_format]\n'
        '            b_type = bdict["type"]\n', 1)


def _twin_waiver_first(src):
    for old, rep in (
            ("        if availability:\n"
             "            check_avail = self.is_available()\n"
             "        else:\n"
             "            check_avail = True\n",
             "        check_avail = self.is_available() if availability "
             "else True\n"),
            ("        if run_identifier and check_avail:\n",
             "        if not (run_identifier and check_avail):\n"
             "            check_rid = True\n"
             "        else:\n"),
            ("            check_rid = self._measurement_identifier_verified\n"
             "        else:\n"
             "            check_rid = True\n",
             "            check_rid = self._measurement_identifier_verified\n")):
        if src.count(old) != 1:
            return src      # stale: reported by the self-test
        src = src.replace(old, rep)
    return src


def _twin_append_verified(src):
    """instantiate / verify / append moved into a static helper"""
    src = src.replace(
        "                    bna = b_cls(pp, **kwargs)\n"
        "                    if bna.verify_basin():\n"
        "                        basins.append(bna)\n"
        "                        break\n",
        "                    if self._basin_append_verified(basins, b_cls, pp, "
        "kwargs):\n"
        "                        break\n", 1)
    src = src.replace(
        "                        bnr = b_cls(this_path.parent / pp, **kwargs)\n"
        "                        if bnr.verify_basin():\n"
        "                            basins.append(bnr)\n"
        "                            break\n",
        "                        if self._basin_append_verified(\n"
        "                                basins, b_cls, this_path.parent / pp, "
        "kwargs):\n"
        "                            break\n", 1)
    return src.replace(
        "    def get_measurement_identifier(self):\n",
        "    @staticmethod\n"
        "    def _basin_append_verified(basins, b_cls, location, kwargs):\n"
        "        bn = b_cls(location, **kwargs)\n"
        "        if bn.verify_basin():\n"
        "            basins.append(bn)\n"
        "            return True\n"
        "        return False\n\n"
        "    def get_measurement_identifier(self):\n", 1)


_TWIN_CANDIDATES = (
    "            for bn in list(self.basins):\n"
    "                if basin_type is not None and basin_type != bn.basin_type:\n"
    "                    # User asked for specific basin type\n"
    "                    continue\n",
    "            candidates = (\n"
    "                bn for bn in list(self.basins)\n"
    "                if basin_type is None or basin_type == bn.basin_type)\n"
    "            for bn in candidates:\n")


def _twin_match_function(src):
    """verifier selection, None rejection and comparison in a module-level
    pure function with an early return"""
    a = src.index('                    if self.mapping == "same":\n'
                  '                        # When we have identical mapping')
    b = src.index("            check_rid = self._measurement_identifier_verified\n")
    src = src[:a] + (
        "                    self._measurement_identifier_verified = \\\n"
        "                        _measurement_identifiers_match(\n"
        "                            mapping=self.mapping,\n"
        "                            referrer_identifier=self.measurement_identifier,\n"
        "                            basin_identifier=self.get_measurement_identifier()\n"
        "                        )\n") + src[b:]
    return src.replace(
        "class BasinProxy:\n",
        "def _measurement_identifiers_match(mapping, referrer_identifier,\n"
        "                                   basin_identifier):\n"
        "    if mapping == \"same\":\n"
        "        verifier = str.__eq__\n"
        "    else:\n"
        "        verifier = str.startswith\n"
        "    if basin_identifier is None:\n"
        "        return False\n"
        "    return verifier(referrer_identifier, basin_identifier)\n\n\n"
        "class BasinProxy:\n", 1)



def _twin_direct_return(src):
    """result accumulator + break replaced by a direct return in the try"""
    for old, rep in (
            ("        data = None\n        if self.basins:\n",
             "        if self.basins:\n"),
            ("                        data = bn.get_feature_data(feat)\n"
             "                        # The data are available, we may abort "
             "the search.\n"
             "                        break\n",
             "                        return bn.get_feature_data(feat)\n"),
            ("                                  f\"{traceback.format_exc()}\")\n"
             "                    pass\n"
             "        return data\n",
             "                                  f\"{traceback.format_exc()}\")\n"
             "        return None\n")):
        if src.count(old) != 1:
            return src
        src = src.replace(old, rep)
    return src


def _twin_partial(src):
    """the four instantiations through one functools.partial"""
    if src.count("b_cls(") < 4 or "import functools" in src:
        return src
    src = src.replace("import abc\n", "import abc\nimport functools\n", 1)
    src = src.replace(
        "            # Check whether this basin is supported and exists\n",
        "            new_basin = functools.partial(b_cls, **kwargs)\n\n"
        "            # Check whether this basin is supported and exists\n", 1)
    for loc in ('bdict["paths"][0]', "pp", "this_path.parent / pp", "url"):
        src = src.replace(f"b_cls({loc}, **kwargs)", f"new_basin({loc})")
    return src


def _twin_verify_guard_clauses(src):
    """verify_basin with guard clauses and early returns instead of a result
    variable"""
    a = src.index("        if run_identifier and check_avail:\n")
    b = src.index("        return check_rid and check_avail\n")
    tail = "        return check_rid and check_avail\n"
    return src[:a] + (
        "        if not (run_identifier and check_avail):\n"
        "            return check_avail\n"
        "        if self._measurement_identifier_verified:\n"
        "            return self._measurement_identifier_verified "
        "and check_avail\n"
        "        if self.measurement_identifier is None:\n"
        "            self._measurement_identifier_verified = True\n"
        "            return self._measurement_identifier_verified "
        "and check_avail\n"
        "        if self.mapping == \"same\":\n"
        "            verifier = str.__eq__\n"
        "        else:\n"
        "            verifier = str.startswith\n"
        "        basin_identifier = self.get_measurement_identifier()\n"
        "        if basin_identifier is None:\n"
        "            self._measurement_identifier_verified = False\n"
        "        else:\n"
        "            self._measurement_identifier_verified = verifier(\n"
        "                self.measurement_identifier,\n"
        "                basin_identifier\n"
        "            )\n"
        "        return self._measurement_identifier_verified "
        "and check_avail\n") + src[b + len(tail):]


def _twin_verify_split(src):
    """verify_basin split into two private step methods"""
    a = src.index("        if availability:\n"
                  "            check_avail = self.is_available()\n")
    b = src.index("        if run_identifier and check_avail:\n")
    c = src.index("            check_rid = self._measurement_identifier_verified\n")
    d = src.index("        return check_rid and check_avail\n")
    tail = "        return check_rid and check_avail\n"
    avail = src[a:b]
    inner = src[b:c].split("\n", 1)[1]         # body of the outer if
    inner = "".join(ln[4:] if ln.strip() else ln
                    for ln in inner.splitlines(True))
    return (src[:a]
            + "        check_avail = self._verify_availability(availability)\n"
            + "        if run_identifier and check_avail:\n"
            + "            check_rid = self._verify_run_identifier()\n"
            + "        else:\n            check_rid = True\n"
            + tail + "\n"
            + "    def _verify_availability(self, availability=True):\n"
            + avail.rstrip("\n") + "\n        return check_avail\n\n"
            + "    def _verify_run_identifier(self):\n" + inner.rstrip("\n")
            + "\n        return self._measurement_identifier_verified\n"
            + src[d + len(tail):])


def _twin_forward_constant(src):
    """forwarding list as module constant, early raise"""
    a = src.index("    def __getattr__(self, item):\n        if item in [\n"
                  "            \"basins\",\n")
    b = src.index("    def __getitem__(self, feat):\n"
                  "        if feat not in self._features:")
    src = src[:a] + (
        "    def __getattr__(self, item):\n"
        "        if item not in BASIN_PROXY_DS_ATTRIBUTES:\n"
        "            raise AttributeError(\n"
        "                f\"BasinProxy does not implement {item}\")\n"
        "        return getattr(self.ds, item)\n\n") + src[b:]
    return src.replace(
        "class BasinProxy:\n",
        "BASIN_PROXY_DS_ATTRIBUTES = (\n"
        "    \"basins\", \"close\", \"features\", \"features_ancillary\",\n"
        "    \"features_basin\", \"features_innate\", \"features_loaded\",\n"
        "    \"features_local\", \"features_scalar\",\n"
        "    \"get_measurement_identifier\", \"ignore_basins\",\n"
        ")\n\n\nclass BasinProxy:\n", 1)


def _twin_key_loop(src):
    """explicit loop + extend instead of comprehension + `+=`, renamed"""
    src = src.replace(
        '        bd_keys = [bd["key"] for bd in bdicts_srt if "key" in bd]\n'
        '        bd_keys += self._basins_ignored\n',
        '        bd_keys = []\n'
        '        for bd in bdicts_srt:\n'
        '            if "key" in bd:\n'
        '                bd_keys.append(bd["key"])\n'
        '        bd_keys.extend(self._basins_ignored)\n')
    return src.replace("bd_keys", "seen_keys")


TWINS = [
    ("verify_basin: waiver first, conditional expression for availability",
     FB, _twin_waiver_first),
    ("Basin.ds with guard clause and a local for the ignore list", FB,
     ("        if self._ds is None:\n"
      "            if not self.is_available():\n"
      "                raise BasinNotAvailableError(f\"Basin {self} is not available!\")\n"
      "            self._ds = self.load_dataset(self.location, **self.kwargs)\n"
      "            self._ds.ignore_basins(self.ignored_basins)\n"
      "        return self._ds\n",
      "        if self._ds is not None:\n"
      "            return self._ds\n"
      "        if not self.is_available():\n"
      "            raise BasinNotAvailableError(f\"Basin {self} is not available!\")\n"
      "        self._ds = self.load_dataset(self.location, **self.kwargs)\n"
      "        seen_basin_keys = self.ignored_basins\n"
      "        self._ds.ignore_basins(seen_basin_keys)\n"
      "        return self._ds\n")),
    ("ignore keys collected by a loop and extend()", CORE, _twin_key_loop),
    ("verify_basin split into two step methods", FB, _twin_verify_split),
    ("availability probe with HEAD that follows redirects",
     "dclab/http_utils.py",
     ("req = ses.get(url, stream=True, timeout=1)",
      "req = ses.head(url, timeout=1, allow_redirects=True)")),
    ("verify_basin as guard clauses with early returns", FB,
     _twin_verify_guard_clauses),
    ("URL probe counts its calls in a local", "dclab/http_utils.py",
     ("    avail = False\n    reason = \"none\"\n    if is_http_url(url):\n",
      "    avail = False\n    reason = \"none\"\n    attempts = []\n"
      "    attempts.append(url)\n    if is_http_url(url):\n")),
    ("basins instantiated through functools.partial", CORE, _twin_partial),
    ("format table built by a dict comprehension", FB,
     ("    bc = {}\n"
      "    for b_cls in Basin.__subclasses__():\n"
      "        if hasattr(b_cls, \"basin_format\"):\n"
      "            bc[b_cls.basin_format] = b_cls\n"
      "    return bc\n",
      "    return {\n"
      "        b_cls.basin_format: b_cls\n"
      "        for b_cls in Basin.__subclasses__()\n"
      "        if hasattr(b_cls, \"basin_format\")\n"
      "    }\n")),
    ("format derived through locals", CORE,
     ('        self.format = self.__class__.__name__.split("_")[-1].lower()\n',
      '        class_name = self.__class__.__name__\n'
      '        format_suffix = class_name.split("_")[-1]\n'
      '        self.format = format_suffix.lower()\n')),
    ("basin data returned directly from the loop", CORE,
     _twin_direct_return),
    ("definitions returned through a local", H5BASE,
     ("        return self.basin_get_dicts_from_h5file(self.h5file)\n",
      "        definitions = self.basin_get_dicts_from_h5file(self.h5file)\n"
      "        return definitions\n")),
    ("file basins appended by a static helper with early return", CORE,
     _twin_append_verified),
    ("basin loop over a filtering generator expression", CORE,
     _TWIN_CANDIDATES),
    ("identifier comparison in a module-level function", FB,
     _twin_match_function),
    ("proxy forwarding list as module constant, early raise", FB,
     _twin_forward_constant),
    ("writer identifier test rewritten with De Morgan", WRITER,
     ("                        if not (ds_id == cur_id\n"
      "                                or (basin_map is not None\n"
      "                                    and cur_id.startswith(ds_id))):\n",
      "                        if ds_id != cur_id and (\n"
      "                                basin_map is None\n"
      "                                or not cur_id.startswith(ds_id)):\n")),
    ("locals for the format and type of the definition", CORE,
     _twin_entry_locals),
    ("local rename of the definition variable", CORE,
     lambda s: s.replace("bdict", "bdef")),
    ("cycle test as nested ifs", CORE,
     ('            if "key" in bdict and bdict["key"] in self._basins_ignored:\n'
      '                warnings.warn(\n'
      "                    f\"Encountered cyclic basin dependency '{bdict['key']}'\",\n"
      '                    feat_basin.CyclicBasinDependencyFoundWarning)\n'
      '                continue\n',
      '            if "key" in bdict:\n'
      '                if bdict["key"] in self._basins_ignored:\n'
      '                    warnings.warn(\n'
      "                        f\"Encountered cyclic basin dependency '{bdict['key']}'\",\n"
      '                        feat_basin.CyclicBasinDependencyFoundWarning)\n'
      '                    continue\n')),
    ("ignore list built in one expression", CORE,
     ('        bd_keys = [bd["key"] for bd in bdicts_srt if "key" in bd]\n'
      '        bd_keys += self._basins_ignored\n',
      '        bd_keys = [bd["key"] for bd in bdicts_srt if "key" in bd] \\\n'
      '            + self._basins_ignored\n')),
    ("verifier as conditional expression", FB,
     (_VERIFIER,
      '                    verifier = (str.__eq__ if self.mapping == "same"\n'
      '                                else str.startswith)\n')),
    ("mapped verifier as lambda", FB,
     ("                        verifier = str.startswith\n",
      "                        verifier = lambda a, b: a.startswith(b)\n")),
    ("mapped verifier as slice comparison", FB,
     ("                        verifier = str.startswith\n",
      "                        verifier = lambda a, b: a[:len(b)] == b\n")),
    ("verdict as direct comparison", FB,
     ("                    if basin_identifier is None:\n"
      "                        # The basin does not have a measurement identifier\n"
      "                        # and can thus not be matched with the referrer\n"
      "                        # (`str.__eq__(..., None)` returns `NotImplemented`\n"
      "                        # and `str.startswith(..., None)` raises TypeError).\n"
      "                        self._measurement_identifier_verified = False\n"
      "                    else:\n"
      "                        self._measurement_identifier_verified = verifier(\n"
      "                            self.measurement_identifier,\n"
      "                            basin_identifier\n"
      "                        )\n",
      "                    own_id = self.measurement_identifier\n"
      "                    self._measurement_identifier_verified = bool(\n"
      "                        basin_identifier is not None and (\n"
      "                            own_id == basin_identifier\n"
      "                            if self.mapping == \"same\" else\n"
      "                            own_id.startswith(basin_identifier)))\n")),
    ("warning formats the location inside the lock", H5BASIN,
     [("import pathlib\n", "import pathlib\nimport warnings\n"),
      ("                except OSError:\n                    pass\n",
       "                except OSError as exc:\n"
       "                    warnings.warn(f\"Could not check availability of \"\n"
       "                                  f\"{self.location}: {exc}\")\n")]),
    ("warning formats self after the lock is released", H5BASIN,
     [("import pathlib\n", "import pathlib\nimport warnings\n"),
      ("            with self._av_check_lock:\n"
       "                try:\n"
       "                    self._available_verified = \\\n"
       "                        pathlib.Path(self.location).exists()\n"
       "                except OSError:\n"
       "                    pass\n",
       "            problem = None\n"
       "            with self._av_check_lock:\n"
       "                try:\n"
       "                    self._available_verified = \\\n"
       "                        pathlib.Path(self.location).exists()\n"
       "                except OSError as exc:\n"
       "                    problem = exc\n"
       "            if problem is not None:\n"
       "                self._available_verified = False\n"
       "                warnings.warn(f\"Could not check {self}: {problem}\")\n")]),
    ("re-entrant availability lock", FB,
     ("        self._av_check_lock = threading.Lock()\n",
      "        self._av_check_lock = threading.RLock()\n")),
    ("availability test with early continue and a local", CORE,
     ("                    if bn.is_available():\n"
      "                        features += bn.features\n",
      "                    reachable = bn.is_available()\n"
      "                    if not reachable:\n"
      "                        continue\n"
      "                    bn_feats = bn.features\n"
      "                    features.extend(bn_feats)\n")),
    ("bare except", CORE,
     ("                except BaseException:\n", "                except:\n")),
    ("Basin.ds installs through a local name", FB,
     ("            self._ds = self.load_dataset(self.location, **self.kwargs)\n"
      "            self._ds.ignore_basins(self.ignored_basins)\n",
      "            ds = self.load_dataset(self.location, **self.kwargs)\n"
      "            ds.ignore_basins(self.ignored_basins)\n"
      "            self._ds = ds\n")),
    ("hdf5 guard as plain comparison", H5BASE,
     ('self._local_basins_allowed = True if self.format == "hdf5" else False',
      'self._local_basins_allowed = self.format == "hdf5"')),
    ("iterate over a tuple copy", CORE,
     ("            for bn in list(self.basins):\n",
      "            for bn in tuple(self.basins):\n")),
]

# mutants that re-introduce the repaired defect F14 (apply to the fixed tree)
MUTANTS = list(MUTANTS) + [
    ("type/class agreement test removed (F14 returns)",
     "dclab/rtdc_dataset/core.py",
     ('elif bdict["type"] != b_cls.basin_type:', 'elif False:'), "R14.1"),
    ("agreement test compares the format", "dclab/rtdc_dataset/core.py",
     ('elif bdict["type"] != b_cls.basin_type:',
      'elif bdict["format"] != b_cls.basin_format:'), "R14.1"),
]

# R14.4 (availability verdict evaluated on the table of probe results)
DCORB = "dclab/rtdc_dataset/fmt_dcor/basin.py"
MUTANTS = list(MUTANTS) + [
    ("http: third case of the probe decision lost (elif avail -> else)",
     HTTPF,
     ("                    elif avail:\n", "                    else:\n"),
     "R14.4"),
    ("http: reason 'none' taken for the affirmative answer", HTTPF,
     ("                    elif avail:\n",
      "                    elif avail or reason != \"none\":\n"), "R14.4"),
    ("s3: probe result compared with None", S3F,
     ("                            is_s3_object_available(self.location)\n",
      "                            is_s3_object_available(self.location) "
      "is not None\n"), "R14.4"),
    ("dcor: access error answered with available", DCORB,
     ("                except DCORAccessError:\n"
      "                    self._available_verified = False\n",
      "                except DCORAccessError:\n"
      "                    self._available_verified = True\n"), "R14.4"),
    ("dcor: invalid resource counted as available", DCORB,
     ('self._available_verified = api.get("valid")',
      'self._available_verified = api.get("valid") is not None'), "R14.4"),
    ("hdf5: OSError of the existence test answered with available", H5BASIN,
     ("                except OSError:\n                    pass\n",
      "                except OSError:\n"
      "                    self._available_verified = True\n"), "R14.4"),
]
TWINS = list(TWINS) + [
    ("http: affirmative answer tested first, pair kept as one tuple", HTTPF,
     ("                    avail, reason = is_url_available(self.location,\n"
      "                                                     ret_reason=True)\n"
      "                    if reason in [\"forbidden\", \"not found\"]:\n"
      "                        # we cannot access the URL in the near future\n"
      "                        self._available_verified = False\n"
      "                    elif avail:\n"
      "                        self._available_verified = True\n",
      "                    res = is_url_available(self.location,\n"
      "                                           ret_reason=True)\n"
      "                    if res[0]:\n"
      "                        self._available_verified = True\n"
      "                    elif res[1] in (\"forbidden\", \"not found\"):\n"
      "                        self._available_verified = False\n")),
    ("s3: flag and probe joined by `and`", S3F,
     ("                if not BOTO3_AVAILABLE:\n"
      "                    self._available_verified = False\n"
      "                else:\n"
      "                    self._available_verified = \\\n"
      "                            is_s3_object_available(self.location)\n",
      "                self._available_verified = bool(\n"
      "                    BOTO3_AVAILABLE\n"
      "                    and is_s3_object_available(self.location))\n")),
    ("dcor: answer kept in a local, stored in the else branch", DCORB,
     ('                try:\n'
      '                    self._available_verified = api.get("valid")\n'
      '                except DCORAccessError:\n'
      '                    self._available_verified = False\n',
      '                try:\n'
      '                    valid = api.get("valid")\n'
      '                except DCORAccessError:\n'
      '                    self._available_verified = False\n'
      '                else:\n'
      '                    self._available_verified = valid\n')),
]

# the decision of is_available delegated to a private method of the class
_HTTP_BLOCK = (
    "                if not REQUESTS_AVAILABLE:\n"
    "                    # don't even bother\n"
    "                    self._available_verified = False\n"
    "                else:\n"
    "                    avail, reason = is_url_available(self.location,\n"
    "                                                     ret_reason=True)\n"
    "                    if reason in [\"forbidden\", \"not found\"]:\n"
    "                        # we cannot access the URL in the near future\n"
    "                        self._available_verified = False\n"
    "                    elif avail:\n"
    "                        self._available_verified = True\n")


def _http_delegated(slip):
    def edit(src):
        assert src.count(_HTTP_BLOCK) == 1
        assert src.count("    def is_available(self):\n") == 1
        body = "\n".join(ln[8:] if ln.strip() else ln
                         for ln in _HTTP_BLOCK.split("\n"))
        if slip:
            body = body.replace("        elif avail:\n", "        else:\n")
        src = src.replace(_HTTP_BLOCK,
                          "                self._verify_availability()\n")
        return src.replace(
            "    def is_available(self):\n",
            "    def _verify_availability(self):\n" + body
            + "\n    def is_available(self):\n")
    return edit


TWINS = list(TWINS) + [
    ("http: probe decision moved to a private method", HTTPF,
     _http_delegated(False)),
]
MUTANTS = list(MUTANTS) + [
    ("http: delegated decision loses its third case", HTTPF,
     _http_delegated(True), "R14.4"),
]
