"""C13 – the integrity checker accepts dclab's own output and flags real
inconsistencies.

The check methods, the collector, ``hdf5_has_external`` and the writer's
``rectify_metadata`` are *interpreted* (sa/lib_C11 evaluator – syntax trees
over model objects, nothing of dclab is imported) on a small model dataset
and on seeded corruptions of it.

R13.1 cue coverage: for each of the ten inconsistency classes of the
      property statement the seeded model corruption is reported with level
      "violation" by a check method that the collector's name pattern
      selects, and the uncorrupted model dataset gets no violation from that
      method; IMPORTANT_KEYS are disjoint from OPTIONAL_KEYS and exist in the
      metadata tables.  The fluorescence classes are also seeded into
      datasets with a single channel (fl2 only, fl3 only); a class only
      counts as reported when the collector runs the reporting method for
      that dataset (interpreted has_fluorescence).  Laser count
      specification (as coded and as described in meta_const): a laser
      counts iff its lambda and its power key are both present and the
      power is non-zero.
R13.2 collector and CLI: ``IntegrityChecker.check`` calls every ``check_*``
      entry of the class dictionary exactly once (``check_fl_*`` only with
      fluorescence), forwards its keyword arguments, has no early exit and
      returns all cues; ``has_fluorescence`` is true exactly for datasets
      with at least one of fl1_max/fl2_max/fl3_max; every ``check_*`` method returns a list on every
      path; every level used by an ICue is known to the ordering and to
      ``check_dataset``, which routes violation/alert/info into the three
      lists it returns in the documented order; the CLI exit code is the
      documented function of (alerts?, violations?) and stays at the
      "other error" code on exceptions.
R13.3 writer -> checker closure on the model: for every non-empty subset of
      model features, the attributes ``rectify_metadata`` derives make the
      checker's size / ROI / samples-per-event / channel-count comparisons
      pass; the keys it writes are the keys its docstring announces;
      ``__exit__`` runs it whenever events exist.
"""
from __future__ import annotations

import ast
import copy as _copy
import itertools
import re

from ..cfg import CFG
from ..core import (AnalysisError, call_name, const_str, find_calls, kwarg,
                    last_attr, names_in, short, txt, walk)
from ..lib_C11 import (NP, ClassModel, Func, Interp, ModelRaise,
                       ModuleEnvs, ModuleInterp, Namespace, NdArray,
                       module_level)

ASSUMPTIONS = [
    "NOT decided: the closure 'whatever the writer/export/CLI produce is "
    "violation-free' over the writer's real input space; equality of the "
    "cue lists of a file and its compressed/repacked copy (copying of "
    "attributes is rule R8.1 of C08).",
    "The check methods are interpreted on a model dataset (5 events, image "
    "8x12, two traces of 20 samples, two fluorescence channels, one laser) "
    "and one seeded corruption per inconsistency class and key; h5py "
    "objects, numpy (all, arange, sum) and the Configuration are modelled "
    "by stand-ins; a construct outside the interpreter's subset in a "
    "designated method is an analysis error.",
    "Alert-level format cues (image attributes CLASS/IMAGE_VERSION/"
    "IMAGE_SUBCLASS, log line length) are not part of the property "
    "('without violations') and are not decided.",
]

CHK = "dclab/rtdc_dataset/check.py"
CLI = "dclab/cli/task_verify_dataset.py"
WR = "dclab/rtdc_dataset/writer.py"
MC = "dclab/definitions/meta_const.py"

N = 5          # events of the model dataset
H, W = 8, 12   # image height, width
SPE = 20       # samples per event
KNOWN_FEATURES = {"deform", "volume", "index", "image", "mask", "trace",
                  "fl1_max", "fl2_max", "fl3_max", "temp", "contour"}


# ----------------------------------------------------------------------
# model objects

class Arr(list):
    """feature data: length + shape"""

    def __init__(self, n, shape=()):
        super().__init__([0] * n)
        self.shape = (n,) + tuple(shape)


class Row(Namespace):
    pass


class H5Dataset:
    model_object = True

    def __init__(self, shape, file, virtual=False, external=None):
        self.shape = tuple(shape)
        self.file = file
        self.is_virtual = virtual
        self.external = external

    def __len__(self):
        return self.shape[0]

    def __getitem__(self, i):
        if not isinstance(i, int) or not 0 <= i < self.shape[0]:
            raise IndexError("model dataset index")
        return Row("row", shape=self.shape[1:],
                   size=_prod(self.shape[1:]))


def _prod(t):
    n = 1
    for x in t:
        n *= x
    return n


class H5Group(dict):
    def __init__(self, file, name="/"):
        super().__init__()
        self.file = file
        self.name = name
        self.attrs = {}

    def require_group(self, name):
        if name not in self:
            self[name] = H5Group(self.file, f"{self.name.rstrip('/')}/{name}")
        return self[name]


class Cfg(dict):
    """Configuration stand-in: missing sections spring into existence"""

    def __missing__(self, k):
        self[k] = {}
        return self[k]


class Ds(Namespace):
    def __len__(self):
        ec = self.config["experiment"].get("event count")
        if ec is None:
            raise AnalysisError("model dataset without event count")
        return ec

    def __contains__(self, k):
        # like RTDCBase.__contains__: features only, never config sections
        return k in self.feats

    def __getitem__(self, k):
        return self.feats[k]


class OtherDs(Ds):
    pass


def fold_config_keys(repo):
    """{section: [keys]} of CFG_METADATA and CFG_ANALYSIS"""
    out = {}
    for name in ("CFG_METADATA", "CFG_ANALYSIS"):
        d = repo.module_assign(MC, name)
        if not isinstance(d, ast.Dict):
            raise AnalysisError(f"{name} is not a dict literal")
        for k, v in zip(d.keys, d.values):
            sec = const_str(k)
            if sec is None or not isinstance(v, (ast.List, ast.Tuple)):
                raise AnalysisError(f"{name}: section not a literal list")
            keys = []
            for item in v.elts:
                if not isinstance(item, (ast.List, ast.Tuple)) or \
                        const_str(item.elts[0]) is None:
                    raise AnalysisError(f"{name}[{sec}]: entry not literal")
                keys.append(const_str(item.elts[0]))
            out[sec] = keys
    return out


FL = "dclab/definitions/feat_logic.py"


def load_feature_logic(repo):
    """dclab.definitions.feat_logic interpreted (feat_const replaced by the
    model's feature names; the stdlib `re` module is the real one)"""
    import re

    def importer(mod, level, name):
        if level == 0 and mod == "re":
            val = Namespace("re", compile=re.compile, match=re.match,
                            fullmatch=re.fullmatch, search=re.search)
        elif level == 1 and (mod == "feat_const" or name == "feat_const"
                             or mod is None):
            scal = sorted(KNOWN_FEATURES - {"image", "mask", "trace",
                                            "contour"})
            val = Namespace(
                "feat_const", scalar_feature_names=scal,
                feature_names=sorted(KNOWN_FEATURES),
                feature_labels=[f"label {f}" for f in sorted(
                    KNOWN_FEATURES)],
                feature_name2label={f: f"label {f}" for f in
                                    KNOWN_FEATURES},
                FEATURES_SCALAR=[[f, f"label {f}"] for f in scal],
                FEATURES_NON_SCALAR=[], FLUOR_TRACES=[])
            if mod == "feat_const" and name is not None:
                return getattr(val, name)
            return val
        else:
            raise AnalysisError(f"feat_logic imports {mod or name}: not "
                                "modelled")
        return val if name is None else getattr(val, name)
    mi = ModuleInterp(importer)
    try:
        globs = mi.run_module(repo.tree(FL), "feat_logic")
    except ModelRaise as e:
        raise AnalysisError(f"feat_logic module code raises {e}")
    fe = globs.get("feature_exists")
    if not isinstance(fe, Func):
        raise AnalysisError(f"{FL}: feature_exists vanished")
    return fe


class Model:
    def __init__(self, repo):
        self.repo = repo
        self.interp = Interp()
        self.cfgkeys = fold_config_keys(repo)
        self.tree = repo.tree(CHK)
        self.cls = repo.cls(CHK, "IntegrityChecker")
        # names of check.py and of the repository modules it imports
        # resolve by definition; numpy / h5py stand-ins are shared by all
        # files
        self.envs = ModuleEnvs(repo, self.interp)
        g = self.envs.fresh(CHK)
        self.globs = g

        self.icue = ClassModel(repo.cls(CHK, "ICue"), g, self.interp)
        g["ICue"] = self.icue
        g["copy"] = Namespace("copy", deepcopy=_copy.deepcopy)

        def np_all(a):
            if isinstance(a, NdArray):
                return all(a.flat())
            return bool(a)

        def np_arange(a, b=None):
            lo, hi = (0, a) if b is None else (a, b)
            return NdArray.of(list(range(int(lo), int(hi))), "int")

        def np_sum(a):
            return getattr(a, "n_true", a)
        def np_allclose(a, b, rtol=1e-05, atol=1e-08):
            def flat(x):
                if isinstance(x, NdArray):
                    return [float(v) for v in x.flat()]
                if isinstance(x, (list, tuple)):
                    return [float(v) for v in x]
                return [float(x)]
            fa, fb = flat(a), flat(b)
            if len(fb) == 1:
                fb = fb * len(fa)
            if len(fa) == 1:
                fa = fa * len(fb)
            if len(fa) != len(fb):
                raise ValueError("operands could not be broadcast together")
            return all(abs(x - y) <= atol + rtol * abs(y)
                       for x, y in zip(fa, fb))
        g["np"] = Namespace("np", allclose=np_allclose,
                            all=np_all, arange=np_arange, sum=np_sum,
                            diff=NP.diff, array=NP.array,
                            asarray=NP.asarray)
        self.envs.shared["np"] = g["np"]
        self.feature_exists = load_feature_logic(repo)
        g["dfn"] = Namespace(
            "dfn", config_keys=self.cfgkeys,
            feature_exists=self.feature_exists,
            scalar_feature_exists=lambda f: f in KNOWN_FEATURES)
        g["h5py"] = Namespace("h5py", Dataset=H5Dataset, Group=H5Group)
        self.envs.shared["h5py"] = g["h5py"]
        g["RTDC_HDF5"] = Ds
        g["RTDC_Hierarchy"] = OtherDs
        # literal module constants
        for st in self.tree.body:
            if isinstance(st, ast.Assign) and len(st.targets) == 1 \
                    and isinstance(st.targets[0], ast.Name) \
                    and isinstance(st.value, (ast.Dict, ast.Set, ast.List,
                                              ast.Constant, ast.Tuple)):
                try:
                    g[st.targets[0].id] = self.interp.ev(
                        st.value, None, g, None)
                except AnalysisError:
                    pass
            if isinstance(st, ast.FunctionDef):
                g[st.name] = Func(st, g, self.interp)
        import collections
        g.setdefault("namedtuple", collections.namedtuple)
        g.setdefault("collections", Namespace(
            "collections", namedtuple=collections.namedtuple))
        for st in self.tree.body:
            # module-level classes built by a call (namedtuple, ...)
            if isinstance(st, ast.Assign) and len(st.targets) == 1 \
                    and isinstance(st.targets[0], ast.Name) \
                    and isinstance(st.value, ast.Call) \
                    and st.targets[0].id not in g:
                try:
                    g[st.targets[0].id] = self.interp.ev(
                        st.value, None, g, None)
                except (AnalysisError, ModelRaise):
                    pass
        self.methods = {f.name: f for f in self.cls.body
                        if isinstance(f, ast.FunctionDef)}
        self.rectified = {}
        self.checker = ClassModel(
            self.cls, g, self.interp, strict_instances=True,
            **{"__dict__": {n: Func(f, g, self.interp)
                            for n, f in self.methods.items()}})
        g["IntegrityChecker"] = self.checker

    # -- dataset scenarios -------------------------------------------
    def base(self, channels=(1, 2)):
        """consistent model dataset with the given fluorescence channels
        (one laser per channel... exactly one active laser)"""
        file = object()
        feats = {
            "deform": Arr(N), "volume": Arr(N),
            "index": NdArray.of(list(range(1, N + 1)), "int"),
            "image": Arr(N, (H, W)), "mask": Arr(N, (H, W)),
        }
        if channels:
            feats["trace"] = {
                f"fl{c}_raw": [NdArray.of([0.0] * SPE)] * N
                for c in channels}
        for c in channels:
            feats[f"fl{c}_max"] = Arr(N)
        cfg = Cfg()
        secs = ["experiment", "imaging", "setup"]
        if channels:
            secs.append("fluorescence")
        for sec in secs:
            if sec not in self.cfgkeys:
                raise AnalysisError(f"metadata section {sec} vanished")
            cfg[sec] = {k: 1.0 for k in self.cfgkeys[sec]}
        cfg["experiment"]["event count"] = N
        cfg["imaging"].update({"roi size x": W, "roi size y": H})
        if channels:
            fl = cfg["fluorescence"]
            for k in list(fl):
                if k.startswith(("laser 2", "laser 3")) or (
                        k.startswith("channel ") and k.endswith(" name")
                        and int(k.split()[1]) not in channels):
                    del fl[k]
            fl.update({"channel count": len(channels), "laser count": 1,
                       "samples per event": SPE, "laser 1 lambda": 488.0,
                       "laser 1 power": 10.0})
        h5 = H5Group(file)
        ev = H5Group(file, "/events")
        h5["events"] = ev
        for f, v in feats.items():
            if f == "trace":
                ev[f] = H5Group(file, "/events/trace")
                for t in v:
                    ev[f][t] = H5Dataset((N, SPE), file)
            else:
                ev[f] = H5Dataset(getattr(v, "shape", (N,)), file)
        ds = Ds("ds", feats=feats, config=cfg, _events=dict(feats),
                features_innate=sorted(feats), features=sorted(feats),
                format="hdf5", h5file=h5,
                filter=Namespace("filter", all=Namespace("all", n_true=N)))
        return ds

    def has_fluorescence(self, ds):
        """the interpreted property IntegrityChecker.has_fluorescence"""
        f = self.methods.get("has_fluorescence")
        if f is None:
            raise AnalysisError("IntegrityChecker.has_fluorescence vanished")
        self.interp.steps = 0
        me = self.checker.instance(ds=ds, warn_cues=[])
        try:
            return bool(Func(f, self.globs, self.interp)(me))
        except ModelRaise as e:
            raise AnalysisError(f"has_fluorescence raises {e} on the model "
                                "dataset")

    def run_method(self, name, ds, has_fl=None, **kwargs):
        """cues of one interpreted check method"""
        f = self.methods[name]
        if has_fl is None:
            has_fl = self.has_fluorescence(ds)
        self.interp.steps = 0
        me = self.checker.instance(ds=ds, has_fluorescence=has_fl,
                                   warn_cues=[])
        return Func(f, self.globs, self.interp)(me, **kwargs)


def collected_sets(model, chk):
    """names the interpreted collector calls for the real class dictionary
    -> (without fluorescence, with fluorescence)"""
    out = []
    for has_fl in (False, True):
        calls = []

        def rec(n):
            def f(self_, **kw):
                calls.append(n)
                return []
            f.model_callable = True
            return f
        g = model.globs.copy_with()
        g["IntegrityChecker"] = ClassModel(
            model.cls, g, model.interp,
            **{"__dict__": {n: rec(n) for n in model.methods}})
        me = model.checker.instance(ds=model.base(),
                                    has_fluorescence=has_fl, warn_cues=[])
        model.interp.steps = 0
        try:
            Func(chk, g, model.interp)(me)
        except ModelRaise as e:
            raise AnalysisError(f"IntegrityChecker.check raises {e} on the "
                                "model dataset")
        out.append(set(calls))
    return out


# ----------------------------------------------------------------------
# R13.1

EVT = "dclab/rtdc_dataset/fmt_hdf5/events.py"


def r131_reader(ctx, repo, model):
    """the HDF5 reader offers every stored feature dataset to the checker
    (only an empty trace group is hidden): H5Events._features interpreted on
    a model file with truncated (zero-length) datasets"""
    cls = repo.cls(EVT, "H5Events")
    interp = model.interp
    g = model.envs.fresh(EVT, dfn=model.globs["dfn"])
    cm = ClassModel(cls, g, interp)
    file = object()
    h5 = H5Group(file)
    ev = H5Group(file, "/events")
    h5["events"] = ev
    ev["deform"] = H5Dataset((N,), file)
    ev["volume"] = H5Dataset((0,), file)
    ev["image"] = H5Dataset((0, H, W), file)
    ev["mask"] = H5Dataset((N, H, W), file)
    ev["trace"] = H5Group(file, "/events/trace")
    node = [f for f in cls.body if isinstance(f, ast.FunctionDef)
            and f.name == "_features"]
    if not node:
        raise AnalysisError("H5Events._features vanished")
    try:
        inst = cm("h5file-model") if False else cm(h5)
        interp.steps = 0
        feats = list(interp.getattr(inst, "_features", node[0]))
        feats2 = list(interp.getattr(inst, "_features", node[0]))
        err = None
    except ModelRaise as e:
        feats, feats2, err = None, None, e
    want = ["deform", "image", "mask", "volume"]
    ok = err is None and sorted(feats) == want and feats2 == feats
    ctx.ob("R13.1", ok, "the reader lists every stored feature dataset, "
           "also truncated (zero-length) ones, and hides only the empty "
           "trace group" if ok else
           "H5Events._features " + (f"raises {err.name}" if err else
                                    f"lists {feats}") + f" for a file with "
           f"the datasets {want} (volume and image hold 0 events) and an "
           "empty trace group: a hidden dataset never reaches "
           "check_feature_size", node=node[0],
           key=f"{EVT}::H5Events._features::offers every stored dataset")


FDEF = "dclab/rtdc_dataset/fmt_hdf5/feat_defect.py"


def r131_defect(ctx, repo, model):
    """the reader hides the stored 'time' feature of Shape-In files only up
    to the dclab release whose CHANGELOG entry introduces that rule (files
    re-written by that release or later carry a trustworthy feature that the
    checker must see): is_defective_feature_time interpreted on a table of
    software versions"""
    f = repo.func(FDEF, "is_defective_feature_time", missing_ok=True)
    if f is None or not repo.exists("CHANGELOG"):
        return
    # boundary release from the CHANGELOG
    cur, boundary = None, None
    for line in repo.src("CHANGELOG").splitlines():
        if re.match(r"^\d+\.\d+\.\d+\S*\s*$", line):
            cur = line.strip()
        elif cur and "time" in line.lower() and "defective" in line.lower():
            boundary = cur
    if boundary is None:
        return      # the law is not documented: not decided

    def vt(v):
        return tuple(int(x) for x in re.findall(r"\d+", v)[:3])
    b = vt(boundary)
    older = f"{b[0]}.{b[1]}.{b[2] - 1}" if b[2] else None
    newer = f"{b[0]}.{b[1]}.{b[2] + 1}"
    interp = model.interp
    g = model.envs.fresh(FDEF, parse_version=vt)

    def run(version):
        file = object()
        h5 = H5Group(file)
        ev = H5Group(file, "/events")
        h5["events"] = ev
        ev["frame"] = H5Dataset((N,), file)
        t = H5Dataset((N,), file)
        t.dtype = Namespace("dtype", char="d")
        ev["time"] = t
        h5["events/time"] = t
        h5.attrs.update({"imaging:frame rate": 2000.0,
                         "setup:software version":
                         f"ShapeIn 2.0.5 | dclab {version}"})
        interp.steps = 0
        return bool(Func(f, g, interp)(h5))
    bad = []
    for version, want in ((older, True), (boundary, False), (newer, False)):
        if version is None:
            continue
        try:
            got = run(version)
        except ModelRaise as e:
            raise AnalysisError(f"is_defective_feature_time raises {e} on "
                                "the model file")
        if got != want:
            bad.append(f"a float64 'time' re-written by dclab {version} is "
                       + ("hidden" if got else "offered"))
    ctx.ob("R13.1", not bad,
           f"the stored 'time' of Shape-In files is hidden below dclab "
           f"{boundary} only (the release whose CHANGELOG entry registers "
           "it as defective)" if not bad else
           "is_defective_feature_time: " + "; ".join(bad) + f" although "
           f"the CHANGELOG introduces the rule with {boundary}: the checker "
           "does not get to see a stored feature", node=f,
           key=f"{FDEF}::is_defective_feature_time::version boundary")


def r131(ctx, repo, model, pattern, sets):
    cls = model.cls
    s_nofl, s_fl = sets
    collected = sorted(s_fl | s_nofl)

    def violations(name, ds):
        cues = model.run_method(name, ds)
        if not isinstance(cues, list):
            raise ModelRaise("TypeError", f"{name} returns no list")
        return [c for c in cues if getattr(c, "level", None) == "violation"]

    def search(designated, ds, match):
        """(method that reports it, note)"""
        order = [designated] if designated in model.methods else []
        order += [n for n in collected if n != designated]
        for n in order:
            try:
                v = violations(n, ds)
            except (AnalysisError, ModelRaise) as e:
                if n == designated:
                    raise AnalysisError(
                        f"{designated} cannot be evaluated on the model "
                        f"dataset: {e}")
                continue
            if any(match(c) for c in v):
                return n
        return None

    def seeded(cls_label, designated, label, mutate, match, what,
               fluor=False, channels=(1, 2)):
        ds = model.base(channels)
        mutate(ds)
        hit = search(designated, ds, match)
        node = model.methods.get(designated, cls)
        # which checks the collector runs for this dataset: classes that
        # are not about fluorescence must be found without it
        runs = s_fl if fluor and model.has_fluorescence(ds) else s_nofl
        ok = hit is not None and hit in runs
        if hit is None:
            msg = (f"{what}: no check method run by the collector reports "
                   "it as a violation")
        elif not ok:
            msg = (f"{what}: only reported by {hit}, which the collector "
                   "skips " + ("because has_fluorescence is False for a "
                               f"dataset with channel(s) {channels}"
                               if fluor else "for datasets without "
                               "fluorescence"))
        else:
            msg = f"{what} -> violation from {hit}"
        ctx.ob("R13.1", ok, msg, node=node,
               key=f"{CHK}::{cls_label}::{label}")

    def clean(cls_label, designated, channels=(1, 2), mutate=None,
              label="consistent dataset accepted"):
        if designated not in model.methods:
            return
        ds = model.base(channels)
        if mutate is not None:
            mutate(ds)
        try:
            v = violations(designated, ds)
        except ModelRaise as e:
            raise AnalysisError(f"{designated} raises {e} on the model "
                                "dataset")
        ctx.ob("R13.1", not v,
               f"{designated}: {label} - no violation" if not v else
               f"{designated} reports a consistent model dataset ({label}): "
               f"'{v[0].msg}'", node=model.methods[designated],
               key=f"{CHK}::{cls_label}::{label}")

    def has(txt_):
        return lambda c: txt_ in c.msg

    def key_is(sec, key):
        return lambda c: c.cfg_section == sec and c.cfg_key == key

    # 1 feature lengths
    def m(ds):
        ds.feats["deform"] = Arr(N - 1)
    seeded("feature length", "check_feature_size", "scalar feature short",
           m, has("'deform'"), "feature 'deform' with N-1 values")

    def m(ds):
        ds.feats["trace"]["fl1_raw"] = [0] * (N + 1)
    seeded("feature length", "check_feature_size", "trace long", m,
           has("trace/fl1_raw"), "trace 'fl1_raw' with N+1 rows")

    def m(ds):
        ds.feats["image"] = Arr(N - 2, (H, W))
    seeded("feature length", "check_feature_size", "image short", m,
           has("'image'"), "feature 'image' with N-2 events")

    def m(ds):
        ds.config["experiment"]["event count"] = N + 1
    seeded("feature length", "check_feature_size", "event count too large",
           m, has("'deform'"), "metadata event count N+1")
    clean("feature length", "check_feature_size")
    r131_reader(ctx, repo, model)
    r131_defect(ctx, repo, model)

    # 2 image size vs ROI
    for roi, val in (("roi size x", W + 1), ("roi size y", H - 1)):
        def m(ds, roi=roi, val=val):
            ds.config["imaging"][roi] = val
        seeded("roi size", "check_metadata_bad", f"{roi} wrong", m,
               key_is("imaging", roi), f"[imaging] '{roi}' = {val} for "
               f"{H}x{W} images")

    def m(ds):
        ds.config["imaging"].update({"roi size x": H, "roi size y": W})
    seeded("roi size", "check_metadata_bad", "roi x/y swapped", m,
           key_is("imaging", "roi size x"), "roi size x/y swapped")

    def m(ds):
        del ds.feats["image"]
        ds.config["imaging"]["roi size x"] = W + 2
    seeded("roi size", "check_metadata_bad", "mask only", m,
           lambda c: c.cfg_key == "roi size x" and "mask" in c.msg,
           "mask contradicting roi size x (no image)")
    # every image-like feature is compared, not only the first present one
    for later, shp in (("mask", (N, H + 1, W)), ("mask", (N, H, W - 2)),
                       ("image_bg", (N, H, W + 1))):
        def m(ds, later=later, shp=shp):
            ds.feats[later] = Arr(N, shp[1:])
        seeded("roi size", "check_metadata_bad",
               f"{later} {shp[1:]} contradicts the ROI, image agrees", m,
               lambda c, later=later: c.cfg_section == "imaging"
               and later in c.msg,
               f"feature {later} of shape {shp[1:]} next to a consistent "
               f"image {(H, W)}")
    clean("roi size", "check_metadata_bad")

    # 3 unknown features
    def m(ds):
        ds.h5file["events"]["bogus_feat"] = H5Dataset((N,), ds.h5file.file)
    seeded("unknown feature", "check_features_unknown_hdf5",
           "unknown feature", m, has("bogus_feat"),
           "HDF5 feature 'bogus_feat' unknown to dclab")
    # names that are pieces of an ignored name are still unknown features
    for nm in ("d", "f", "de", "ef", "deformation_x"):
        def m(ds, nm=nm):
            ds.h5file["events"][nm] = H5Dataset((N,), ds.h5file.file)
        seeded("unknown feature", "check_features_unknown_hdf5",
               f"unknown feature '{nm}'", m, has(f"'{nm}'"),
               f"HDF5 feature '{nm}' unknown to dclab")
    # the pattern-defined feature names: exactly "ml_score_" + 3 x [0-9a-z]
    fnode = repo.func(FL, "feature_exists")
    for nm, want in (("ml_score_abc", True), ("ml_score_0z9", True),
                     ("ml_score_abcd", False), ("ml_score_ab", False),
                     ("ml_score_ABC", False), ("ml_score_a-c", False),
                     ("ml_score_-bc", False), ("ml_score_ab-", False),
                     ("ml_score_ab_", False), ("ml_score_abC", False),
                     ("ml_score_Abc", False), ("ml_score_ab.", False),
                     ("xml_score_abc", False), ("ml_score_abc_raw", False),
                     ("ml_score_abc\n", False), ("deform", True),
                     ("deformx", False)):
        try:
            got = bool(model.feature_exists(nm))
            err = None
        except ModelRaise as e:
            got, err = None, e.name
        ok = err is None and got == want
        ctx.ob("R13.1", ok, f"feature_exists({nm!r}) is {want}" if ok else
               f"feature_exists({nm!r}) "
               + (f"raises {err}" if err else f"is {got}") + f", the "
               f"documented feature names say {want} (ml_score_??? with "
               "exactly three characters of [0-9a-z])", node=fnode,
               key=f"{FL}::feature_exists::{nm!r}")
        if not want and nm.startswith(("ml_", "xml_")) and "\n" not in nm:
            def m(ds, nm=nm):
                ds.h5file["events"][nm] = H5Dataset((N,), ds.h5file.file)
            seeded("unknown feature", "check_features_unknown_hdf5",
                   f"unknown feature '{nm}'", m, has(f"'{nm}'"),
                   f"HDF5 feature '{nm}' unknown to dclab")
    clean("unknown feature", "check_features_unknown_hdf5")

    # 4 missing mandatory metadata
    imp = dict(model.globs.get("IMPORTANT_KEYS") or {})
    imp_fl = model.globs.get("IMPORTANT_KEYS_FL") or {}
    opt = model.globs.get("OPTIONAL_KEYS") or {}
    if not imp or not imp_fl:
        raise AnalysisError("IMPORTANT_KEYS / IMPORTANT_KEYS_FL not folded")
    allimp = {s: list(k) for s, k in imp.items()}
    for s, k in imp_fl.items():
        allimp.setdefault(s, [])
        allimp[s] += list(k)
    tnode = repo.module_assign(CHK, "IMPORTANT_KEYS")
    for tname, table in (("IMPORTANT_KEYS", imp),
                         ("IMPORTANT_KEYS_FL", imp_fl)):
        for sec, keys in table.items():
            dup = sorted({k for k in keys if list(keys).count(k) > 1})
            ctx.ob("R13.1", not dup,
                   f"{tname}[{sec}] lists every mandatory key once"
                   if not dup else
                   f"{tname}[{sec}] lists {dup} more than once: an entry "
                   "was overwritten by its neighbour, so a mandatory key "
                   "is missing from the list (only an alert when absent)",
                   node=repo.module_assign(CHK, tname),
                   key=f"{CHK}::{tname}::[{sec}] unique")
    # the region of interest is mandatory as a whole: position and size,
    # x and y
    for key in ("roi position x", "roi position y", "roi size x",
                "roi size y"):
        if key in imp.get("imaging", []) or key not in model.cfgkeys.get(
                "imaging", []):
            continue

        def m(ds, key=key):
            del ds.config["imaging"][key]
        seeded("missing metadata", "check_metadata_missing",
               f"[imaging] {key}", m, key_is("imaging", key),
               f"missing [imaging] '{key}'")
    for sec, keys in allimp.items():
        for key in keys:
            known = key in model.cfgkeys.get(sec, [])
            optional = key in opt.get(sec, [])
            ok = known and not optional
            ctx.ob("R13.1", ok,
                   f"mandatory [{sec}] '{key}' is a defined, non-optional "
                   "key" if ok else f"mandatory [{sec}] '{key}' is "
                   + ("listed in OPTIONAL_KEYS (never reported)"
                      if optional else "not defined in the metadata tables "
                      "(never iterated, never reported)"),
                   node=tnode, key=f"{CHK}::IMPORTANT_KEYS::[{sec}] {key}",
                   nontrivial=False)
            if not ok:
                continue

            def m(ds, sec=sec, key=key):
                del ds.config[sec][key]
            seeded("missing metadata", "check_metadata_missing",
                   f"[{sec}] {key}", m, key_is(sec, key),
                   f"missing [{sec}] '{key}'", fluor=sec in imp_fl)

    def m(ds):
        del ds.config["imaging"]
    ds = model.base()
    m(ds)
    try:
        cues = model.run_method("check_metadata_missing", ds,
                                expand_section=False)
    except ModelRaise as e:
        raise AnalysisError(f"check_metadata_missing raises {e}")
    ok = any(c.level == "violation" and c.cfg_section == "imaging"
             for c in cues)
    ctx.ob("R13.1", ok, "a missing mandatory section is a violation (the "
           "form check_dataset uses: expand_section=False)" if ok else
           "a missing mandatory section is not reported as a violation "
           "with expand_section=False", node=model.methods[
               "check_metadata_missing"],
           key=f"{CHK}::missing metadata::section missing")
    clean("missing metadata", "check_metadata_missing")

    # 5 index
    for label, data in (("index starts at 0", list(range(N))),
                        ("index repeats", [1, 2, 2, 4, 5][:N]),
                        ("index reversed", list(range(N, 0, -1))),
                        ("last index wrong", list(range(1, N)) + [N + 2]),
                        ("index with an offset", list(range(3, N + 3))),
                        ("index counts in steps of two",
                         list(range(1, 2 * N, 2)))):
        def m(ds, data=data):
            ds.feats["index"] = NdArray.of(data, "int")
        seeded("index", "check_feat_index", label, m, has("index"),
               f"{label} ({data})")
    clean("index", "check_feat_index")

    # 6 channel count
    for val in (1, 3):
        def m(ds, val=val):
            ds.config["fluorescence"]["channel count"] = val
        seeded("channel count", "check_fl_num_channels",
               f"channel count {val}", m,
               key_is("fluorescence", "channel count"),
               f"channel count {val} with 2 named channels present",
               fluor=True)
    clean("channel count", "check_fl_num_channels")

    # 7 laser count
    for val in (0, 2):
        def m(ds, val=val):
            ds.config["fluorescence"]["laser count"] = val
        seeded("laser count", "check_fl_num_lasers", f"laser count {val}",
               m, key_is("fluorescence", "laser count"),
               f"laser count {val} with one active laser", fluor=True)
    clean("laser count", "check_fl_num_lasers")

    # 8 samples per event
    for val in (SPE - 1, SPE + 1):
        def m(ds, val=val):
            ds.config["fluorescence"]["samples per event"] = val
        seeded("samples per event", "check_fl_samples_per_event",
               f"samples per event {val}", m,
               key_is("fluorescence", "samples per event"),
               f"samples per event {val} for traces of {SPE} samples",
               fluor=True)
    clean("samples per event", "check_fl_samples_per_event")

    # 6-8 again on datasets that have one single fluorescence channel:
    # the collector only runs the check_fl_* methods when has_fluorescence
    # (interpreted) says so for that dataset
    for ch in ((2,), (3,)):
        tag = f"channel {ch[0]} only"
        for val in (0, 2):
            def m(ds, val=val):
                ds.config["fluorescence"]["channel count"] = val
            seeded("channel count", "check_fl_num_channels",
                   f"channel count {val}, {tag}", m,
                   key_is("fluorescence", "channel count"),
                   f"channel count {val} with one named channel (fl{ch[0]})",
                   fluor=True, channels=ch)

            def m(ds, val=val):
                ds.config["fluorescence"]["laser count"] = val
            seeded("laser count", "check_fl_num_lasers",
                   f"laser count {val}, {tag}", m,
                   key_is("fluorescence", "laser count"),
                   f"laser count {val} with one active laser (fl{ch[0]} "
                   "only)", fluor=True, channels=ch)
        for val in (SPE - 1, SPE + 1):
            def m(ds, val=val):
                ds.config["fluorescence"]["samples per event"] = val
            seeded("samples per event", "check_fl_samples_per_event",
                   f"samples per event {val}, {tag}", m,
                   key_is("fluorescence", "samples per event"),
                   f"samples per event {val} for traces of {SPE} samples "
                   f"(fl{ch[0]} only)", fluor=True, channels=ch)
        for key in imp_fl.get("fluorescence", []):
            if key not in model.cfgkeys.get("fluorescence", []):
                continue

            def m(ds, key=key):
                del ds.config["fluorescence"][key]
            seeded("missing metadata", "check_metadata_missing",
                   f"[fluorescence] {key}, {tag}", m,
                   key_is("fluorescence", key),
                   f"missing [fluorescence] '{key}' (fl{ch[0]} only)",
                   fluor=True, channels=ch)
        clean("channel count", "check_fl_num_channels", channels=ch,
              label=f"consistent dataset accepted, {tag}")

    # 7 (specification of the laser count, as coded and as the metadata
    # description says: "laser N power ... may be present (but must be set
    # to 0) if a laser line is not used"): a laser counts iff both its
    # lambda and its power key are present and the power is non-zero
    def off_laser(ds):      # described, switched off
        ds.config["fluorescence"].update(
            {"laser 2 lambda": 561.0, "laser 2 power": 0.0})

    def on_laser_zero_lambda(ds):   # mirrored: power on, lambda 0
        ds.config["fluorescence"].update(
            {"laser 2 lambda": 0.0, "laser 2 power": 5.0})

    def no_power_key(ds):   # described without a power key
        ds.config["fluorescence"].update({"laser 3 lambda": 640.0})

    def no_lambda_key(ds):  # power without a description
        ds.config["fluorescence"].update({"laser 3 power": 7.0})
    for label, setup, active in (
            ("described laser with power 0", off_laser, 1),
            ("laser with power but lambda 0", on_laser_zero_lambda, 2),
            ("laser lambda without power key", no_power_key, 1),
            ("laser power without lambda key", no_lambda_key, 1)):
        def ok_m(ds, setup=setup, active=active):
            setup(ds)
            ds.config["fluorescence"]["laser count"] = active
        clean("laser count", "check_fl_num_lasers", mutate=ok_m,
              label=f"{label}: laser count {active} accepted")
        wrong = 3 - active

        def bad_m(ds, setup=setup, wrong=wrong):
            setup(ds)
            ds.config["fluorescence"]["laser count"] = wrong
        seeded("laser count", "check_fl_num_lasers",
               f"{label}: laser count {wrong}", bad_m,
               key_is("fluorescence", "laser count"),
               f"{label}, laser count {wrong} (active lasers: {active})",
               fluor=True)

    # temperature sensor (ZMD set-ups): only an all-zero column is a
    # violation, a column that merely starts with zeros is not
    if "check_temperature_zero_zmd" in model.methods:
        def zmd(ds, data):
            ds.config["setup"]["identifier"] = "ZMD-12"
            ds.feats["temp"] = NdArray.of(data, "float")

        def warm(ds):
            zmd(ds, [0.0] * 10 + [23.1, 23.2, 23.0, 23.4, 23.3])

        def warm_late(ds):
            zmd(ds, [0.0] * 14 + [22.5])
        for label, mut in (("ten leading zeros then real values", warm),
                           ("zeros except the last value", warm_late)):
            clean("temperature", "check_temperature_zero_zmd", mutate=mut,
                  label=f"temp column with {label} accepted")

        def dead(ds):
            zmd(ds, [0.0] * 15)
        seeded("temperature", "check_temperature_zero_zmd",
               "all-zero temp column", dead, has("all-zero"),
               "all-zero 'temp' feature of a ZMD set-up")

    # 9 external links
    def ext_link(ds):
        ds.h5file["events"]["trace"]["fl3_raw"] = H5Dataset(
            (N, SPE), object())

    def ext_top(ds):
        ds.h5file["basin"] = H5Group(object(), "/basin")

    def virt(ds):
        ds.h5file["events"]["deform"] = H5Dataset(
            (N,), ds.h5file.file, virtual=True)

    def extds(ds):
        ds.h5file["events"]["volume"] = H5Dataset(
            (N,), ds.h5file.file, external=[("f.dat", 0, 10)])
    for label, mut in (("external link in a sub-group", ext_link),
                       ("external link at top level", ext_top),
                       ("virtual dataset", virt),
                       ("external dataset storage", extds)):
        seeded("external links", "check_external_links", label, mut,
               has("external"), label)
    clean("external links", "check_external_links")

    # 10 non-positive set-up values
    gz = model.methods.get("check_metadata_bad_greater_zero")
    pairs = []
    if gz is not None:
        for lp in walk(gz):
            if isinstance(lp, ast.For) and isinstance(
                    lp.iter, (ast.List, ast.Tuple)):
                for e in lp.iter.elts:
                    if isinstance(e, (ast.List, ast.Tuple)) and len(
                            e.elts) == 2 and all(const_str(x) for x in
                                                 e.elts):
                        pairs.append(tuple(const_str(x) for x in e.elts))
    if len(pairs) < 4:
        raise AnalysisError("check_metadata_bad_greater_zero: key list not "
                            "recognised")
    for sec, key in pairs:
        known = key in model.cfgkeys.get(sec, [])
        ctx.ob("R13.1", known,
               f"[{sec}] '{key}' consulted by "
               "check_metadata_bad_greater_zero is a defined key" if known
               else f"check_metadata_bad_greater_zero consults [{sec}] "
               f"'{key}', which the metadata tables do not define in that "
               "section: the lookup yields None and a non-positive value "
               "is never reported", node=gz,
               key=f"{CHK}::check_metadata_bad_greater_zero::defined "
               f"[{sec}] {key}")
    # every constant [section] key any check reads exists in the tables
    consulted = {}
    for name, f in model.methods.items():
        for n in walk(f):
            sec = key = None
            if isinstance(n, ast.Subscript) and isinstance(
                    n.value, ast.Subscript) and txt(
                    n.value.value).endswith(".config"):
                sec, key = const_str(n.value.slice), const_str(n.slice)
            elif isinstance(n, ast.Compare) and len(n.ops) == 1 \
                    and isinstance(n.ops[0], (ast.In, ast.NotIn)) \
                    and isinstance(n.comparators[0], ast.Subscript) \
                    and txt(n.comparators[0].value).endswith(".config"):
                sec = const_str(n.comparators[0].slice)
                key = const_str(n.left)
            elif isinstance(n, ast.Call) and last_attr(n) == "get" \
                    and n.args and isinstance(n.func.value, ast.Subscript) \
                    and txt(n.func.value.value).endswith(".config"):
                sec = const_str(n.func.value.slice)
                key = const_str(n.args[0])
            if sec is not None and key is not None:
                consulted.setdefault((sec, key), (name, n))
    for (sec, key), (name, n) in sorted(consulted.items()):
        known = key in model.cfgkeys.get(sec, [])
        ctx.ob("R13.1", known, f"{name} reads the defined key [{sec}] "
               f"'{key}'" if known else
               f"{name} reads [{sec}] '{key}', which the metadata tables do "
               "not define: the test can never see a value", node=n,
               key=f"{CHK}::IntegrityChecker.{name}::defined [{sec}] {key}",
               nontrivial=False)
    # the four physical set-up quantities of the statement
    for sec, key in (("imaging", "pixel size"), ("imaging", "frame rate"),
                     ("setup", "channel width"), ("setup", "flow rate")):
        if (sec, key) in pairs:
            continue

        def m(ds, sec=sec, key=key):
            ds.config[sec][key] = 0.0
        seeded("non-positive value", "check_metadata_bad_greater_zero",
               f"[{sec}] {key} = 0.0", m, key_is(sec, key),
               f"[{sec}] '{key}' = 0.0")
    for sec, key in pairs:
        for val in (0, 0.0, -1.5):
            def m(ds, sec=sec, key=key, val=val):
                ds.config[sec][key] = val
            seeded("non-positive value", "check_metadata_bad_greater_zero",
                   f"[{sec}] {key} = {val!r}", m, key_is(sec, key),
                   f"[{sec}] '{key}' = {val!r}")
    clean("non-positive value", "check_metadata_bad_greater_zero")


# ----------------------------------------------------------------------
# R13.2

def collector_pattern(repo):
    """the documented law: 'calls all class methods that start with
    `check_`'"""
    chk = repo.func(CHK, "IntegrityChecker.check")
    doc = ast.get_docstring(chk) or ""
    m = re.search(r"start with\s+`([A-Za-z_]+)`", doc)
    if not m:
        raise AnalysisError("IntegrityChecker.check: documented name "
                            "pattern not found in the docstring")
    return m.group(1), chk


def r132(ctx, repo, model, pattern, chk):
    # collector on a model class dictionary
    names = ["__init__", "check", "check_a", "check_b", "check_fl_x",
             "check_zz", "sanity_check", "has_fluorescence", "checker",
             "_check_hidden"]
    for has_fl in (True, False):
        calls = []

        def rec(n):
            def f(self_, **kw):
                calls.append((n, kw))
                return [n]
            f.model_callable = True
            return f
        g = model.globs.copy_with()
        g["IntegrityChecker"] = ClassModel(
            model.cls, g, model.interp,
            **{"__dict__": {n: rec(n) for n in names}})
        ds = model.base()
        me = model.checker.instance(ds=ds, has_fluorescence=has_fl,
                                    warn_cues=["warn"])
        model.interp.steps = 0
        try:
            out = Func(chk, g, model.interp)(me, expand_section=False)
            err = None
        except ModelRaise as e:
            out, err = None, e
        want = [n for n in names if n.startswith(pattern)
                and (has_fl or not n.startswith(pattern + "fl_"))]
        got = [n for n, _ in calls]
        problems = []
        if err is not None:
            problems.append(f"raises {err}")
        else:
            if sorted(got) != sorted(want):
                problems.append(f"calls {got}, expected {sorted(want)}")
            if any(kw != {"expand_section": False} for _, kw in calls):
                problems.append("keyword arguments are not forwarded")
            if not isinstance(out, list) or sorted(out) != sorted(
                    want + ["warn"]):
                problems.append(f"returns {out}, expected the cues of all "
                                "calls plus the warning cues")
        # the verdict is a function of the dataset: a second call on the
        # same checker returns the same cues and leaves its state alone
        if err is None and not problems:
            first = list(out)
            del calls[:]
            model.interp.steps = 0
            try:
                out2 = Func(chk, g, model.interp)(me, expand_section=False)
                rep = None
                if not isinstance(out2, list) or sorted(out2) != sorted(
                        first):
                    rep = (f"a second check() on the same checker returns "
                           f"{out2}, the first returned {first}: cues are "
                           "kept across calls (duplicated / stale cues)")
            except ModelRaise as e:
                rep = f"a second check() on the same checker raises {e}"
            wc = me.__dict__.get("warn_cues")
            if rep is None and wc != ["warn"]:
                rep = (f"check() changes the checker's warn_cues to {wc}: "
                       "the next call starts from the cues of this one")
            ctx.ob("R13.4", rep is None,
                   f"check() (fluorescence={has_fl}) called twice on one "
                   "checker returns the same cues" if rep is None else
                   f"check() (fluorescence={has_fl}): {rep}", node=chk,
                   key=f"{CHK}::IntegrityChecker.check::same cues on a "
                   f"second call (fluorescence={has_fl})")
        ctx.ob("R13.2", not problems,
               f"check() (fluorescence={has_fl}) runs each of "
               f"{sorted(want)} once and returns all cues" if not problems
               else f"check() (fluorescence={has_fl}): "
               + "; ".join(problems), node=chk,
               key=f"{CHK}::IntegrityChecker.check::collects all "
               f"(fluorescence={has_fl})")
    # has_fluorescence (interpreted) on datasets with exactly one / no
    # fluorescence channel
    hf = model.methods.get("has_fluorescence")
    for ch in ((), (1,), (2,), (3,), (1, 2, 3)):
        got = model.has_fluorescence(model.base(ch))
        want = bool(ch)
        what = ("no fluorescence feature" if not ch else
                "only " + ", ".join(f"fl{c}_max" for c in ch))
        ctx.ob("R13.2", got == want,
               f"has_fluorescence is {want} for a dataset with {what}"
               if got == want else
               f"has_fluorescence is {got} for a dataset with {what}: "
               + ("every check_fl_* is skipped and the mandatory "
                  "fluorescence keys are not required" if want else
                  "fluorescence metadata are demanded from a dataset "
                  "without fluorescence"), node=hf,
               key=f"{CHK}::IntegrityChecker.has_fluorescence::{what}")

    # the checker judges the file's own content: the dataset it opens has
    # basins disabled (interpreted __init__, load_file recorded)
    init = model.methods.get("__init__")
    if init is None:
        raise AnalysisError("IntegrityChecker.__init__ vanished")
    loads = []

    def load_file(path, *a, **kw):
        loads.append((path, a, kw))
        return model.base()
    ws = Namespace("catch")
    ws.__dict__["__enter__"] = lambda: []
    g = model.globs.copy_with()
    g.update(load_file=load_file, RTDCBase=type(model.base()),
             warnings=Namespace("warnings",
                                catch_warnings=lambda **k: ws,
                                simplefilter=lambda *a, **k: None))
    me = model.checker.instance()
    model.interp.steps = 0
    try:
        Func(init, g, model.interp)(me, "model.rtdc")
    except ModelRaise as e:
        raise AnalysisError(f"IntegrityChecker.__init__ raises {e} in the "
                            "model")
    ok = len(loads) == 1 and loads[0][0] == "model.rtdc" and loads[0][
        2].get("enable_basins", None) is False
    ctx.ob("R13.2", ok, "a path is opened with basins disabled: the checks "
           "see the file's own features only" if ok else
           "the dataset is opened with " + (
               f"load_file{loads[0][1:]}" if loads else "no load_file call")
           + ": basin features leak into `in self.ds` while `_events` holds "
           "the file's own features (verdict depends on other files)",
           node=init, key=f"{CHK}::IntegrityChecker.__init__::basins "
           "disabled")
    given = model.base()
    me = model.checker.instance()
    n0 = len(loads)
    Func(init, g, model.interp)(me, given)
    ok = me.__dict__.get("ds") is given and len(loads) == n0
    ctx.ob("R13.2", ok, "a dataset instance is checked as given" if ok else
           "a dataset instance is not checked as given", node=init,
           key=f"{CHK}::IntegrityChecker.__init__::instance as given",
           nontrivial=False)

    # refuses filtered datasets instead of silently checking a subset
    ds = model.base()
    ds.filter.all.n_true = N - 1
    me = model.checker.instance(ds=ds, has_fluorescence=True, warn_cues=[])
    try:
        Func(chk, model.globs, model.interp)(me)
        ok = False
    except ModelRaise as e:
        ok = e.name == "NotImplementedError"
    except AnalysisError:
        ok = False
    ctx.ob("R13.2", ok, "datasets with active filters are refused" if ok
           else "datasets with active filters are checked (event counts "
           "refer to the unfiltered data)", node=chk,
           label="refuses filtered datasets", nontrivial=False)

    # every collected method returns a list on every path (same-class
    # helper methods and module-level functions are followed)
    modfuncs = {f.name: f for f in repo.tree(CHK).body
                if isinstance(f, ast.FunctionDef)}

    def callee(call):
        fn = call.func
        if isinstance(fn, ast.Attribute) and isinstance(
                fn.value, ast.Name) and fn.value.id in ("self", "cls",
                                                        model.cls.name):
            return model.methods.get(fn.attr)
        if isinstance(fn, ast.Name):
            return modfuncs.get(fn.id)
        return None

    def list_returning(f, seen=()):
        """(ok, offending node or None)"""
        if f in seen:
            return True, None     # recursion: decided by the other returns
        seen = seen + (f,)
        lists = set()

        def is_list(e):
            if isinstance(e, (ast.List, ast.ListComp)):
                return True
            if isinstance(e, ast.Name):
                return e.id in lists
            if isinstance(e, ast.BinOp) and isinstance(e.op, ast.Add):
                return is_list(e.left) and is_list(e.right)
            if isinstance(e, ast.IfExp):
                return is_list(e.body) and is_list(e.orelse)
            if isinstance(e, ast.Call):
                if call_name(e) in ("sorted", "list"):
                    return True
                c = callee(e)
                return c is not None and list_returning(c, seen)[0]
            return False
        changed = True
        while changed:
            changed = False
            for n in walk(f):
                if isinstance(n, ast.Assign) and len(n.targets) == 1 \
                        and isinstance(n.targets[0], ast.Name) \
                        and n.targets[0].id not in lists and is_list(
                            n.value):
                    lists.add(n.targets[0].id)
                    changed = True
        rets = [n for n in walk(f) if isinstance(n, ast.Return)]
        bad = [r for r in rets if r.value is None or not is_list(r.value)]
        if bad:
            return False, bad[0]
        if not rets or _falls_off(CFG(f)):
            return False, None
        return True, None
    for name in sorted(n for n in model.methods if n.startswith(pattern)):
        f = model.methods[name]
        ok, bad = list_returning(f)
        ctx.ob("R13.2", ok, f"{name} returns a list on every path" if ok
               else f"{name} can return "
               + (f"`{short(bad, 30)}`" if bad is not None else
                  "None (falls off the end)")
               + ": `cues += ...` in the collector fails",
               node=bad if bad is not None else f,
               key=f"{CHK}::IntegrityChecker.{name}::returns list")

    # levels
    levels = set()
    for c in find_calls(repo.tree(CHK), name="ICue", nested=True):
        lv = kwarg(c, "level", 1)
        levels |= _fold_levels(lv, c)
    if "violation" not in levels or len(levels) < 3:
        raise AnalysisError(f"ICue levels not folded: {sorted(levels)}")
    # ordering / summary of cues, interpreted on one model cue per level
    icue = repo.cls(CHK, "ICue")
    inode = {f.name: f for f in icue.body if isinstance(f, ast.FunctionDef)}
    for meth in ("__eq__", "__lt__", "get_level_summary"):
        if meth not in inode:
            raise AnalysisError(f"ICue.{meth} vanished")
    lv = sorted(levels)

    def cue_of(level):
        return model.icue(msg="m", level=level, category="c")

    def call(meth, a, b):
        model.interp.steps = 0
        return bool(Func(inode[meth], model.globs, model.interp)(a, b))
    try:
        cues_ = {x: cue_of(x) for x in lv}
    except ModelRaise as e:
        raise AnalysisError(f"ICue(...) raises {e} in the model")
    bad_eq, bad_lt, ties = [], [], []
    for x in lv:
        for y in lv:
            try:
                eq = call("__eq__", cues_[x], cue_of(y))
                if eq != (x == y):
                    bad_eq.append(f"ICue({x}) == ICue({y}) is {eq}")
            except ModelRaise as e:
                bad_eq.append(f"comparing levels {x}/{y} raises {e.name}")
            try:
                lt = call("__lt__", cues_[x], cues_[y])
                gt = call("__lt__", cues_[y], cues_[x])
                if x == y and (lt or gt):
                    bad_lt.append(f"ICue({x}) < ICue({x})")
                if x != y and lt == gt:
                    ties.append(f"levels {x} and {y} are not ordered "
                                f"(a<b is {lt}, b<a is {gt})")
            except ModelRaise as e:
                bad_lt.append(f"ordering levels {x}/{y} raises {e.name}")
    ctx.ob("R13.2", not bad_eq,
           "ICue.__eq__ knows every level in use" if not bad_eq else
           f"ICue.__eq__: {bad_eq[0]} (cue lists cannot be compared)",
           node=inode["__eq__"], key=f"{CHK}::ICue.__eq__::levels")
    ctx.ob("R13.2", not bad_lt,
           "ICue.__lt__ knows every level in use" if not bad_lt else
           f"ICue.__lt__: {bad_lt[0]}: the cues cannot be sorted",
           node=inode["__lt__"], key=f"{CHK}::ICue.__lt__::levels")
    ctx.ob("R13.2", not ties, "levels have distinct ranks" if not ties
           else f"ICue.__lt__: {ties[0]}", node=inode["__lt__"],
           key=f"{CHK}::ICue.__lt__::distinct ranks", nontrivial=False)
    try:
        model.interp.steps = 0
        summ = Func(inode["get_level_summary"], model.globs, model.interp)(
            [cues_[x] for x in lv] + [cue_of("violation")])
        want = {x: 1 for x in lv}
        want["violation"] = 2
        ok = isinstance(summ, dict) and all(
            summ.get(k) == v for k, v in want.items())
        msg = f"get_level_summary gives {summ}, expected {want}"
    except ModelRaise as e:
        ok, msg = False, (f"get_level_summary raises {e.name} for the "
                          f"levels {lv}")
    ctx.ob("R13.2", ok, "ICue.get_level_summary counts every level in use"
           if ok else "ICue." + msg, node=inode["get_level_summary"],
           key=f"{CHK}::ICue.get_level_summary::levels")

    # check_dataset routing (interpreted)
    cd = repo.func(CHK, "check_dataset")
    seen_kw = []

    def mk(level, msg):
        return Namespace("ICue", level=level, msg=msg)
    cues = [mk("violation", "v2"), mk("alert", "a1"), mk("info", "i1"),
            mk("violation", "v1"), mk("alert", "a2")]

    def checker(path_or_ds):
        def check(**kw):
            seen_kw.append(kw)
            return list(cues)
        check.model_callable = True
        me = Namespace("ic", check=check)
        me.__dict__["__enter__"] = lambda: me
        return me
    checker.model_callable = True
    g = model.globs.copy_with()
    g["IntegrityChecker"] = checker
    model.interp.steps = 0
    try:
        out = Func(cd, g, model.interp)("model.rtdc")
    except ModelRaise as e:
        out = f"raises {e.name}"
    want = (["v1", "v2"], ["a1", "a2"], ["i1"])
    ok = isinstance(out, tuple) and len(out) == 3 and all(
        isinstance(x, list) for x in out)
    for i, lv in enumerate(("violation", "alert", "info")):
        good = ok and sorted(out[i]) == want[i]
        ctx.ob("R13.2", good,
               f"check_dataset returns the {lv} messages at position {i}"
               if good else
               f"check_dataset: position {i} of the result should hold the "
               f"{lv} messages {want[i]}, got "
               f"{out[i] if ok else out}", node=cd,
               key=f"{CHK}::check_dataset::routes {lv}")
    ok = len(seen_kw) == 1
    ctx.ob("R13.2", ok, "check_dataset runs the checks once" if ok else
           f"check_dataset runs the checks {len(seen_kw)} times", node=cd,
           key=f"{CHK}::check_dataset::all cues", nontrivial=False)
    for lv in sorted(levels - {"violation", "alert", "info"}):
        ctx.ob("R13.2", False, f"level '{lv}' used by an ICue is not one of "
               "the three levels check_dataset returns", node=cd,
               key=f"{CHK}::check_dataset::unknown level {lv}")

    # CLI: verify_dataset interpreted as a whole (sys.exit raises
    # SystemExit as the real one; an exception that escapes the function
    # ends the process with code 1)
    vd = repo.func(CLI, "verify_dataset")
    parser = repo.func(CLI, "verify_dataset_parser")
    descr = None
    for n in walk(parser):
        if isinstance(n, ast.Assign) and isinstance(
                n.targets[0], ast.Name) and n.targets[0].id == "descr":
            descr = model.interp.ev(n.value, {}, {}, None)
    if not isinstance(descr, str):
        raise AnalysisError("verify_dataset_parser: description lost")
    doc = {}
    for code, what in re.findall(r"``(\d+): ([^`]+)``", descr):
        w = what.lower()
        if "alert" in w and "violation" in w:
            doc[(True, True)] = int(code)
        elif "alert" in w:
            doc[(True, False)] = int(code)
        elif "violation" in w:
            doc[(False, True)] = int(code)
        elif "valid" in w:
            doc[(False, False)] = int(code)
        elif "error" in w:
            doc["error"] = int(code)
    if len(doc) != 5 or len(set(doc.values())) != 5:
        raise AnalysisError(f"exit codes not documented as expected: {doc}")

    def run_cli(result=None, exc=None, exists=True):
        """-> process exit code"""
        def sys_exit(code=0):
            raise ModelRaise("SystemExit", "exit", args=(code,))

        def check_dataset_(path):
            if exc is not None:
                raise ModelRaise(exc[0], "model", args=exc[1])
            return result
        check_dataset_.model_callable = True
        quiet = lambda *a, **k: None   # noqa: E731
        g = model.envs.fresh(
            CLI, sys=Namespace("sys", exit=sys_exit),
            check_dataset=check_dataset_,
            common=Namespace("common", print_info=quiet, print_alert=quiet,
                             print_violation=quiet),
            fmt_tdms=_ExcModule(),
            pathlib=Namespace("pathlib", Path=lambda p: p))
        path = Namespace("path", exists=lambda: exists,
                         resolve=lambda: path)
        model.interp.steps = 0
        try:
            Func(vd, g, model.interp)(path)
        except ModelRaise as e:
            if e.name == "SystemExit":
                c = e.model_args[0] if e.model_args else 0
                return 0 if c is None else c
            return f"1 (uncaught {e.name})"
        return "none (sys.exit not reached)"
    for (al, vi) in ((False, False), (True, False), (False, True),
                     (True, True)):
        got = run_cli(result=(["v"] if vi else [], ["a"] if al else [],
                              ["i"]))
        ok = got == doc[(al, vi)]
        ctx.ob("R13.2", ok,
               f"alerts={al}, violations={vi} -> exit code {got}" if ok
               else f"alerts={al}, violations={vi} -> exit code {got}, "
               f"documented {doc[(al, vi)]}", node=vd,
               key=f"{CLI}::verify_dataset::exit code alerts={al} "
               f"violations={vi}")
    # exceptions keep the error code, whatever their arguments are
    hnames = []
    for t in [n for n in walk(vd) if isinstance(n, ast.Try)]:
        for h in t.handlers:
            if h.type is not None:
                for e in (h.type.elts if isinstance(h.type, ast.Tuple)
                          else [h.type]):
                    nm = txt(e).split(".")[-1]
                    if nm not in ("BaseException", "Exception") \
                            and nm not in hnames:
                        hnames.append(nm)
    cases = [(nm, ("message",)) for nm in hnames] + [
        ("ValueError", ("bad value",)), ("KeyError", (5,)),
        ("OSError", (2, "No such file or directory")),
        ("RuntimeError", ()), ("OldFormatNotSupportedError", (b"bytes",))]
    bad = []
    for nm, args in cases:
        got = run_cli(exc=(nm, args))
        if got != doc["error"]:
            bad.append(f"{nm}{args!r} -> exit code {got}")
    ctx.ob("R13.2", not bad,
           f"all {len(cases)} modelled exceptions of check_dataset (string "
           f"and non-string arguments) exit with {doc['error']} (other "
           "error)" if not bad else "the exit code after an exception is "
           f"not the documented {doc['error']}: " + "; ".join(bad[:3]),
           node=vd, key=f"{CLI}::verify_dataset::exit code on exception")
    got = run_cli(exists=False)
    ok = got == doc["error"]
    ctx.ob("R13.2", ok, "a missing file exits with the error code" if ok
           else f"a missing file exits with {got}", node=vd,
           key=f"{CLI}::verify_dataset::early exit code", nontrivial=False)


class _ExcModule:
    """module stand-in whose attributes are (distinct) exception classes"""
    model_object = True

    def __init__(self):
        self.classes = {}

    def model_getattr(self, attr):
        if attr not in self.classes:
            self.classes[attr] = type(attr, (Exception,), {})
        return self.classes[attr]


def _falls_off(cfg):
    """True if the normal exit is reachable without passing a return"""
    return not cfg.must_pass(
        lambda n: isinstance(n.ast, (ast.Return, ast.Raise))
        and n.kind == "stmt",
        avoid_edge=lambda s, lab, d: lab == "x")


def _fold_levels(lv, call):
    if lv is None:
        raise AnalysisError(f"ICue without level: {short(call, 40)}")
    if const_str(lv):
        return {const_str(lv)}
    if isinstance(lv, ast.IfExp):
        return _fold_levels(lv.body, call) | _fold_levels(lv.orelse, call)
    if isinstance(lv, ast.Name):
        f = call
        while not isinstance(f, (ast.FunctionDef, ast.Module)):
            f = f.parent
        out = set()
        for n in walk(f):
            if isinstance(n, ast.Assign) and any(
                    isinstance(t, ast.Name) and t.id == lv.id
                    for t in n.targets):
                out |= _fold_levels(n.value, call)
        if out:
            return out
    raise AnalysisError(f"ICue level not foldable: {short(call, 50)}")


# ----------------------------------------------------------------------
# R13.3

FEATSETS = ["deform", "volume", "image", "mask", "trace", "fl1_max"]


def r133(ctx, repo, model):
    rm = repo.func(WR, "RTDCWriter.rectify_metadata")
    interp = model.interp
    g = model.envs.fresh(WR)
    writer = ClassModel(repo.cls(WR, "RTDCWriter"), g, interp,
                        strict_instances=True)
    fails = {"event count": [], "roi size": [], "samples per event": [],
             "channel count": []}
    written = set()
    n_sets = 0
    for r in range(1, len(FEATSETS) + 1):
        for combo in itertools.combinations(FEATSETS, r):
            n_sets += 1
            file = object()
            h5 = H5Group(file)
            ev = H5Group(file, "/events")
            h5["events"] = ev
            feats = {}
            for f in combo:
                if f == "trace":
                    ev[f] = H5Group(file, "/events/trace")
                    feats[f] = {}
                    for t in ("fl1_median", "fl1_raw"):
                        ev[f][t] = H5Dataset((N, SPE), file)
                        feats[f][t] = [NdArray.of([0.0] * SPE)] * N
                elif f in ("image", "mask"):
                    ev[f] = H5Dataset((N, H, W), file)
                    feats[f] = Arr(N, (H, W))
                else:
                    ev[f] = H5Dataset((N,), file)
                    feats[f] = Arr(N)
            me = writer.instance(h5file=h5, path="model.rtdc")
            interp.steps = 0
            try:
                Func(rm, g, interp)(me)
            except ModelRaise as e:
                fails["event count"].append(
                    (combo, f"rectify_metadata raises {e.name} when the "
                     "writer context is left"))
                continue
            written |= set(h5.attrs)
            model.rectified["+".join(combo)] = dict(h5.attrs)
            cfg = Cfg()
            for k, v in h5.attrs.items():
                sec, key = k.split(":")
                cfg[sec][key] = v
            if "fl1_max" in combo:
                cfg["fluorescence"]["channel 1 name"] = "FL1"
            if "event count" not in cfg["experiment"]:
                fails["event count"].append((combo, "not written"))
                continue
            if ("image" in combo or "mask" in combo) and not (
                    "roi size x" in cfg["imaging"]
                    and "roi size y" in cfg["imaging"]):
                fails["roi size"].append(
                    (combo, "[imaging] roi size x/y not written"))
            if "trace" in combo and "samples per event" not in cfg[
                    "fluorescence"]:
                fails["samples per event"].append((combo, "not written"))
            if "fl1_max" in combo and "channel count" not in cfg[
                    "fluorescence"]:
                fails["channel count"].append((combo, "not written"))
            ds = Ds("ds", feats=feats, config=cfg, _events=dict(feats),
                    features_innate=sorted(feats), features=sorted(feats),
                    format="hdf5", h5file=h5)
            for what, meth, need in (
                    ("event count", "check_feature_size", None),
                    ("roi size", "check_metadata_bad", None),
                    ("samples per event", "check_fl_samples_per_event",
                     "trace"),
                    ("channel count", "check_fl_num_channels", "fl1_max")):
                if need is not None and need not in combo:
                    continue
                if meth not in model.methods:
                    continue    # reported by R13.1
                try:
                    cues = model.run_method(meth, ds)
                except ModelRaise as e:
                    fails[what].append((combo, f"{meth} raises {e.name}"))
                    continue
                v = [c for c in cues if c.level == "violation"]
                if v:
                    fails[what].append((combo, v[0].msg))
    ctx.stat("R13.3 feature sets evaluated", n_sets)
    for what, bad in fails.items():
        ctx.ob("R13.3", not bad,
               f"{what}: what rectify_metadata derives satisfies the "
               f"checker for all {n_sets} model feature sets" if not bad
               else f"{what}: a file with the features "
               f"{'+'.join(max(bad, key=lambda b: len(b[0]))[0])} written "
               f"by RTDCWriter is flagged: "
               f"'{max(bad, key=lambda b: len(b[0]))[1]}' ({len(bad)} of "
               f"{n_sets} feature sets)",
               node=rm, key=f"{WR}::RTDCWriter.rectify_metadata::{what} "
               "agrees with the checker")
    # docstring law
    doc = ast.get_docstring(rm) or ""
    announced = set()
    for line in doc.splitlines():
        mm = re.match(r"\s*-\s*([a-z_]+):\s*([a-z ]+?)\s*(\(.*\))?\s*$",
                      line)
        if mm:
            announced.add(f"{mm.group(1)}:{mm.group(2)}")
    if len(announced) < 4:
        raise AnalysisError("rectify_metadata: docstring key list not "
                            "recognised")
    ok = announced == written
    ctx.ob("R13.3", ok, f"rectify_metadata writes exactly the "
           f"{len(announced)} keys its docstring announces" if ok else
           "rectify_metadata writes "
           f"{sorted(written - announced) or 'nothing extra'} beyond and "
           f"misses {sorted(announced - written) or 'nothing'} of the keys "
           "its docstring announces", node=rm,
           label="keys announced in the docstring")
    # __exit__ runs it: interpreted with recording stand-ins for
    # rectify_metadata / version_brand / close (helper methods followed)
    ex = repo.func(WR, "RTDCWriter.__exit__")
    for n_feat in (1, 3, 0):
        calls = []
        file = object()
        h5 = H5Group(file)
        if n_feat:
            h5["events"] = H5Group(file, "/events")
            for i in range(n_feat):
                h5["events"][f"f{i}"] = H5Dataset((N,), file)

        def mk(nm):
            def rec(*a, **k):
                calls.append(nm)
            rec.model_callable = True
            return rec
        me = writer.instance(h5file=h5, path="model.rtdc",
                             rectify_metadata=mk("rectify"),
                             version_brand=mk("brand"), close=mk("close"),
                             owns_path=True)
        interp.steps = 0
        try:
            Func(ex, g, interp)(me, None, None, None)
            err = None
        except ModelRaise as e:
            err = e.name
        want = 1 if n_feat else 0
        ok = err is None and calls.count("rectify") == want and (
            not want or "close" not in calls
            or calls.index("rectify") < calls.index("close"))
        ctx.ob("R13.3", ok,
               f"leaving the writer context with {n_feat} feature(s) "
               + ("rectifies the metadata before the file is closed"
                  if want else "does not fail on the empty file") if ok
               else f"leaving the writer context with {n_feat} feature(s): "
               + (f"raises {err}" if err else f"calls {calls}")
               + " - the writer context no longer rectifies the metadata of "
               "every file with events", node=ex,
               key=f"{WR}::RTDCWriter.__exit__::exit rectifies "
               f"({n_feat} features)")


class Img(Namespace):
    """image-like array stand-in: shape, dtype, reshape, [np.newaxis]"""

    def __init__(self, shape, dtype, clsname="ndarray"):
        super().__init__("array", shape=tuple(shape), dtype=dtype,
                         __class__=Namespace("cls", __name__=clsname))

    def reshape(self, *shape):
        if len(shape) == 1 and isinstance(shape[0], (tuple, list)):
            shape = tuple(shape[0])
        n = 1
        for x in shape:
            n *= x
        m = 1
        for x in self.shape:
            m *= x
        if n != m:
            raise ValueError("cannot reshape")
        return Img(shape, self.dtype)

    def __getitem__(self, i):
        if i is None:
            return Img((1,) + self.shape, self.dtype)
        raise AnalysisError("model: image indexing")

    def __mul__(self, o):
        return Img(self.shape, self.dtype)

    __rmul__ = __mul__

    def __len__(self):
        return self.shape[0]


def r133_images(ctx, repo, model):
    """a single 2-d image / mask is one event: both image writers hand a
    (1, H, W) array to write_ndarray on every path (boolean or not)"""
    interp = model.interp
    U8, F32 = "uint8", "float32"

    def asarray(a, dtype=None):
        return Img(a.shape, a.dtype if dtype is None else dtype)

    def atleast_2d(a):
        if isinstance(a, (list, tuple)):
            return Img((len(a),) + a[0].shape, a[0].dtype)
        return a
    g = {"np": Namespace("np", atleast_2d=atleast_2d, asarray=asarray,
                         array=asarray, newaxis=None, uint8=U8,
                         float32=F32, bytes_=lambda x: x,
                         expand_dims=lambda a, axis=0: Img(
                             (1,) + a.shape, a.dtype))}
    g = model.envs.fresh(WR, **g)
    writer = ClassModel(repo.cls(WR, "RTDCWriter"), g, interp,
                        strict_instances=True)
    cases = [("write_image_grayscale", "2-d boolean mask", (H, W), bool,
              {"is_boolean": True}),
             ("write_image_grayscale", "2-d uint8 mask", (H, W), U8,
              {"is_boolean": True}),
             ("write_image_grayscale", "2-d image", (H, W), U8,
              {"is_boolean": False}),
             ("write_image_grayscale", "3-d boolean masks", (N, H, W), bool,
              {"is_boolean": True}),
             ("write_image_grayscale", "3-d images", (N, H, W), U8,
              {"is_boolean": False}),
             ("write_image_float32", "2-d float image", (H, W), F32, {}),
             ("write_image_float32", "3-d float images", (N, H, W), F32,
              {})]
    for meth, label, shape, dtype, kw in cases:
        f = repo.func(WR, f"RTDCWriter.{meth}")
        got = []

        def write_ndarray(group=None, name=None, data=None, dtype=None):
            got.append(getattr(data, "shape", None))
            return Namespace("dset", attrs=Namespace(
                "attrs", create=lambda *a, **k: None))
        me = writer.instance(write_ndarray=write_ndarray)
        interp.steps = 0
        try:
            Func(f, g, interp)(me, Namespace("group"), "mask",
                               Img(shape, dtype), **kw)
            err = None
        except ModelRaise as e:
            err = e
        want = shape if len(shape) == 3 else (1,) + tuple(shape)
        ok = err is None and got == [want]
        ctx.ob("R13.3", ok,
               f"{meth}: a {label} {shape} is written as {want}" if ok else
               f"{meth}: a {label} of shape {shape} "
               + (f"raises {err.name}" if err else
                  f"is handed to write_ndarray as {got}") + f", expected "
               f"{want} (a single 2-d image is one event; otherwise the "
               "feature is stored with H times too many events and the "
               "writer's own file fails the integrity check)", node=f,
               key=f"{WR}::RTDCWriter.{meth}::{label}")


# ----------------------------------------------------------------------

_INPLACE = {"append", "extend", "insert", "update", "add", "setdefault",
            "pop", "remove", "clear", "sort", "reverse", "discard",
            "popitem", "__iadd__", "__setitem__"}
_FRESH_CALLS = {"list", "dict", "set", "sorted", "copy.deepcopy",
                "copy.copy", "deepcopy", "collections.OrderedDict",
                "OrderedDict", "collections.defaultdict", "defaultdict",
                "collections.Counter", "Counter", "bytearray"}
_IMMUTABLE_CALLS = {"len", "int", "float", "str", "bool", "tuple", "sum",
                    "min", "max", "abs", "round", "frozenset", "np.sum",
                    "repr", "any", "all"}


def r134(ctx, repo, model, pattern, chk):
    """every container a check method (or the collector) fills in place is
    created by that call: not an attribute of the checker / its class, not a
    module-level object, not a mutable default – otherwise the cues of one
    call are still there in the next"""
    tree = repo.tree(CHK)
    modnames = set()
    for st in tree.body:
        for t in (st.targets if isinstance(st, ast.Assign) else
                  [st.target] if isinstance(st, (ast.AnnAssign,
                                                 ast.AugAssign)) else []):
            modnames |= {n.id for n in ast.walk(t) if isinstance(n, ast.Name)}
        if isinstance(st, (ast.ClassDef, ast.FunctionDef)):
            modnames.add(st.name)
    targets = {n: f for n, f in model.methods.items()
               if n.startswith(pattern) or f is chk or n == "sanity_check"}
    if chk not in targets.values():
        targets["check"] = chk

    def analyse(name, f):
        params = {}
        a = f.args
        pos = a.posonlyargs + a.args
        for p, d in zip(pos[len(pos) - len(a.defaults):], a.defaults):
            params[p.arg] = d
        for p, d in zip(a.kwonlyargs, a.kw_defaults):
            params[p.arg] = d
        allparams = {p.arg for p in pos + a.kwonlyargs}
        for extra in (a.vararg, a.kwarg):
            if extra is not None:
                allparams.add(extra.arg)
        local_defs = {n.name for n in ast.walk(f) if isinstance(
            n, (ast.FunctionDef, ast.Lambda)) and n is not f
            and hasattr(n, "name")}
        origins = {}     # name -> [expr | "loop" | "unpack"]
        for n in ast.walk(f):
            if isinstance(n, ast.Assign):
                for t in n.targets:
                    if isinstance(t, ast.Name):
                        origins.setdefault(t.id, []).append(n.value)
                    else:
                        for x in ast.walk(t):
                            if isinstance(x, ast.Name) and isinstance(
                                    x.ctx, ast.Store):
                                origins.setdefault(x.id, []).append("unpack")
            elif isinstance(n, ast.AnnAssign) and isinstance(
                    n.target, ast.Name) and n.value is not None:
                origins.setdefault(n.target.id, []).append(n.value)
            elif isinstance(n, (ast.For, ast.comprehension)):
                for x in ast.walk(n.target):
                    if isinstance(x, ast.Name):
                        origins.setdefault(x.id, []).append("loop")
            elif isinstance(n, ast.withitem) and n.optional_vars is not None:
                for x in ast.walk(n.optional_vars):
                    if isinstance(x, ast.Name):
                        origins.setdefault(x.id, []).append("with")
            elif isinstance(n, ast.NamedExpr):
                origins.setdefault(n.target.id, []).append(n.value)

        def root(e):
            while isinstance(e, (ast.Attribute, ast.Subscript)):
                e = e.value
            return e

        def kind(e, seen=()):
            """'fresh' | 'immutable' | 'shared:<what>' | 'unknown'"""
            if isinstance(e, str):
                return "unknown"
            if isinstance(e, (ast.List, ast.ListComp, ast.Dict, ast.DictComp,
                              ast.Set, ast.SetComp)):
                return "fresh"
            if isinstance(e, (ast.Constant, ast.Tuple, ast.JoinedStr,
                              ast.Compare, ast.BoolOp, ast.UnaryOp)) \
                    and not isinstance(e, ast.BoolOp):
                return "immutable"
            if isinstance(e, ast.BoolOp):
                ks = {kind(v, seen) for v in e.values}
                sh = sorted(k for k in ks if k.startswith("shared"))
                if sh:
                    return sh[0]
                return ks.pop() if len(ks) == 1 else "unknown"
            if isinstance(e, ast.IfExp):
                ks = {kind(e.body, seen), kind(e.orelse, seen)}
                sh = sorted(k for k in ks if k.startswith("shared"))
                if sh:
                    return sh[0]
                return ks.pop() if len(ks) == 1 else "unknown"
            if isinstance(e, ast.BinOp):
                # a new object, whatever the operands are (list + list,
                # number arithmetic, string formatting)
                return "fresh"
            if isinstance(e, ast.Call):
                cn = call_name(e) or ""
                if cn in _FRESH_CALLS or cn.split(".")[-1] in (
                        "copy", "deepcopy", "tolist"):
                    return "fresh"
                if cn in _IMMUTABLE_CALLS:
                    return "immutable"
                fn = e.func
                if isinstance(fn, ast.Attribute) and isinstance(
                        fn.value, ast.Name) and fn.value.id in (
                        "self", "cls", model.cls.name) \
                        and fn.attr in targets:
                    return "fresh"      # decided for that method itself
                if isinstance(fn, ast.Name) and fn.id == "ICue":
                    return "fresh"
                return "unknown"
            if isinstance(e, (ast.Attribute, ast.Subscript)):
                r = root(e)
                if isinstance(r, ast.Name):
                    if r.id in ("self", "cls", model.cls.name):
                        return f"shared:`{short(e, 40)}` (state of the " \
                               "checker, lives across calls)"
                    if r.id not in origins and r.id not in allparams and \
                            r.id in modnames:
                        return f"shared:`{short(e, 40)}` (module-level " \
                               "object)"
                return "unknown"
            if isinstance(e, ast.Name):
                if e.id in seen:
                    return "unknown"
                if e.id in origins:
                    ks = {kind(o, seen + (e.id,)) for o in origins[e.id]}
                    sh = sorted(k for k in ks if k.startswith("shared"))
                    if sh:
                        return sh[0]
                    return ks.pop() if len(ks) == 1 else "unknown"
                if e.id in allparams:
                    d = params.get(e.id)
                    if d is not None and kind(d) == "fresh":
                        return f"shared:`{e.id}={short(d, 20)}` (mutable " \
                               "default, created once)"
                    return "unknown"
                if e.id in modnames and e.id not in local_defs:
                    return f"shared:`{e.id}` (module-level object)"
                return "unknown"
            return "unknown"
        returned = set()
        for n in ast.walk(f):
            if isinstance(n, ast.Return) and n.value is not None:
                returned |= {x.id for x in ast.walk(n.value)
                             if isinstance(x, ast.Name)}
        ret_txt = [txt(n.value) for n in ast.walk(f) if isinstance(
            n, ast.Return) and n.value is not None]
        bad, unknown, n_acc = [], [], 0
        for n in ast.walk(f):
            recv = None
            if isinstance(n, ast.AugAssign):
                recv = n.target
            elif isinstance(n, ast.Call) and isinstance(
                    n.func, ast.Attribute) and n.func.attr in _INPLACE:
                recv = n.func.value
            elif isinstance(n, (ast.Assign, ast.Delete)):
                for t in n.targets:
                    if isinstance(t, ast.Subscript):
                        recv = t.value
            if recv is None:
                continue
            k = kind(recv)
            if k in ("fresh",):
                n_acc += 1
            elif k.startswith("shared"):
                # an alias of the state, or the state itself when it is
                # what the method returns
                if isinstance(recv, ast.Name) or any(
                        txt(recv) in r for r in ret_txt):
                    bad.append((n, recv, k[len("shared:"):]))
            elif k == "unknown" and isinstance(recv, ast.Name) \
                    and recv.id in returned:
                unknown.append(recv.id)
        return bad, unknown, n_acc
    n_total = 0
    for name in sorted(targets):
        f = targets[name]
        bad, unknown, n_acc = analyse(name, f)
        if unknown and not bad:
            raise AnalysisError(
                f"R13.4: origin of the accumulator `{unknown[0]}` of "
                f"IntegrityChecker.{name} not recognised")
        n_total += n_acc
        if bad:
            n, recv, what = bad[0]
            msg = (f"{name}: `{short(n, 40)}` fills {what} in place – the "
                   "cues / entries of one call are still there in the next "
                   "(a second check reports them again, a repaired dataset "
                   "keeps its stale violations)")
        else:
            msg = (f"{name}: every container filled in place is created by "
                   "the call")
        ctx.ob("R13.4", not bad, msg, node=bad[0][0] if bad else f,
               key=f"{CHK}::IntegrityChecker.{name}::accumulator per call")
    ctx.stat("R13.4 in-place operations on per-call containers", n_total)


def _guard(rid, fn, *args):
    """an unrecognised shape must surface as a named analysis error, never
    as a traceback"""
    import traceback
    try:
        return fn(*args)
    except AnalysisError:
        raise
    except ModelRaise as e:
        raise AnalysisError(f"{rid}: interpreted code raises {e} outside a "
                            "modelled scenario")
    except Exception as e:
        tb = traceback.extract_tb(e.__traceback__)
        mine = [f for f in tb if f.filename.endswith(("C13.py",
                                                      "lib_C11.py"))]
        at = f"{mine[-1].name}:{mine[-1].lineno}" if mine else "?"
        raise AnalysisError(
            f"{rid}: unrecognised code shape ({type(e).__name__}: {e}) in "
            f"{fn.__name__} at {at}")


def run(ctx):
    repo = ctx.repo
    ctx.rule("R13.1", "each of the ten inconsistency classes, seeded into "
             "the model dataset, is reported as a violation by a collected "
             "check; the consistent model dataset is accepted; mandatory "
             "keys are defined and not optional", minimum=140)
    ctx.rule("R13.2", "collector runs every check_* once without early "
             "exit; checks return lists; levels known to ordering and "
             "routing; CLI exit codes as documented", minimum=40)
    ctx.rule("R13.3", "metadata derived by rectify_metadata satisfy the "
             "checker on every model feature set; docstring keys; run on "
             "exit", minimum=8)
    ctx.rule("R13.4", "the verdict is a function of the dataset: check() "
             "called twice on one checker returns the same cues (model "
             "class dictionary); every container a check method fills in "
             "place is created by that call", minimum=28)
    model = _guard("model", Model, repo)
    pattern, chk = collector_pattern(repo)
    sets = _guard("R13.2", collected_sets, model, chk)
    _guard("R13.1", r131, ctx, repo, model, pattern, sets)
    _guard("R13.2", r132, ctx, repo, model, pattern, chk)
    _guard("R13.4", r134, ctx, repo, model, pattern, chk)
    _guard("R13.3", r133, ctx, repo, model)
    _guard("R13.3", r133_images, ctx, repo, model)
    ctx.model = model
    ctx.sets = sets


def crossval(ctx):
    """thorough: the folded tables, the set of collected checks and the
    modelled rectify_metadata are compared with the imported package (the
    real writer on five small files) – validates the model, decides
    nothing"""
    import json
    import os
    import subprocess
    model = ctx.model
    mine = {
        "important": model.globs["IMPORTANT_KEYS"],
        "important_fl": model.globs["IMPORTANT_KEYS_FL"],
        "optional": model.globs["OPTIONAL_KEYS"],
        "config_keys": model.cfgkeys,
        "collected_nofl": sorted(ctx.sets[0]),
        "collected_fl": sorted(ctx.sets[1]),
    }
    combos = ["deform", "deform+image", "volume+mask", "volume+trace",
              "deform+trace+fl1_max"]
    code = r"""
import json, sys, tempfile, pathlib, warnings
import numpy as np, h5py
import dclab
from dclab.rtdc_dataset import check as ck
from dclab import definitions as dfn
warnings.simplefilter("ignore")
N, H, W, SPE = %d, %d, %d, %d
names = sorted(n for n in ck.IntegrityChecker.__dict__
               if n.startswith("check_"))
out = {"important": ck.IMPORTANT_KEYS, "important_fl": ck.IMPORTANT_KEYS_FL,
       "optional": ck.OPTIONAL_KEYS,
       "config_keys": {k: list(v) for k, v in dfn.config_keys.items()},
       "collected_fl": names,
       "collected_nofl": [n for n in names if not n.startswith("check_fl_")]}
rect = {}
with tempfile.TemporaryDirectory() as td:
    for combo in json.load(sys.stdin):
        p = pathlib.Path(td) / (combo.replace("+", "_") + ".rtdc")
        with dclab.RTDCWriter(p) as hw:
            for f in combo.split("+"):
                if f == "trace":
                    hw.store_feature("trace", {
                        "fl1_median": np.zeros((N, SPE), dtype=np.int16),
                        "fl1_raw": np.zeros((N, SPE), dtype=np.int16)})
                elif f == "image":
                    hw.store_feature(f, np.zeros((N, H, W), dtype=np.uint8))
                elif f == "mask":
                    hw.store_feature(f, np.zeros((N, H, W), dtype=bool))
                else:
                    hw.store_feature(f, np.linspace(1, 2, N))
        with h5py.File(p) as h5:
            rect[combo] = {k: int(v) for k, v in h5.attrs.items()
                           if k != "setup:software version"}
out["rect"] = rect
print(json.dumps(out))
""" % (N, H, W, SPE)
    env = dict(os.environ)
    env["PYTHONPATH"] = str(ctx.repo.root)
    try:
        r = subprocess.run(["/venv/bin/python", "-W", "ignore", "-c", code],
                           input=json.dumps(combos), capture_output=True,
                           text=True, timeout=180, cwd="/tmp", env=env)
        real = json.loads(r.stdout.strip().splitlines()[-1])
    except Exception as e:
        return {"status": "skipped", "reason": str(e)[:200]}
    for k, v in mine.items():
        if real[k] != v:
            raise AnalysisError(f"folded `{k}` disagrees with the imported "
                                "package")
    for c in combos:
        m = {k: int(v) for k, v in model.rectified[c].items()}
        if real["rect"][c] != m:
            raise AnalysisError(
                f"modelled rectify_metadata disagrees with the real writer "
                f"for {c}: model {m}, real {real['rect'][c]}")
    return {"status": "agrees", "tables": len(mine),
            "collected_checks": len(mine["collected_fl"]),
            "writer_files_compared": len(combos)}


MUTANTS = [
    # ---- R13.1
    ("feature size: only longer features flagged", CHK,
     ("                if len(self.ds[feat]) != lends:",
      "                if len(self.ds[feat]) > lends:"), "R13.1"),
    ("feature size: trace compared with <", CHK,
     ('                    if len(self.ds["trace"][tr]) != lends:',
      '                    if len(self.ds["trace"][tr]) < lends:'), "R13.1"),
    ("feature size demoted to alert", CHK,
     ('                        level="violation",\n'
      '                        category="feature size"))',
      '                        level="alert",\n'
      '                        category="feature size"))'), "R13.1"),
    ("roi: axis off by one", CHK,
     ("                        soll = self.ds[feat].shape[ii+1]",
      "                        soll = self.ds[feat].shape[ii]"), "R13.1"),
    ("roi: x and y exchanged", CHK,
     ('            for ii, roi in enumerate(["roi size y", "roi size x"]):',
      '            for ii, roi in enumerate(["roi size x", "roi size y"]):'),
     "R13.1"),
    ("roi: mask not compared", CHK,
     ('                for feat in ["image", "image_bg", "mask"]:\n'
      '                    if feat in self.ds:',
      '                for feat in ["image", "image_bg"]:\n'
      '                    if feat in self.ds:'), "R13.1"),
    ("roi: mismatch demoted", CHK,
     ('                                level="violation",\n'
      '                                category="metadata wrong",\n'
      '                                cfg_section="imaging",',
      '                                level="alert",\n'
      '                                category="metadata wrong",\n'
      '                                cfg_section="imaging",'), "R13.1"),
    ("unknown features: ignore test inverted", CHK,
     ("                    if feat in ignore_unknown_features:",
      "                    if feat not in ignore_unknown_features:"),
     "R13.1"),
    ("unknown features: check renamed out of the pattern", CHK,
     ("    def check_features_unknown_hdf5(self, **kwargs):",
      "    def features_unknown_hdf5_check(self, **kwargs):"), "R13.1"),
    ("unknown features: runs for fluorescence data only", CHK,
     ("    def check_features_unknown_hdf5(self, **kwargs):",
      "    def check_fl_features_unknown_hdf5(self, **kwargs):"), "R13.1"),
    ("missing important key is an alert", CHK,
     ('                            level = "violation"\n',
      '                            level = "alert"\n'), "R13.1"),
    ("important key listed as optional", CHK,
     ('        "run identifier",\n        "timestamp",\n',
      '        "run identifier",\n        "timestamp",\n        "date",\n'),
     "R13.1"),
    ("important key misspelled", CHK,
     ('        "flash duration",', '        "flash-duration",'), "R13.1"),
    ("missing section: levels exchanged", CHK,
     ('level="violation" if sec in important else "alert"',
      'level="alert" if sec in important else "violation"'), "R13.1"),
    ("fluorescence keys never mandatory", CHK,
     ("        if self.has_fluorescence:\n"
      "            important.update(IMPORTANT_KEYS_FL)\n", ""), "R13.1"),
    ("index compared with 0..n-1", CHK,
     ('np.all(self.ds["index"] == np.arange(1, lends + 1))',
      'np.all(self.ds["index"] == np.arange(lends))'), "R13.1"),
    ("index: range one short", CHK,
     ('np.all(self.ds["index"] == np.arange(1, lends + 1))',
      'np.all(self.ds["index"][:-1] == np.arange(1, lends))'), "R13.1"),
    ("index demoted", CHK,
     ('                    msg="The index feature is not enumerated '
      'correctly",\n                    level="violation"',
      '                    msg="The index feature is not enumerated '
      'correctly",\n                    level="alert"'), "R13.1"),
    ("channel count: only too few flagged", CHK,
     ("            if chc1 != chc2:", "            if chc1 < chc2:"), "R13.1"),
    ("laser count: only too many flagged", CHK,
     ("            if lsc1 != lsc2:", "            if lsc1 > lsc2:"), "R13.1"),
    ("samples per event: only longer traces flagged", CHK,
     ("                    if spek != spe:", "                    if spek > spe:"),
     "R13.1"),
    ("samples per event measured along the events", CHK,
     ('                    spek = self.ds["trace"][key][0].size',
      '                    spek = len(self.ds["trace"][key])'), "R13.1"),
    ("external link demoted", CHK,
     ("                        f\"link: '{h5object}'\",\n"
      '                    level="violation"',
      "                        f\"link: '{h5object}'\",\n"
      '                    level="alert"'), "R13.1"),
    ("external links: no recursion into groups", CHK,
     ("            has_ext, path_ext = hdf5_has_external(obj)\n"
      "            if has_ext:", "            has_ext, path_ext = "
      "hdf5_has_external(obj)\n            if False:"), "R13.1"),
    ("external links: virtual datasets accepted", CHK,
     ("                    and (obj.is_virtual  # virtual dataset\n"
      "                         or obj.external))):  # external dataset",
      "                    and obj.external)):  # external dataset"),
     "R13.1"),
    ("external links: same-file test inverted", CHK,
     ("        if (obj.file != h5.file  # not in same file",
      "        if (obj.file == h5.file  # not in same file"), "R13.1"),
    ("zero accepted as set-up value", CHK,
     ("            if value is not None and value <= 0:",
      "            if value is not None and value < 0:"), "R13.1"),
    ("non-positive value demoted", CHK,
     ("                        + f\"'{value}'!\",\n"
      '                    level="violation"',
      "                        + f\"'{value}'!\",\n"
      '                    level="alert"'), "R13.1"),
    # ---- R13.2
    ("collector keeps only the last check", CHK,
     ("                cues += funcs[ff](self, **kwargs)",
      "                cues = funcs[ff](self, **kwargs)"), "R13.2"),
    ("collector stops after the first cue", CHK,
     ("                cues += funcs[ff](self, **kwargs)\n",
      "                cues += funcs[ff](self, **kwargs)\n"
      "                if cues:\n                    break\n"), "R13.2"),
    ("collector drops the keyword arguments", CHK,
     ("                cues += funcs[ff](self, **kwargs)",
      "                cues += funcs[ff](self)"), "R13.2"),
    ("fluorescence skip inverted", CHK,
     ('            if ff.startswith("check_fl_") and not '
      'self.has_fluorescence:',
      '            if ff.startswith("check_fl_") and self.has_fluorescence:'),
     "R13.2"),
    ("warning cues dropped", CHK,
     ("        return sorted(self.warn_cues + cues)",
      "        return sorted(cues)"), "R13.2"),
    ("collector pattern narrowed", CHK,
     ('            elif ff.startswith("check_"):',
      '            elif ff.startswith("check_f"):'), "R13.2"),
    ("a check falls off the end", CHK,
     ('                category="feature data"))\n        return cues\n\n'
      '    def check_external_links',
      '                category="feature data"))\n\n'
      '    def check_external_links'), "R13.2"),
    ("a check returns early without a list", CHK,
     ('        cues = []\n        lends = len(self.ds)\n'
      '        if "index" in self.ds:',
      '        cues = []\n        lends = len(self.ds)\n'
      '        if lends == 0:\n            return\n'
      '        if "index" in self.ds:'), "R13.2"),
    ("ordering does not know alerts", CHK,
     ('                  "violation": 1,\n                  "alert": 2, }',
      '                  "violation": 1, }'), "R13.2"),
    ("alerts routed into the violations", CHK,
     ("                aler.append(cue.msg)",
      "                viol.append(cue.msg)"), "R13.2"),
    ("check_dataset return order", CHK,
     ("    return sorted(viol), sorted(aler), sorted(info)",
      "    return sorted(aler), sorted(viol), sorted(info)"), "R13.2"),
    ("violations not collected by check_dataset", CHK,
     ('            elif cue.level == "violation":\n'
      '                viol.append(cue.msg)\n', ""), "R13.2"),
    ("CLI: any finding gives code 3", CLI,
     ("        if aler and viol:", "        if aler or viol:"), "R13.2"),
    ("CLI: codes 1 and 2 exchanged", CLI,
     ("        elif aler:\n            exit_status = 1\n"
      "        elif viol:\n            exit_status = 2",
      "        elif aler:\n            exit_status = 2\n"
      "        elif viol:\n            exit_status = 1"), "R13.2"),
    ("CLI: exceptions exit with success", CLI,
     ("    exit_status = 4\n", "    exit_status = 0\n"), "R13.2"),
    ("CLI: result unpacked in the wrong order", CLI,
     ("        viol, aler, info = check_dataset(path_in)",
      "        aler, viol, info = check_dataset(path_in)"), "R13.2"),
    ("CLI: violations alone are a success", CLI,
     ("        elif viol:\n            exit_status = 2\n", ""), "R13.2"),
    # ---- R13.3
    ("event count from the trace group (repaired defect returns)", WR,
     ('            if feats[0] == "trace" and len(feat0):',
      '            if False:'), "R13.3"),
    ("event count from the last feature", WR,
     ('            feat0 = self.h5file["events"][feats[0]]',
      '            feat0 = self.h5file["events"][feats[-1]]'), "R13.3"),
    ("roi size x from the image height", WR,
     ('            self.h5file.attrs["imaging:roi size x"] = shape[1]',
      '            self.h5file.attrs["imaging:roi size x"] = shape[0]'),
     "R13.3"),
    ("roi from the stack shape", WR,
     ('            shape = self.h5file["events"]["image"][0].shape',
      '            shape = self.h5file["events"]["image"].shape'), "R13.3"),
    ("roi not derived from the mask", WR,
     ('            shape = self.h5file["events"]["mask"][0].shape',
      '            shape = None'), "R13.3"),
    ("samples per event from the event axis", WR,
     ('[traces[0]].shape[1]', '[traces[0]].shape[0]'), "R13.3"),
    ("channel count never written", WR,
     ('                self.h5file.attrs["fluorescence:channel count"] = '
      'chcount', '                pass'), "R13.3"),
    ("metadata not rectified on exit", WR,
     ("                self.rectify_metadata()\n", "                pass\n"),
     "R13.3"),
]

TWINS = [
    ("feature size via negated equality", CHK,
     ("                if len(self.ds[feat]) != lends:",
      "                if not len(self.ds[feat]) == lends:")),
    ("collector iterates the dict directly", CHK,
     ("        for ff in sorted(funcs.keys()):",
      "        for ff in sorted(funcs):")),
    ("CLI code computed from flags", CLI,
     ("        if aler and viol:\n            exit_status = 3\n"
      "        elif aler:\n            exit_status = 1\n"
      "        elif viol:\n            exit_status = 2\n"
      "        else:\n            # everything is ok\n"
      "            exit_status = 0\n",
      "        exit_status = (1 if aler else 0) + (2 if viol else 0)\n")),
    ("non-positive test negated", CHK,
     ("            if value is not None and value <= 0:",
      "            if value is not None and not value > 0:")),
    ("roi sizes through an unpacked tuple", WR,
     ('            self.h5file.attrs["imaging:roi size x"] = shape[1]\n'
      '            self.h5file.attrs["imaging:roi size y"] = shape[0]\n',
      '            size_y, size_x = shape[0], shape[1]\n'
      '            self.h5file.attrs["imaging:roi size x"] = size_x\n'
      '            self.h5file.attrs["imaging:roi size y"] = size_y\n')),
    ("hdf5_has_external without for-else", CHK,
     ("    else:\n        return False, None",
      "    return False, None")),
    ("check_dataset routes through a dict", CHK,
     ('            if cue.level == "info":\n'
      '                info.append(cue.msg)\n'
      '            elif cue.level == "alert":\n'
      '                aler.append(cue.msg)\n'
      '            elif cue.level == "violation":\n'
      '                viol.append(cue.msg)\n',
      '            {"info": info, "alert": aler,\n'
      '             "violation": viol}[cue.level].append(cue.msg)\n')),
    ("index check with an explicit range", CHK,
     ('np.all(self.ds["index"] == np.arange(1, lends + 1))',
      'np.all(self.ds["index"] == np.arange(lends) + 1)')),
]

# seeded changes (each passed the pinned suite)
MUTANTS = list(MUTANTS) + [
    ("has_fluorescence forgets channel 3", CHK,
     ('                or "fl2_max" in self.ds\n'
      '                or "fl3_max" in self.ds):',
      '                or "fl2_max" in self.ds):'), "R13"),
    ("has_fluorescence refactored with range(1, 3)", CHK,
     ('        if ("fluorescence" in self.ds\n'
      '                or "fl1_max" in self.ds\n'
      '                or "fl2_max" in self.ds\n'
      '                or "fl3_max" in self.ds):\n'
      '            fl = True\n        else:\n            fl = False\n'
      '        return fl\n',
      '        return ("fluorescence" in self.ds\n'
      '                or any(f"fl{ii}_max" in self.ds '
      'for ii in range(1, 3)))\n'), "R13"),
    ("laser counted by its wavelength instead of its power", CHK,
     ('                        self.ds.config["fluorescence"][kp] != 0):',
      '                        self.ds.config["fluorescence"][kl] != 0):'),
     "R13.1"),
    ("laser counted without a power key", CHK,
     ('                if (kl in self.ds.config["fluorescence"] and\n'
      '                        kp in self.ds.config["fluorescence"] and\n'
      '                        self.ds.config["fluorescence"][kp] != 0):',
      '                if (kl in self.ds.config["fluorescence"] and\n'
      '                        self.ds.config["fluorescence"].get(kp) '
      '!= 0):'), "R13.1"),
    ("switched-off lasers counted", CHK,
     ('                        kp in self.ds.config["fluorescence"] and\n'
      '                        self.ds.config["fluorescence"][kp] != 0):',
      '                        kp in self.ds.config["fluorescence"]):'),
     "R13.1"),
]
TWINS = list(TWINS) + [
    ("has_fluorescence refactored with range(1, 4)", CHK,
     ('        if ("fluorescence" in self.ds\n'
      '                or "fl1_max" in self.ds\n'
      '                or "fl2_max" in self.ds\n'
      '                or "fl3_max" in self.ds):\n'
      '            fl = True\n        else:\n            fl = False\n'
      '        return fl\n',
      '        return ("fluorescence" in self.ds\n'
      '                or any(f"fl{ii}_max" in self.ds '
      'for ii in range(1, 4)))\n')),
    ("laser power looked up with a default", CHK,
     ('                        kp in self.ds.config["fluorescence"] and\n'
      '                        self.ds.config["fluorescence"][kp] != 0):',
      '                        self.ds.config["fluorescence"].get(kp, 0) '
      '!= 0):')),
]

# behaviour-preserving maintenance refactoring (reduced)
TWINS = list(TWINS) + [
    ("cue comparison key moved into a private static method", CHK,
     [('    def __eq__(self, other):\n'
       '        leveld = {"info": 0,\n'
       '                  "violation": 1,\n'
       '                  "alert": 2,\n'
       '                  }\n'
       '        return ((leveld[self.level], self.cfg_section or "",\n'
       '                 self.cfg_key or "", self.category, self.msg) ==\n'
       '                (leveld[other.level], other.cfg_section or "",\n'
       '                 other.cfg_key or "", other.category, other.msg))\n',
       '    @staticmethod\n'
       '    def _sort_key(cue):\n'
       '        leveld = {"info": 0,\n'
       '                  "violation": 1,\n'
       '                  "alert": 2,\n'
       '                  }\n'
       '        return (leveld[cue.level], cue.cfg_section or "",\n'
       '                cue.cfg_key or "", cue.category, cue.msg)\n\n'
       '    def __eq__(self, other):\n'
       '        return ICue._sort_key(self) == ICue._sort_key(other)\n'),
      ('        leveld = {"info": 0,\n'
       '                  "violation": 1,\n'
       '                  "alert": 2, }\n'
       '        return ((leveld[self.level], self.cfg_section or "",\n'
       '                 self.cfg_key or "", self.category, self.msg) <\n'
       '                (leveld[other.level], other.cfg_section or "",\n'
       '                 other.cfg_key or "", other.category, other.msg))\n',
       '        return ICue._sort_key(self) < ICue._sort_key(other)\n')]),
    ("collector loop body moved into a helper method", CHK,
     ('            elif ff.startswith("check_"):\n'
      '                cues += funcs[ff](self, **kwargs)\n'
      '        return sorted(self.warn_cues + cues)\n',
      '            elif ff.startswith("check_"):\n'
      '                cues += self._run_one(funcs[ff], **kwargs)\n'
      '        return sorted(self.warn_cues + cues)\n\n'
      '    def _run_one(self, func, **kwargs):\n'
      '        return func(self, **kwargs)\n')),
]

# round-2 seeded changes
MUTANTS = list(MUTANTS) + [
    ("index only checked for consecutive values (np.diff)", CHK,
     ('            if not np.all(self.ds["index"] == np.arange(1, lends + 1)):',
      '            if not np.all(np.diff(self.ds["index"]) == 1):'), "R13.1"),
    ("index only checked for its first value", CHK,
     ('            if not np.all(self.ds["index"] == np.arange(1, lends + 1)):',
      '            if not self.ds["index"][0] == 1:'), "R13.1"),
    ("ignore list of unknown features became a plain string", CHK,
     ('        ignore_unknown_features = [\n'
      '            "def",  # An old Shape-In version stored "def" instead of '
      '"deform"\n            ]',
      '        ignore_unknown_features = (\n'
      '            "def"  # An old Shape-In version stored "def"\n'
      '        )'), "R13.1"),
    ("unknown features ignored by prefix", CHK,
     ("                    if feat in ignore_unknown_features:",
      "                    if feat.startswith(tuple(ignore_unknown_features"
      ")):"), "R13.1"),
    ("roi size derived from image / image_bg only", WR,
     ('        if "image" in feats:\n'
      '            shape = self.h5file["events"]["image"][0].shape\n'
      '        elif "mask" in feats:\n'
      '            shape = self.h5file["events"]["mask"][0].shape\n'
      '        else:\n            shape = None\n',
      '        for imfeat in ["image", "image_bg"]:\n'
      '            if imfeat in feats:\n'
      '                shape = self.h5file["events"][imfeat][0].shape\n'
      '                break\n'
      '        else:\n            shape = None\n'), "R13.3"),
]
TWINS = list(TWINS) + [
    ("ignore list of unknown features as a tuple", CHK,
     ('        ignore_unknown_features = [\n'
      '            "def",  # An old Shape-In version stored "def" instead of '
      '"deform"\n            ]',
      '        ignore_unknown_features = (\n'
      '            "def",  # An old Shape-In version stored "def"\n'
      '        )')),
    ("index compared element-wise after a difference", CHK,
     ('            if not np.all(self.ds["index"] == np.arange(1, lends + 1)):',
      '            if not np.all(self.ds["index"] - np.arange(lends) == 1):')),
    ("roi size via a loop over image and mask", WR,
     ('        if "image" in feats:\n'
      '            shape = self.h5file["events"]["image"][0].shape\n'
      '        elif "mask" in feats:\n'
      '            shape = self.h5file["events"]["mask"][0].shape\n'
      '        else:\n            shape = None\n',
      '        for imfeat in ["image", "mask"]:\n'
      '            if imfeat in feats:\n'
      '                shape = self.h5file["events"][imfeat][0].shape\n'
      '                break\n'
      '        else:\n            shape = None\n')),
]

# round-3 seeded changes
MUTANTS = list(MUTANTS) + [
    ("ml_score names matched by prefix only", FL,
     ('            and len(name) == len("ml_score_???")\n', ""), "R13.1"),
    ("ml_score pattern as an unanchored regular expression", FL,
     [("from . import feat_const\n",
       "import re\n\nfrom . import feat_const\n\n"
       "ML_SCORE_REGEXP = re.compile(\"^ml_score_[0-9a-z]{3}\")\n"),
      ('        if (name.startswith("ml_score_")\n'
       '            and len(name) == len("ml_score_???")\n'
       '            and name[-3] in valid_chars\n'
       '            and name[-2] in valid_chars\n'
       '                and name[-1] in valid_chars):',
       '        if ML_SCORE_REGEXP.match(name):')], "R13.1"),
    ("ml_score accepts upper-case characters", FL,
     ('        valid_chars = "0123456789abcdefghijklmnopqrstuvwxyz"',
      '        valid_chars = "0123456789abcdefghijklmnopqrstuvwxyz"'
      '.upper() + "abcdefghijklmnopqrstuvwxyz"'), "R13.1"),
    ("checker opens the file with basins enabled", CHK,
     ("                self.ds = load_file(path_or_ds, enable_basins=False)",
      "                self.ds = load_file(path_or_ds)"), "R13.2"),
    ("checker explicitly enables basins", CHK,
     ("                self.ds = load_file(path_or_ds, enable_basins=False)",
      "                self.ds = load_file(path_or_ds, enable_basins=True)"),
     "R13.2"),
    ("2-d promotion only for non-boolean images", WR,
     [("        if len(data.shape) == 2:\n"
       "            # put single event in 3D array\n"
       "            data = data.reshape(1, data.shape[0], data.shape[1])\n\n"
       "        if is_boolean:", "        if is_boolean:"),
      ("                data = np.asarray(data, dtype=np.uint8) * 255\n",
       "                data = np.asarray(data, dtype=np.uint8) * 255\n"
       "        elif len(data.shape) == 2:\n"
       "            data = data.reshape(1, data.shape[0], data.shape[1])\n")],
     "R13.3"),
    ("float image: 2-d promotion dropped", WR,
     ("        if len(data.shape) == 2:\n"
      "            # put single event in 3D array\n"
      "            data = data[np.newaxis]\n", ""), "R13.3"),
    ("2-d promotion with exchanged axes", WR,
     ("            data = data.reshape(1, data.shape[0], data.shape[1])",
      "            data = data.reshape(data.shape[0], 1, data.shape[1])"),
     "R13.3"),
]
TWINS = list(TWINS) + [
    ("ml_score pattern as an anchored regular expression", FL,
     [("from . import feat_const\n",
       "import re\n\nfrom . import feat_const\n\n"
       "ML_SCORE_REGEXP = re.compile(\"ml_score_[0-9a-z]{3}\")\n"),
      ('        if (name.startswith("ml_score_")\n'
       '            and len(name) == len("ml_score_???")\n'
       '            and name[-3] in valid_chars\n'
       '            and name[-2] in valid_chars\n'
       '                and name[-1] in valid_chars):',
       '        if ML_SCORE_REGEXP.fullmatch(name):')]),
    ("checker passes the basin switch through a dict", CHK,
     ("                self.ds = load_file(path_or_ds, enable_basins=False)",
      "                kw = dict(enable_basins=False)\n"
      "                self.ds = load_file(path_or_ds, **kw)")),
    ("2-d promotion via np.newaxis in the grayscale writer", WR,
     ("            data = data.reshape(1, data.shape[0], data.shape[1])",
      "            data = data[np.newaxis]")),
    ("writer gains an argument-free instance attribute used on close", WR,
     [("        self._group_sizes = {}\n",
       "        self._group_sizes = {}\n        self._pending = set()\n"),
      ("        # ignore empty features in the checks further below\n",
       "        for name in sorted(self._pending):\n"
       "            pass\n        self._pending.clear()\n"
       "        # ignore empty features in the checks further below\n")]),
]

# round-3 refactoring (reduced): a check returns the list of a helper
TWINS = list(TWINS) + [
    ("check delegates to a same-class helper that returns the list", CHK,
     ('    def check_empty(self, **kwargs):\n'
      '        """The dataset should contain events"""\n'
      '        cues = []\n',
      '    def check_empty(self, **kwargs):\n'
      '        """The dataset should contain events"""\n'
      '        return self._cues_empty()\n\n'
      '    def _cues_empty(self):\n'
      '        cues = []\n')),
]
MUTANTS = list(MUTANTS) + [
    ("check delegates to a helper that forgets to return", CHK,
     [('    def check_empty(self, **kwargs):\n'
       '        """The dataset should contain events"""\n'
       '        cues = []\n',
       '    def check_empty(self, **kwargs):\n'
       '        """The dataset should contain events"""\n'
       '        return self._cues_empty()\n\n'
       '    def _cues_empty(self):\n'
       '        cues = []\n'),
      ('                category="feature data"))\n        return cues\n\n'
       '    def check_external_links',
       '                category="feature data"))\n\n'
       '    def check_external_links')], "R13.2"),
]

# keeps its footing: raw-mask shortcut tested with hasattr (the breaking part
# of that seeded change lives in feat_basin and is C02's matter)
TWINS = list(TWINS) + [
    ("raw-mask shortcut tested with hasattr", WR,
     ('            if data.__class__.__name__ == "H5MaskEvent":',
      '            if hasattr(data, "h5dataset"):')),
]

# round-4 seeded changes
MUTANTS = list(MUTANTS) + [
    ("reader hides zero-length feature datasets", EVT,
     ('                features.remove("trace")\n',
      '                features.remove("trace")\n'
      '            for feat in list(features):\n'
      '                shape = getattr(self.h5file["events"][feat], '
      '"shape", None)\n'
      '                if shape and shape[0] == 0:\n'
      '                    features.remove(feat)\n'), "R13.1"),
    ("reader keeps the empty trace group", EVT,
     ('            if ("trace" in features\n'
      '                    and len(self.h5file["events"]["trace"]) == 0):\n'
      '                features.remove("trace")\n', ""), "R13.1"),
    ("ROI compared with the first image-like feature only", CHK,
     ('                                cfg_section="imaging",\n'
      '                                cfg_key=roi))\n        return cues',
      '                                cfg_section="imaging",\n'
      '                                cfg_key=roi))\n'
      '                        break\n        return cues'), "R13.1"),
]
TWINS = list(TWINS) + [
    ("ROI mismatch reported once per key and feature (break after cue)",
     CHK,
     ('                                cfg_section="imaging",\n'
      '                                cfg_key=roi))\n        return cues',
      '                                cfg_section="imaging",\n'
      '                                cfg_key=roi))\n'
      '                            continue\n        return cues')),
    ("reader builds the feature list with a comprehension", EVT,
     ('            features = sorted(self.h5file["events"].keys())',
      '            features = sorted(\n'
      '                [ft for ft in self.h5file["events"].keys()])')),
]

# round-5 seeded changes (value-level slips, error paths)
MUTANTS = list(MUTANTS) + [
    ("pixel size looked up in the wrong section", CHK,
     ('            ["imaging", "pixel size"],\n', '            ["setup", "pixel size"],\n'),
     "R13.1"),
    ("a consulted key is misspelled", CHK,
     ('        if "laser count" in self.ds.config["fluorescence"]:',
      '        if "lasers count" in self.ds.config["fluorescence"]:'),
     "R13.1"),
    ("exit status returned after the try instead of in finally", CLI,
     ("    finally:\n        # return sys.exit for testing (monkeypatched)\n"
      "        return sys.exit(exit_status)",
      "    # return sys.exit for testing (monkeypatched)\n"
      "    return sys.exit(exit_status)"), "R13.2"),
    ("time hidden up to and including the fixing release", FDEF,
     ('        if parse_version(dclab_version) < parse_version("0.47.6"):',
      '        if parse_version(dclab_version) <= parse_version("0.47.6"):'),
     "R13.1"),
]
TWINS = list(TWINS) + [
    ("generic handler re-raises (finally still decides the exit code)", CLI,
     ("        common.print_violation(f\"{e.__class__.__name__}: "
      "{', '.join(e.args)}\")",
      "        common.print_violation(f\"{e.__class__.__name__}: "
      "{', '.join(e.args)}\")\n        raise")),
    ("generic handler formats the arguments with str()", CLI,
     ("{', '.join(e.args)}", "{', '.join(str(a) for a in e.args)}")),
    ("greater-zero keys sorted by section then key", CHK,
     ('            ["imaging", "frame rate"],\n'
      '            ["imaging", "pixel size"],\n'
      '            ["setup", "channel width"],\n'
      '            ["setup", "flow rate"],\n',
      '            ["setup", "flow rate"],\n'
      '            ["setup", "channel width"],\n'
      '            ["imaging", "pixel size"],\n'
      '            ["imaging", "frame rate"],\n')),
]

# round-6 refactorings (reduced; the full diffs are replayed from
# campaign/refactorings_round6 by the thorough tier)
TWINS = list(TWINS) + [
    ("writer: protected body of __exit__ in a helper method", WR,
     [("        try:\n            self.h5file.require_group(\"events\")\n"
       "            if len(self.h5file[\"events\"]):\n"
       "                self.rectify_metadata()\n"
       "            self.version_brand()\n",
       "        try:\n            self._finalize_h5file()\n"),
      ("    @staticmethod\n    def get_best_nd_chunks(",
       "    def _finalize_h5file(self):\n"
       "        self.h5file.require_group(\"events\")\n"
       "        if len(self.h5file[\"events\"]):\n"
       "            self.rectify_metadata()\n"
       "        self.version_brand()\n\n"
       "    @staticmethod\n    def get_best_nd_chunks(")]),
    ("CLI: exit codes as module constants", CLI,
     [("def verify_dataset(path_in=None):",
       "EXIT_ERROR = 4\n\n\ndef verify_dataset(path_in=None):"),
      ("    exit_status = 4\n", "    exit_status = EXIT_ERROR\n"),
      ("        return sys.exit(4)", "        return sys.exit(EXIT_ERROR)")]),
]
MUTANTS = list(MUTANTS) + [
    ("writer: helper of __exit__ forgets to rectify", WR,
     [("        try:\n            self.h5file.require_group(\"events\")\n"
       "            if len(self.h5file[\"events\"]):\n"
       "                self.rectify_metadata()\n"
       "            self.version_brand()\n",
       "        try:\n            self._finalize_h5file()\n"),
      ("    @staticmethod\n    def get_best_nd_chunks(",
       "    def _finalize_h5file(self):\n"
       "        self.h5file.require_group(\"events\")\n"
       "        self.version_brand()\n\n"
       "    @staticmethod\n    def get_best_nd_chunks(")], "R13.3"),
]

# round-6 seeded changes
MUTANTS = list(MUTANTS) + [
    ("mandatory key overwritten by its neighbour", CHK,
     ('        "roi position y",\n', '        "roi position x",\n'), "R13.1"),
    ("temperature test looks at the first ten values only", CHK,
     ("            if np.allclose(temp[:10], 0) and np.allclose(temp, 0):",
      "            if np.allclose(temp[:10], 0):"), "R13.1"),
    ("temperature test never fires", CHK,
     ("            if np.allclose(temp[:10], 0) and np.allclose(temp, 0):",
      "            if np.allclose(temp[:10], 1) and np.allclose(temp, 0):"),
     "R13.1"),
]
TWINS = list(TWINS) + [
    ("temperature test without the head shortcut", CHK,
     ("            if np.allclose(temp[:10], 0) and np.allclose(temp, 0):",
      "            if np.allclose(temp, 0):")),
]

# round-7 seeded change (object lifecycle: where the accumulator lives)
_CHK_ACC = ("        cues = []\n"
            "        funcs = IntegrityChecker.__dict__\n")
_CHK_RET = "        return sorted(self.warn_cues + cues)\n"
MUTANTS = list(MUTANTS) + [
    ("collector accumulates into the checker's warn_cues", CHK,
     [(_CHK_ACC, "        cues = self.warn_cues\n"
                 "        funcs = IntegrityChecker.__dict__\n"),
      (_CHK_RET, "        return sorted(cues)\n")], "R13.4"),
    ("collector extends the checker's warn_cues and returns them", CHK,
     [("                cues += funcs[ff](self, **kwargs)\n",
       "                self.warn_cues.extend(funcs[ff](self, **kwargs))\n"),
      (_CHK_RET, "        return sorted(self.warn_cues)\n")], "R13.4"),
    ("check_empty accumulates into a mutable default", CHK,
     ("    def check_empty(self, **kwargs):\n"
      "        \"\"\"The dataset should contain events\"\"\"\n"
      "        cues = []\n",
      "    def check_empty(self, cues=[], **kwargs):\n"
      "        \"\"\"The dataset should contain events\"\"\"\n"), "R13.4"),
    ("check_metadata_missing updates the module-level key table", CHK,
     ("        important = copy.deepcopy(IMPORTANT_KEYS)\n",
      "        important = IMPORTANT_KEYS\n"), "R13.4"),
]
TWINS = list(TWINS) + [
    ("collector starts from a per-call copy of the warning cues", CHK,
     [(_CHK_ACC, "        cues = list(self.warn_cues)\n"
                 "        funcs = IntegrityChecker.__dict__\n"),
      (_CHK_RET, "        return sorted(cues)\n")]),
    ("collector extends a list() accumulator", CHK,
     [(_CHK_ACC, "        cues = list()\n"
                 "        funcs = IntegrityChecker.__dict__\n"),
      ("                cues += funcs[ff](self, **kwargs)\n",
       "                cues.extend(funcs[ff](self, **kwargs))\n")]),
    ("check_metadata_missing: key table copied into a new dict", CHK,
     ("        important = copy.deepcopy(IMPORTANT_KEYS)\n",
      "        important = dict(copy.deepcopy(IMPORTANT_KEYS))\n")),
]
