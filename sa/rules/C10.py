"""C10 – command-line tasks never leave a partial file at the output path.

Rules (see DESIGN.md §2 C10):
R10.1 who-may-write: every write-capable sink in a task (or in a helper of
      dclab/cli it hands a path/handle to) receives a value derived from the
      temporary path only; input and output paths never reach a write-capable
      or destructive sink; every function of dclab/cli that contains a
      write-capable sink is one of the analysed functions.
R10.2 rename is last: each ``temp.rename(out)`` is outside ``finally`` /
      ``except`` and outside every ``with`` that holds a writer on the temp
      file; after it no write-capable sink on the same temp binding is
      reachable; every writer is opened as a context manager (closed on all
      exits); from every write-capable sink every normal path to the exit
      passes the rename (or the head of the loop that renames every element
      unconditionally).
R10.3 setup_task_paths removes stale output and temp files and derives the
      temp name with a suffix ending in '~'.
R10.5 no aliasing: the destructive calls of setup_task_paths on output /
      temp paths are dominated by a disjointness test against the inputs.
"""
from __future__ import annotations

import ast

from ..cfg import CFG, branch_facts
from ..core import (AnalysisError, ancestors, call_name, const_str, dotted,
                    enclosing, kwarg, last_attr, names_in, qualname, short,
                    txt, walk)
from ..roles import Roles

ASSUMPTIONS = [
    "NOT decided: POSIX rename atomicity, HDF5 flushing on close, behaviour "
    "under SIGKILL inside rename, byte identity of the input (decided only: "
    "no write-capable/destructive sink ever receives the input path).",
    "Roles of task parameters (which parameter is the input, which the "
    "output) are a table in the rule, confirmed by reading.",
]

CLI = "dclab/cli/"
TASKS = {
    "dclab/cli/task_compress.py::compress": (["path_in"], ["path_out"]),
    "dclab/cli/task_condense.py::condense": (["path_in"], ["path_out"]),
    "dclab/cli/task_repack.py::repack": (["path_in"], ["path_out"]),
    "dclab/cli/task_join.py::join": (["paths_in"], ["path_out"]),
    "dclab/cli/task_split.py::split": (["path_in"], ["path_out"]),
    "dclab/cli/task_tdms2rtdc.py::tdms2rtdc": (["path_tdms"], ["path_rtdc"]),
}
SETUP = ("dclab/cli/common.py", "setup_task_paths")
TUPLE_CALLS = {"common.setup_task_paths": ("IN", "OUT", "TEMP"),
               "setup_task_paths": ("IN", "OUT", "TEMP")}
READ_MODES = {"r"}


def classify(call):
    """-> (kind, [path exprs], extra) with kind in write|destroy|rename|read
    or None"""
    name = call_name(call) or ""
    attr = last_attr(call)
    if name in ("h5py.File", "File"):
        mode = kwarg(call, "mode", 1)
        p = kwarg(call, "name", 0)
        if mode is None or (const_str(mode) in READ_MODES):
            return "read", [p], None
        return "write", [p], "h5py.File mode=" + txt(mode)
    if name.split(".")[-1] == "RTDCWriter":
        return "write", [kwarg(call, "path_or_h5file", 0)], "RTDCWriter"
    if isinstance(call.func, ast.Attribute) and attr in (
            "hdf5", "tsv", "fcs", "avi") and (dotted(call.func.value) or ""
                                              ).endswith("export"):
        return "write", [kwarg(call, "path", 0)], "export." + attr
    if name == "open":
        mode = kwarg(call, "mode", 1)
        m = const_str(mode) if mode is not None else "r"
        if m is None or any(c in m for c in "wax+"):
            return "write", [kwarg(call, "file", 0)], "open"
        return "read", [kwarg(call, "file", 0)], None
    if isinstance(call.func, ast.Attribute):
        if attr in ("write_text", "write_bytes", "touch"):
            return "write", [call.func.value], "Path." + attr
        if attr in ("unlink", "rmdir") and not call.args:
            return "destroy", [call.func.value], "Path." + attr
        if attr == "open" and (call.args or call.keywords):
            mode = kwarg(call, "mode", 0)
            m = const_str(mode) if mode is not None else "r"
            if m is None or any(c in m for c in "wax+"):
                return "write", [call.func.value], "Path.open"
        if attr in ("rename", "replace") and len(call.args) == 1 \
                and not call.keywords:
            return "rename", [call.func.value, call.args[0]], "Path." + attr
    if name in ("os.remove", "os.unlink", "shutil.rmtree"):
        return "destroy", [kwarg(call, "path", 0)], name
    if name in ("os.rename", "os.replace"):
        return "rename", [kwarg(call, "src", 0), kwarg(call, "dst", 1)], name
    if name in ("shutil.move",):
        # not atomic: when the rename fails it falls back to copying into
        # the destination – a partial file under the final name
        return "write", [kwarg(call, "dst", 1)], name + " (copies when the " \
            "rename fails)"
    if name in ("shutil.copy", "shutil.copy2", "shutil.copyfile"):
        return "write", [kwarg(call, "dst", 1)], name
    return None


def is_exists_guarded(call):
    """the destructive call is guarded by `<same path>.exists()` (comprehension
    `if`, enclosing `if` statement)"""
    recv = txt(call.func.value) if isinstance(call.func, ast.Attribute) \
        else None
    for a in ancestors(call):
        tests = []
        if isinstance(a, (ast.ListComp, ast.GeneratorExp, ast.SetComp)):
            for g in a.generators:
                tests += g.ifs
        elif isinstance(a, ast.If):
            tests.append(a.test)
        for t in tests:
            for n in ast.walk(t):
                if isinstance(n, ast.Call) and last_attr(n) in (
                        "exists", "is_file") and isinstance(
                        n.func, ast.Attribute) and txt(n.func.value) == recv:
                    return True
        if isinstance(a, (ast.FunctionDef,)):
            break
    return False


def resolve_cli_callee(repo, rel, call):
    """(rel, qualname) of a dclab/cli function the call resolves to"""
    name = call_name(call)
    if not name:
        return None
    if name.startswith("common."):
        f = repo.func(CLI + "common.py", name.split(".", 1)[1],
                      missing_ok=True)
        if f is not None:
            return CLI + "common.py", f
    elif "." not in name:
        f = repo.func(rel, name, missing_ok=True)
        if f is not None:
            return rel, f
    return None


def analyse_function(ctx, repo, rel, func, seed, done, is_setup=False):
    key = (rel, func.name, tuple(sorted((k, tuple(sorted(v)))
                                        for k, v in seed.items())))
    if key in done:
        return
    done.add(key)
    # an ExitStack that only enters contexts reads like the `with` it
    # stands for
    from ..normalize import _cp, exitstack_to_with
    from ..core import link
    orig = func
    func = exitstack_to_with(_cp(orig))
    link(func)
    func.parent = getattr(orig, "parent", None)
    roles = Roles(func, seed, TUPLE_CALLS, _tuple_fields(repo),
                  _helper_roles(repo, rel))
    cfg = CFG(func)
    n_nodes, n_edges, n_x = cfg.count_paths_kinds()
    st = ctx.stats.setdefault("cfg", {})
    st[f"{rel}::{func.name}"] = {"nodes": n_nodes, "edges": n_edges,
                                 "exceptional_edges": n_x}
    sinks = []
    helper_renames = []
    for c in [n for n in walk(func) if isinstance(n, ast.Call)]:
        k = classify(c)
        if k is None:
            # helper of dclab/cli receiving a role-carrying value?
            arg_roles = {}
            res = resolve_cli_callee(repo, rel, c)
            if res is not None and res[1] is not func:
                crel, cfunc = res
                params = [a.arg for a in cfunc.args.args]
                for i, a in enumerate(c.args):
                    if i < len(params) and roles.of(a):
                        arg_roles[params[i]] = roles.of(a)
                for kw in c.keywords:
                    if kw.arg and roles.of(kw.value):
                        arg_roles[kw.arg] = roles.of(kw.value)
                if arg_roles and (crel, cfunc.name) != SETUP:
                    analyse_function(ctx, repo, crel, cfunc, arg_roles, done)
                    tp = _renaming_helper(cfunc, arg_roles)
                    if tp is not None:
                        # the helper moves temp to output on every normal
                        # path: the call is this function's rename
                        targ = None
                        for i, a in enumerate(c.args):
                            if i < len(params) and params[i] == tp:
                                targ = a
                        for kw in c.keywords:
                            if kw.arg == tp:
                                targ = kw.value
                        if targ is not None:
                            helper_renames.append((c, targ))
            continue
        sinks.append((c, k))

    renames = []
    writes = []
    for c, (kind, paths, extra) in sinks:
        r = [roles.of(p) for p in paths]
        if kind == "write":
            ok = r[0] == {"TEMP"}
            ctx.ob("R10.1", ok,
                   f"write-capable sink {extra} receives "
                   f"{txt(paths[0])} with role {sorted(r[0]) or 'unknown'}"
                   + ("" if ok else " – must be the temporary path only"),
                   node=c, label=f"write-sink {short(c, 60)}")
            if ok:
                writes.append(c)
        elif kind == "destroy":
            if is_setup:
                continue  # R10.3 / R10.5
            ok = not (r[0] & {"IN", "OUT"})
            ctx.ob("R10.1", ok,
                   f"destructive call {extra} on {txt(paths[0])} "
                   f"(role {sorted(r[0]) or 'none'})"
                   + ("" if ok else " – input/output path removed by a task"),
                   node=c, label=f"destroy {short(c, 60)}")
        elif kind == "rename":
            if not (r[0] | r[1]):
                continue  # unrelated (e.g. str.replace with one arg)
            ok = r[0] == {"TEMP"} and r[1] == {"OUT"}
            ctx.ob("R10.1", ok,
                   f"rename {txt(paths[0])} (role {sorted(r[0])}) -> "
                   f"{txt(paths[1])} (role {sorted(r[1])})"
                   + ("" if ok else " – must move temp to output"),
                   node=c, label=f"rename {short(c, 60)}")
            if ok:
                renames.append(c)
        elif kind == "read":
            rr = r[0]
            ok = "OUT" not in rr
            ctx.ob("R10.1", ok,
                   f"read-only open of {txt(paths[0])} role {sorted(rr)}",
                   node=c, label=f"read {short(c, 60)}", nontrivial=False)

    # every writer is a context manager (closed on all exits) – export.*
    # manages its own file
    for c in writes:
        kind, paths, extra = classify(c)
        if extra.startswith("export."):
            continue
        p = getattr(c, "parent", None)
        ok = isinstance(p, ast.withitem) and p.context_expr is c
        ctx.ob("R10.2", ok,
               f"writer {extra} on the temp file is "
               + ("a `with` context (closed on every exit)" if ok else
                  "not opened as a context manager – may be open at rename"),
               node=c, label=f"with-managed {short(c, 60)}")

    def temp_vars(call):
        kind, paths, extra = classify(call)
        return names_in(paths[0])

    temp_of = {id(rn): (rn.func.value if isinstance(rn.func, ast.Attribute)
                        else rn.args[0]) for rn in renames}
    for c, targ in helper_renames:
        renames.append(c)
        temp_of[id(c)] = targ
    for rn in renames:
        lab = f"rename-last {short(rn, 60)}"
        # (a) not in finally / except
        bad_ctx = None
        node = rn
        for a in ancestors(rn):
            if isinstance(a, ast.Try) and any(
                    node is s or _contains(s, rn) for s in a.finalbody):
                bad_ctx = "finally"
            if isinstance(a, ast.ExceptHandler):
                bad_ctx = "except handler"
            if isinstance(a, ast.FunctionDef):
                break
        ctx.ob("R10.2", bad_ctx is None,
               "rename outside finally/except" if bad_ctx is None else
               f"rename inside {bad_ctx}: runs after a failed write",
               node=rn, label=lab + " [ctx]")
        # (b) not nested in a with that holds a writer on TEMP
        open_w = None
        for a in ancestors(rn):
            if isinstance(a, (ast.With, ast.AsyncWith)):
                for it in a.items:
                    for c in walk(it.context_expr):
                        if c in writes:
                            open_w = c
            if isinstance(a, ast.FunctionDef):
                break
        ctx.ob("R10.2", open_w is None,
               "every writer context is closed before the rename"
               if open_w is None else
               f"rename while writer `{short(open_w, 50)}` is still open",
               node=rn, label=lab + " [closed]")
        # (c) nothing written to the same temp binding afterwards
        tv = names_in(temp_of[id(rn)])

        def rebinds(n):
            if n.ast is None:
                return False
            if n.kind in ("stmt",) and isinstance(
                    n.ast, (ast.Assign, ast.AugAssign, ast.AnnAssign)):
                tg = n.ast.targets if isinstance(n.ast, ast.Assign) \
                    else [n.ast.target]
                for t in tg:
                    if names_in(t) & tv and not isinstance(t, ast.Subscript):
                        return True
            if n.kind == "for" and names_in(n.ast.target) & tv:
                return True
            return False

        def is_write_same(n):
            if n.ast is None or n.kind in ("with_exit",):
                return False
            for c in _node_calls(n):
                if c in writes and (temp_vars(c) & tv):
                    return True
            return False
        late = None
        for rid in cfg.ids_of(_stmt_of(rn)):
            reach = cfg.reach([rid], avoid_node=rebinds)
            for i in reach:
                if is_write_same(cfg.nodes[i]):
                    late = cfg.nodes[i]
        ctx.ob("R10.2", late is None,
               "no write-capable sink on this temp binding is reachable "
               "after the rename" if late is None else
               f"write `{short(late.ast, 50)}` (line {late.line}) can run "
               f"after the rename – output would be modified in place",
               node=rn, label=lab + " [nothing-after]")

    # (e) write errors propagate: a handler that swallows exceptions around a
    # call on a writer / temp-file handle lets the task carry on and rename
    # an incomplete file
    writer_vars = set()
    for n in walk(func):
        if isinstance(n, (ast.With, ast.AsyncWith)):
            for it in n.items:
                if it.optional_vars is not None and any(
                        c in writes for c in walk(it.context_expr)):
                    writer_vars |= names_in(it.optional_vars)
    writer_vars |= {v for v, r in roles.roles.items() if r == {"TEMP"}}
    for tr in [n for n in walk(func) if isinstance(n, ast.Try)]:
        wcalls = []
        for st in tr.body:
            for c in walk(st):
                if isinstance(c, ast.Call) and isinstance(
                        c.func, ast.Attribute) and isinstance(
                        c.func.value, ast.Name) \
                        and c.func.value.id in writer_vars:
                    wcalls.append(c)
                elif isinstance(c, ast.Call) and c in writes:
                    wcalls.append(c)
        if not wcalls:
            continue
        for h in tr.handlers:
            ht = txt(h.type) if h.type is not None else "<bare>"
            broad = h.type is None or any(
                k in ht for k in ("Exception", "BaseException", "OSError",
                                  "IOError", "RuntimeError", "KeyError",
                                  "ValueError"))
            reraises = any(isinstance(x, ast.Raise) for x in walk(
                ast.Module(body=h.body, type_ignores=[])))
            ok = not broad or reraises
            ctx.ob("R10.6", ok,
                   f"handler `except {ht}` around a write re-raises"
                   if ok else
                   f"`except {ht}` swallows errors of "
                   f"`{short(wcalls[0], 50)}`: after a failed write the task "
                   f"carries on, closes the file and renames an incomplete "
                   f"result to the output path", node=h,
                   label=f"write errors propagate {short(wcalls[0], 40)}")
    # (e') a context manager that swallows exceptions (contextlib.suppress)
    # around a writer has the same effect as a swallowing handler: the
    # interrupted write is followed by the rename
    for wn in [n for n in walk(func) if isinstance(n, (ast.With,
                                                       ast.AsyncWith))]:
        sup = [it.context_expr for it in wn.items
               if isinstance(it.context_expr, ast.Call) and (call_name(
                   it.context_expr) or "").split(".")[-1] == "suppress"]
        if not sup:
            continue
        inner = [c for c in writes if any(
            c is x for it in wn.items for x in walk(it.context_expr))
            or any(c is x for st_ in wn.body for x in walk(st_))]
        uses = any(isinstance(x, ast.Name) and x.id in writer_vars
                   for st_ in wn.body for x in walk(st_))
        if inner or uses:
            ctx.ob("R10.6", False,
                   f"`{short(sup[0], 50)}` swallows exceptions raised while "
                   "the temporary file is written: the task carries on, the "
                   "writer finalises and the incomplete result is renamed "
                   "to the output path", node=sup[0],
                   label=f"no suppress around writers {short(sup[0], 30)}")
    # (d) from every write sink every normal path reaches a rename
    ren_stmts = {id(_stmt_of(r)) for r in renames}

    def is_rename_or_renaming_loop(n):
        if n.ast is None:
            return False
        if id(n.ast) in ren_stmts and n.kind == "stmt":
            return True
        if n.kind == "for":
            body_has = [s for s in n.ast.body if id(s) in ren_stmts]
            if body_has and _whole_collection(roles, n.ast.iter, "TEMP"):
                return True
        return False
    for w in (writes if "OUT" in {r for v in seed.values() for r in v}
              else []):
        ok = True
        for wid in cfg.ids_of(_stmt_of(w)):
            if wid not in cfg.reachable():
                continue
            if not cfg.must_pass(is_rename_or_renaming_loop, src=wid,
                                 avoid_edge=lambda s, lab, d: lab == "x"):
                ok = False
        ctx.ob("R10.2", ok,
               "every normal path from this writer to the function exit "
               "passes the rename" if ok else
               "a normal path from this writer reaches the exit without "
               "renaming temp to output (result stays under the temp name) ",
               node=w, label=f"reaches-rename {short(w, 60)}")
    return roles


def _tuple_fields(repo):
    """field names of the named tuple `setup_task_paths` returns (None for
    a plain tuple): read from its return statement and the namedtuple
    definition in cli/common.py"""
    rel, name = SETUP
    func = repo.func(rel, name)
    tree = repo.tree(rel)
    out = {}
    for r in [n for n in walk(func) if isinstance(n, ast.Return)]:
        v = r.value
        if isinstance(v, ast.Call) and isinstance(v.func, ast.Name):
            fields = None
            for st in tree.body:
                if isinstance(st, ast.Assign) and any(
                        isinstance(t, ast.Name) and t.id == v.func.id
                        for t in st.targets) and isinstance(
                        st.value, ast.Call) and (call_name(st.value) or ""
                                                 ).endswith("namedtuple") \
                        and len(st.value.args) >= 2:
                    fl = st.value.args[1]
                    if isinstance(fl, (ast.List, ast.Tuple)):
                        fields = [const_str(x) for x in fl.elts]
                    elif const_str(fl):
                        fields = const_str(fl).replace(",", " ").split()
                elif isinstance(st, ast.ClassDef) and st.name == v.func.id:
                    fields = [b.target.id for b in st.body
                              if isinstance(b, ast.AnnAssign)
                              and isinstance(b.target, ast.Name)]
            if not fields or len(fields) != 3 or None in fields:
                raise AnalysisError("setup_task_paths returns "
                                    f"`{short(v, 40)}`: not a recognised "
                                    "named tuple of three fields")
            # the order of (input, output, temporary) is decided by the
            # model evaluation of the set-up; here: field name per position
            order = [None, None, None]
            for i, a in enumerate(v.args):
                order[i] = fields[i]
            for kw in v.keywords:
                if kw.arg in fields:
                    order[fields.index(kw.arg)] = kw.arg
            if None in order:
                raise AnalysisError("setup_task_paths: named tuple built "
                                    "with missing fields")
            for k in TUPLE_CALLS:
                out[k] = list(fields)
    return out


def _helper_roles(repo, rel):
    """roles of the value a small helper of dclab/cli returns (e.g.
    ``common.get_temp_path(po)`` = ``po.with_suffix('.rtdc~')``)"""
    def summ(call, roles):
        res = resolve_cli_callee(repo, rel, call)
        if res is None:
            return None
        crel, cfunc = res
        if (crel, cfunc.name) == SETUP:
            return None
        rets = [n for n in walk(cfunc) if isinstance(n, ast.Return)]
        body = [b for b in cfunc.body if not (
            isinstance(b, ast.Expr) and isinstance(b.value, ast.Constant))]
        if len(rets) != 1 or len(body) > 3 or rets[0].value is None:
            return None
        params = [a.arg for a in cfunc.args.args]
        seed = {}
        for i, a in enumerate(call.args):
            if i < len(params):
                seed[params[i]] = roles.of(a)
        for kw in call.keywords:
            if kw.arg in params:
                seed[kw.arg] = roles.of(kw.value)
        seed = {k: v for k, v in seed.items() if v}
        if not seed:
            return None
        inner = Roles(cfunc, seed)
        return inner.of(rets[0].value)
    return summ


def _renaming_helper(cfunc, arg_roles):
    """name of the parameter holding the temp path when every normal path
    through the helper `cfunc` renames (temp -> output), else None"""
    if not any(r == {"TEMP"} for r in arg_roles.values()) or not any(
            r == {"OUT"} for r in arg_roles.values()):
        return None
    roles = Roles(cfunc, arg_roles, TUPLE_CALLS)
    stmts = set()
    for c in [n for n in walk(cfunc) if isinstance(n, ast.Call)]:
        k = classify(c)
        if k and k[0] == "rename" and roles.of(k[1][0]) == {"TEMP"} \
                and roles.of(k[1][1]) == {"OUT"}:
            stmts.add(id(_stmt_of(c)))
    if not stmts:
        return None
    cfg = CFG(cfunc)
    if not cfg.must_pass(lambda n: n.ast is not None and n.kind == "stmt"
                         and id(n.ast) in stmts,
                         avoid_edge=lambda s, lab, d: lab == "x"):
        return None
    return [k for k, r in arg_roles.items() if r == {"TEMP"}][0]


def _whole_collection(roles, it, role):
    """the loop ``for … in it`` visits *every* element of a collection that
    carries `role`: the collection itself, through zip / enumerate / list /
    reversed / sorted, or by index ``range(len(X))``.  A slice or a filter
    visits a part (False: the elements left out are never renamed); any
    other shape mentioning the role cannot be classified."""
    if isinstance(it, ast.Name):
        return role in roles.of(it) or any(
            role in r for r in roles.elem_roles.get(it.id, ()))
    if isinstance(it, ast.Call):
        nm = call_name(it)
        if nm in ("zip", "enumerate", "list", "tuple", "reversed", "sorted",
                  "iter") and not [k for k in it.keywords
                                   if k.arg not in ("start", "key",
                                                    "reverse", "strict")]:
            return any(_whole_collection(roles, a, role) for a in it.args)
        if nm == "range" and len(it.args) == 1 and isinstance(
                it.args[0], ast.Call) and call_name(it.args[0]) == "len" \
                and len(it.args[0].args) == 1:
            return _whole_collection(roles, it.args[0].args[0], role)
    if isinstance(it, ast.Subscript) and isinstance(it.slice, ast.Slice):
        return False
    if isinstance(it, (ast.ListComp, ast.GeneratorExp)):
        if any(g.ifs for g in it.generators):
            return False
        return len(it.generators) == 1 and _whole_collection(
            roles, it.generators[0].iter, role)
    mentioned = set()
    for nmn in ast.walk(it):
        if isinstance(nmn, ast.Name):
            mentioned |= roles.of(nmn)
    if role in mentioned:
        raise AnalysisError(f"loop over `{short(it, 50)}`: cannot tell "
                            f"whether every {role.lower()} path is visited")
    return False


def _contains(root, node):
    return any(n is node for n in ast.walk(root))


def _stmt_of(node):
    n = node
    while not isinstance(n, ast.stmt):
        n = n.parent
    # with-item context expressions belong to the With statement node
    return n


def _node_calls(n):
    """Calls evaluated *at* this CFG node"""
    a = n.ast
    if n.kind in ("test",):
        roots = [a.test]
    elif n.kind == "for":
        roots = [a.iter]
    elif n.kind == "with_enter":
        roots = [it.context_expr for it in a.items]
    elif n.kind in ("with_exit", "handler"):
        roots = []
    else:
        roots = [a]
    out = []
    for r in roots:
        out += [c for c in walk(r) if isinstance(c, ast.Call)]
    return out


def run(ctx):
    repo = ctx.repo
    ctx.rule("R10.1", "who-may-write: write-capable sinks receive only the "
             "temp path; input/output never reach write/destroy sinks; "
             "renames move temp to output", minimum=17)
    ctx.rule("R10.2", "rename is last: outside finally/except, after all "
             "writer contexts closed, nothing written afterwards, every "
             "writer context-managed, every writer path reaches the rename",
             minimum=30)
    ctx.rule("R10.3", "setup_task_paths removes stale output/temp files and "
             "derives temp with a '~' suffix", minimum=4)
    ctx.rule("R10.5", "destructive calls on output/temp paths are dominated "
             "by a disjointness test against the input paths; names derived "
             "from the input name differ from it", minimum=3)
    ctx.rule("R10.6", "errors of writes propagate: no swallowing handler "
             "around writer calls, the writer's __exit__ re-raises",
             minimum=2)
    done = set()
    analysed = set()
    for key, (ins, outs) in TASKS.items():
        rel, q = key.split("::")
        func = repo.func(rel, q)
        params = {a.arg for a in func.args.args + func.args.kwonlyargs}
        for p in ins + outs:
            if p not in params:
                raise AnalysisError(f"{key}: parameter {p} vanished")
        seed = {p: {"IN"} for p in ins}
        seed.update({p: {"OUT"} for p in outs})
        analyse_function(ctx, repo, rel, func, seed, done)
    for (rel, name, _) in done:
        analysed.add((rel, name))

    # who-may-write, whole dclab/cli: any function with a write-capable or
    # destructive sink must have been analysed
    for rel in repo.files(CLI):
        for q, f in repo.all_functions(rel):
            has = [c for c in walk(f) if isinstance(c, ast.Call)
                   and (classify(c) or (None,))[0] in ("write", "destroy",
                                                      "rename")]
            if not has:
                continue
            if (rel, f.name) == SETUP:
                continue
            ok = (rel, f.name) in analysed
            ctx.ob("R10.1", ok,
                   f"function with {len(has)} write/destroy/rename sink(s) is "
                   + ("covered by the task analysis" if ok else
                      "NOT reached from an analysed task with a known role "
                      "– new task or helper outside the protocol"),
                   node=f, label="covered-by-analysis")

    check_setup(ctx, repo)
    check_derived_names(ctx, repo)
    check_writer_exit(ctx, repo)
    check_write_path_handlers(ctx, repo)
    check_exit_methods(ctx, repo)


def check_derived_names(ctx, repo):
    """Tasks that derive output names from the input name (split) do not
    pass through setup_task_paths' alias guard: every such name must differ
    from the input's (something between the stem and the suffix)."""
    n_checked = 0
    for key, (ins, outs) in TASKS.items():
        rel, q = key.split("::")
        func = repo.func(rel, q)
        uses_setup = any(call_name(c) in TUPLE_CALLS for c in walk(func)
                         if isinstance(c, ast.Call))
        for js in [n for n in walk(func) if isinstance(n, ast.JoinedStr)]:
            vals = js.values
            for i, v in enumerate(vals):
                if isinstance(v, ast.FormattedValue) and isinstance(
                        v.value, ast.Attribute) and v.value.attr in (
                        "stem", "name") and isinstance(
                        v.value.value, ast.Name) \
                        and v.value.value.id in ins:
                    # is this string used to build a path (left operand `/`)?
                    par = getattr(js, "parent", None)
                    if not (isinstance(par, ast.BinOp)
                            and isinstance(par.op, ast.Div)):
                        continue
                    rest = vals[i + 1:]
                    distinct = any(isinstance(x, ast.FormattedValue)
                                   for x in rest) or (
                        rest and isinstance(rest[0], ast.Constant)
                        and not str(rest[0].value).startswith(".rtdc")
                        and str(rest[0].value) not in ("",))
                    n_checked += 1
                    ctx.ob("R10.5", bool(distinct) or uses_setup,
                           "output name derived from the input name carries "
                           "an extra part (cannot be the input itself)"
                           if distinct or uses_setup else
                           f"output name `{short(js, 40)}` can equal the "
                           f"input's name: with the default output directory "
                           f"the final rename replaces the input file",
                           node=js, label=f"derived name {short(js, 40)}")
    ctx.stat("R10.5 derived output names checked", n_checked)


WRITE_PATH = ("dclab/rtdc_dataset/copier.py", "dclab/rtdc_dataset/writer.py",
              "dclab/rtdc_dataset/export.py")
_H5_WRITE_ATTRS = {"create_dataset", "create_group", "require_group",
                   "require_dataset", "copy", "resize", "write_direct",
                   "create_virtual_dataset", "flush"}
_BROAD = ("Exception", "BaseException", "OSError", "IOError", "RuntimeError",
          "KeyError", "ValueError", "TypeError")


def _write_ops(stmts, local_arrays):
    """operations in `stmts` that put data into an HDF5 object or go
    through the writer: subscript stores into non-local containers, h5py
    creation/copy calls, attrs stores, store_*/write_* calls, copier calls"""
    out = []
    for st in stmts:
        for n in walk(st):
            if isinstance(n, (ast.Assign, ast.AugAssign)):
                tgts = n.targets if isinstance(n, ast.Assign) else [n.target]
                for t in tgts:
                    if isinstance(t, ast.Subscript):
                        base = t.value
                        while isinstance(base, (ast.Subscript, ast.Attribute)):
                            if isinstance(base, ast.Attribute) \
                                    and base.attr == "attrs":
                                break
                            base = base.value
                        if isinstance(base, ast.Name) \
                                and base.id in local_arrays:
                            continue
                        out.append(n)
            elif isinstance(n, ast.Call):
                a = last_attr(n)
                nm = (call_name(n) or "").split(".")[-1]
                if a in _H5_WRITE_ATTRS or (a or nm).startswith(
                        ("store_", "write_")) or nm in (
                        "rtdc_copy", "h5ds_copy", "basin_definition_copy",
                        "store_filtered_feature"):
                    out.append(n)
    return out


def _swallowing_handlers(tr):
    out = []
    for h in tr.handlers:
        ht = txt(h.type) if h.type is not None else "<bare>"
        broad = h.type is None or any(k in ht for k in _BROAD)
        rer = any(isinstance(x, ast.Raise) for x in walk(
            ast.Module(body=h.body, type_ignores=[])))
        if broad and not rer:
            out.append((h, ht))
    return out


def check_write_path_handlers(ctx, repo):
    """R10.6 for the library functions that write on behalf of the tasks
    (copier, writer, export): an exception handler around an operation that
    writes to the destination must re-raise – otherwise the task finishes,
    closes the temp file and renames an incomplete result."""
    # positive control: the detector fires on a known-bad shape
    ctl = ast.parse("def f(dst, src):\n    try:\n        dst[0] = src[0]\n"
                    "    except OSError:\n        pass\n").body[0]
    from ..core import link as _link
    _link(ctl)
    t0 = [n for n in walk(ctl) if isinstance(n, ast.Try)][0]
    if not (_write_ops(t0.body, set()) and _swallowing_handlers(t0)):
        raise AnalysisError("R10.6: write-path detector lost its positive "
                            "control")
    n_fun = n_try = 0
    for rel in WRITE_PATH:
        for q, f in repo.all_functions(rel):
            n_fun += 1
            local_arrays = set()
            for n in walk(f):
                if isinstance(n, ast.Assign) and len(n.targets) == 1 \
                        and isinstance(n.targets[0], ast.Name) \
                        and isinstance(n.value, (ast.Call, ast.List,
                                                 ast.Dict, ast.ListComp)):
                    cn = call_name(n.value) if isinstance(
                        n.value, ast.Call) else "literal"
                    if cn == "literal" or (cn or "").startswith(
                            ("np.", "numpy.")) or cn in ("dict", "list",
                                                         "set"):
                        local_arrays.add(n.targets[0].id)
            for tr in [n for n in walk(f) if isinstance(n, ast.Try)]:
                ops = _write_ops(tr.body, local_arrays)
                if not ops:
                    continue
                n_try += 1
                sw = _swallowing_handlers(tr)
                ctx.ob("R10.6", not sw,
                       f"{q}: handlers around `{short(ops[0], 40)}` re-raise"
                       if not sw else
                       f"{q}: `except {sw[0][1]}` swallows errors of the "
                       f"write `{short(ops[0], 50)}`: the task goes on, "
                       f"closes the temp file and renames an incomplete "
                       f"result to the output path",
                       node=sw[0][0] if sw else tr,
                       key=f"{rel}::{q}::write errors propagate "
                           f"{short(ops[0], 40)}")
    ctx.stat("R10.6 write-path functions scanned", n_fun)
    ctx.stat("R10.6 write-path try blocks around writes", n_try)
    if n_fun < 25:
        raise AnalysisError(f"R10.6: only {n_fun} write-path functions "
                            f"found")


def check_exit_methods(ctx, repo):
    """No context manager of the library suppresses exceptions: the tasks
    hold datasets and writers in `with` blocks; an `__exit__` that returns a
    true value swallows the I/O error raised inside the block, the task
    carries on and renames an incomplete file."""
    # which methods of the package can return a value
    returning = {}
    exits = []
    for rel in sorted(repo.files("dclab/")):
        try:
            fns = list(repo.all_functions(rel))
        except AnalysisError:
            continue
        for q, f in fns:
            val = any(isinstance(n, ast.Return) and n.value is not None
                      and not (isinstance(n.value, ast.Constant)
                               and n.value.value in (None, False))
                      for n in walk(f))
            returning.setdefault(f.name, []).append((rel, q, val))
            if f.name == "__exit__":
                exits.append((rel, q, f))
    if len(exits) < 2:
        raise AnalysisError(f"only {len(exits)} __exit__ methods found")
    for rel, q, f in exits:
        bad = None
        for n in walk(f):
            if not isinstance(n, ast.Return) or n.value is None:
                continue
            v = n.value
            if isinstance(v, ast.Constant):
                if v.value:
                    bad = (n, f"returns the true value {v.value!r}")
                continue
            if isinstance(v, ast.Call) and isinstance(
                    v.func, ast.Attribute) and isinstance(
                    v.func.value, ast.Name) and v.func.value.id == "self":
                impls = [x for x in returning.get(v.func.attr, [])]
                if not impls:
                    raise AnalysisError(f"{q}: `{short(v, 40)}` cannot be "
                                        f"resolved")
                vals = [x for x in impls if x[2]]
                if vals:
                    bad = (n, f"returns `{short(v, 30)}`, and "
                              f"{vals[0][1]} ({vals[0][0]}) returns a value")
                continue
            if isinstance(v, ast.Call) and "super" in txt(v.func) and \
                    last_attr(v) == "__exit__":
                continue
            raise AnalysisError(f"{q}: return value `{short(v, 40)}` of "
                                f"__exit__ cannot be classified")
        ctx.ob("R10.6", bad is None,
               f"{q} lets exceptions of the with-block propagate"
               if bad is None else
               f"{q} {bad[1]}: exceptions raised inside the with-block are "
               f"suppressed – a failed write goes unnoticed and the task "
               f"renames an incomplete file", node=bad[0] if bad else f,
               key=f"{rel}::{q}::exit does not suppress")


def check_writer_exit(ctx, repo):
    """The writer's context exit must let exceptions of its close-time
    writes propagate: no `return` inside `finally`, no truthy return."""
    rel = "dclab/rtdc_dataset/writer.py"
    ex = repo.func(rel, "RTDCWriter.__exit__")
    bad = None
    for n in walk(ex):
        if isinstance(n, ast.Return):
            for a in ancestors(n):
                if isinstance(a, ast.Try) and any(
                        _contains(s_, n) for s_ in a.finalbody):
                    bad = (n, "a `return` inside `finally` discards the "
                              "in-flight exception of the close-time writes "
                              "(rectify_metadata / version_brand)")
                if isinstance(a, ast.FunctionDef):
                    break
            if bad is None and n.value is not None and txt(n.value) in (
                    "True", "1"):
                bad = (n, "__exit__ returns a true value: exceptions raised "
                          "inside the with-block are suppressed")
    ctx.ob("R10.6", bad is None,
           "RTDCWriter.__exit__ lets exceptions propagate" if bad is None
           else bad[1] + ": the task renames an unfinished temp file",
           node=bad[0] if bad else ex, label="writer exit propagates errors")
    # handlers inside __exit__ re-raise
    for tr in [n for n in walk(ex) if isinstance(n, ast.Try)]:
        for h in tr.handlers:
            rer = any(isinstance(x, ast.Raise) for x in walk(
                ast.Module(body=h.body, type_ignores=[])))
            ctx.ob("R10.6", rer, "handler in __exit__ re-raises" if rer else
                   "handler in RTDCWriter.__exit__ swallows the error",
                   node=h, label="writer exit handler re-raises")


def check_setup(ctx, repo):
    """`setup_task_paths`, loaded from its syntax tree, evaluated on a model
    file system in which several spellings can denote one file (symbolic
    link, `sub/..` detour): what is refused, what is removed, what is
    returned (sa/lib_C10.py)."""
    import itertools
    from ..lib_C10 import FS, MPath, Model
    rel, name = SETUP
    func = repo.func(rel, name)
    params = [a.arg for a in func.args.args]
    if params[:2] != ["paths_in", "paths_out"]:
        raise AnalysisError("setup_task_paths signature changed: " +
                            str(params))
    m = Model(repo)
    fails = {}

    def fail(key, msg):
        if "'MPath'" in msg and ("AttributeError" in msg
                                 or "TypeError" in msg):
            raise AnalysisError("check_setup: the model of pathlib.Path "
                                "lacks what the code uses: " + msg[:300])
        fails.setdefault(key, msg)
    alias = {"/d/link.rtdc": "/d/in.rtdc", "/d/link2.rtdc": "/d/in2.rtdc",
             "/d/tlink.rtdc~": "/d/in.rtdc",
             "/d/olink.rtdc": "/d/out.rtdc"}
    base_files = {"/d/in.rtdc", "/d/in2.rtdc", "/d/other.rtdc",
                  "/d/other.rtdc~", "/d/third.rtdc~"}
    ins = [("/d/in.rtdc",), ("/d/in.rtdc", "/d/in2.rtdc"),
           ("/d/sub/../in.rtdc",)]
    outs = ["/d/out.rtdc", "/d/out", "/d/link.rtdc", "/d/link2.rtdc",
            "/d/sub/../in.rtdc", "/d/in.rtdc", "/d/in", "/d/in2",
            "/d/tlink.rtdc", "/d/e/out.rtdc", "/d/olink.rtdc",
            "/d/out.v2.rtdc", "/d/OUT.RTDC",
            # an output named like a temporary file: the working path must
            # still differ from the path the result appears under
            "/d/out.rtdc~"]
    stale = [(), ("out",), ("temp",), ("out", "temp")]
    n = 0

    def canon_out(o):
        return o if o.endswith(".rtdc") else o + ".rtdc"

    def one(inputs, outputs, st, as_list_in, as_list_out, suffixes):
        nonlocal n
        fs = FS(base_files, alias)
        for i in inputs:
            fs.files.add(fs.canon(i))
        outs2 = [canon_out(o) for o in outputs]
        for o in outs2:
            if "out" in st:
                fs.files.add(fs.canon(o))
            if "temp" in st:
                fs.files.add(fs.canon(o + "~"))
        before = set(fs.files)
        cin = {fs.canon(i) for i in inputs}
        a_in = list(inputs) if as_list_in else inputs[0]
        a_out = list(outputs) if as_list_out else outputs[0]
        r = m.call(fs, a_in, a_out, suffixes)
        n += 1
        what = (f"inputs {a_in!r}, outputs {a_out!r}, existing "
                f"{sorted(before - base_files) or 'no stale files'}"
                + (f" (links: {', '.join(k + ' -> ' + v for k, v in alias.items() if k in outputs or k[:-1] in outs2)})"
                   if any(k in outputs or k[:-1] in outs2 for k in alias)
                   else ""))
        removed = set(m.fs.removed)
        lost_inputs = cin - m.fs.files
        if lost_inputs:
            fail("inputs are never removed", f"{what}: the input "
                 f"{sorted(lost_inputs)} is deleted by the set-up")
        foreign = removed - {fs.canon(o) for o in outs2} - {
            fs.canon(o + "~") for o in outs2}
        bad_suffix = [i for i in inputs if MPath(fs, i).suffix
                      not in suffixes]
        clash_out = [o for o in outs2 if fs.canon(o) in cin]
        if r[0] == "raise" and r[1] == "ValueError":
            if removed:
                fail("refusal removes nothing", f"{what}: refused with "
                     f"ValueError after removing {sorted(removed)}")
            clash_temp = [o for o in outs2 if fs.canon(o + "~") in cin]
            if not (bad_suffix or clash_out or clash_temp):
                fail("legitimate paths accepted", f"{what}: refused "
                     f"({r[2][:80]}) although no output or temporary path "
                     "denotes an input")
            return
        if r[0] != "ok":
            fail("evaluates", f"{what}: -> {r!r}")
            return
        if bad_suffix:
            fail("input suffix checked", f"{what}: input suffix "
                 f"{MPath(fs, bad_suffix[0]).suffix!r} accepted, allowed "
                 f"{suffixes}")
            return
        res = r[1]
        if not (isinstance(res, tuple) and len(res) == 3):
            fail("return shape", f"{what}: returned {res!r}")
            return
        rin, rout, rtemp = res
        shape_ok = (isinstance(rin, list) == as_list_in
                    and isinstance(rout, list) == as_list_out
                    and isinstance(rtemp, list) == as_list_out)
        lin = rin if isinstance(rin, list) else [rin]
        lout = rout if isinstance(rout, list) else [rout]
        ltemp = rtemp if isinstance(rtemp, list) else [rtemp]
        same = [o for o, t in zip(lout, ltemp) if isinstance(o, MPath)
                and isinstance(t, MPath) and fs.canon(o.s) == fs.canon(t.s)]
        if same:
            fail("temp derivation", f"{what}: the temporary path equals the "
                 f"output path {same[0].s}: the task writes its data "
                 "directly under the name the result appears under (a "
                 "fault leaves a partial file there, the final rename is a "
                 "rename onto itself)")
            return
        if not shape_ok or not all(isinstance(x, MPath)
                                   for x in lin + lout + ltemp) \
                or [x.s for x in lin] != list(inputs) \
                or [x.s for x in lout] != outs2 or len(ltemp) != len(lout):
            fail("return shape", f"{what}: returned {res!r}, expected "
                 f"(inputs, outputs with suffix .rtdc, one temporary path "
                 f"per output) as {'lists' if as_list_out else 'paths'}")
            return
        if clash_out:
            fail("aliasing output refused", f"{what}: accepted although the "
                 f"output {clash_out[0]} denotes the input "
                 f"{fs.canon(clash_out[0])}" + (
                     f"; the set-up removed {sorted(removed & cin)}"
                     if removed & cin else ""))
        for o, t in zip(lout, ltemp):
            if fs.canon(t.s) in cin:
                fail("aliasing output refused", f"{what}: accepted although "
                     f"the temporary path {t.s} denotes the input "
                     f"{fs.canon(t.s)} (the task would write into its "
                     "input)")
            if not (t.parent == o.parent and t.name.endswith("~")
                    and t.s != o.s):
                fail("temp derivation", f"{what}: temporary path {t.s} for "
                     f"output {o.s}: expected a sibling of the output whose "
                     "name ends in '~'")
        if len({fs.canon(t.s) for t in ltemp}) != len(ltemp) or {
                fs.canon(t.s) for t in ltemp} & {fs.canon(o.s)
                                                 for o in lout}:
            fail("temp derivation", f"{what}: temporary paths "
                 f"{[t.s for t in ltemp]} are not distinct from each other "
                 "and from the outputs")
        if foreign:
            fail("removes own paths only", f"{what}: the set-up removed "
                 f"{sorted(foreign)}, which is neither an output nor a "
                 "temporary path of this task")
        left = [p for p in [fs.canon(o.s) for o in lout] + [
            fs.canon(t.s) for t in ltemp] if p in m.fs.files]
        if left and not clash_out:
            fail("stale files removed", f"{what}: {left} still exists "
                 "after the set-up (a stale output / temporary file of an "
                 "earlier run)")
    for inputs in ins:
        for o in outs:
            for st in stale:
                for li in (False, True):
                    if len(inputs) > 1 and not li:
                        continue
                    one(inputs, (o,), st, li, False, [".rtdc"])
            one(inputs, (o, "/d/second.rtdc"), ("out", "temp"), True, True,
                [".rtdc"])
            one(inputs, ("/d/first.rtdc", o), ("temp",), True, True,
                [".rtdc"])
    # an input that carries the temporary name of the output (suffix check
    # disabled by the caller), an unsupported suffix
    one(("/d/out.rtdc~",), ("/d/out.rtdc",), (), False, False,
        [".rtdc", ".rtdc~"])
    one(("/d/in.tdms",), ("/d/out.rtdc",), ("out",), False, False, [".rtdc"])
    one(("/d/in.rtdc", "/d/in.tdms"), ("/d/out.rtdc",), ("out",), True,
        False, [".rtdc"])
    ctx.stat("R10.3 model evaluations", n)
    if n < 150:
        raise AnalysisError(f"only {n} model evaluations of the set-up")
    obs = [
        ("R10.3", "evaluates", "the set-up evaluates on every model case"),
        ("R10.3", "input suffix checked", "inputs with an unsupported "
         "suffix are refused"),
        ("R10.3", "return shape", "returns (inputs, outputs, temporaries), "
         "lists for lists, outputs completed to .rtdc"),
        ("R10.3", "temp derivation", "every temporary path is a sibling of "
         "its output with a name ending in '~', distinct per output"),
        ("R10.3", "stale files removed", "stale output and temporary files "
         "are gone after the set-up"),
        ("R10.3", "removes own paths only", "nothing but the task's own "
         "output / temporary paths is removed"),
        ("R10.3", "legitimate paths accepted", "paths that denote no input "
         "are accepted"),
        ("R10.5", "inputs are never removed", "no input is ever deleted"),
        ("R10.5", "aliasing output refused", "an output or temporary path "
         "that denotes an input – by name, through a link, a `..` detour or "
         "the suffix completion – is refused"),
        ("R10.5", "refusal removes nothing", "a refusal happens before "
         "anything is removed"),
    ]
    for rule, key, good in obs:
        ok = key not in fails
        ctx.ob(rule, ok, good if ok else fails[key], node=func,
               label="model: " + key)
    unknown = set(fails) - {k for _, k, _ in obs}
    if unknown:
        raise AnalysisError(f"check_setup: unregistered verdicts {unknown}")


MUTANTS = [
    ("set-up removes every temp file of the directory (seeded C10_10)",
     "dclab/cli/common.py",
     ("    [pt.unlink() for pt in paths_temp if pt.exists()]\n",
      "    [pt.unlink() for pt in paths_temp if pt.exists()]\n"
      "    for pdir in set(po.parent for po in paths_out):\n"
      "        for pstale in pdir.glob(\"*.rtdc~\"):\n"
      "            pstale.unlink()\n"), "R10.3"),
    ("dataset __exit__ returns what close() returns (seeded C10_11)",
     "dclab/rtdc_dataset/core.py",
     ("    def __exit__(self, type, value, tb):\n        self.close()\n",
      "    def __exit__(self, type, value, tb):\n        return True\n"),
     "R10.6"),
    ("chunk copy swallows write errors (seeded C10_9)",
     "dclab/rtdc_dataset/copier.py",
     ("                    dst[chunk] = src[chunk]\n",
      "                    try:\n"
      "                        dst[chunk] = src[chunk]\n"
      "                    except OSError:\n"
      "                        print('could not copy chunk')\n"), "R10.6"),
    ("compress writes to final path", "dclab/cli/task_compress.py",
     ('h5py.File(path_temp, "w") as hc', 'h5py.File(path_out, "w") as hc'),
     "R10.1"),
    ("compress rename before log block", "dclab/cli/task_compress.py",
     [("    # Finally, rename temp to out\n    path_temp.rename(path_out)\n",
       ""),
      ("    # Write log file\n", "    path_temp.rename(path_out)\n"
       "    # Write log file\n")], "R10.2"),
    ("compress input opened writable", "dclab/cli/task_compress.py",
     ("h5py.File(path_in) as h5", 'h5py.File(path_in, "a") as h5'), "R10.1"),
    ("repack rename inside with", "dclab/cli/task_repack.py",
     [("    # Finally, rename temp to out\n    path_temp.rename(path_out)\n",
       ""),
      ('                  meta_prefix="")\n',
       '                  meta_prefix="")\n        path_temp.rename(path_out)\n'
       )], "R10.2"),
    ("condense rename in finally", "dclab/cli/task_condense.py",
     [("    # Finally, rename temp to out\n    path_temp.rename(path_out)\n",
       ""),
      ("    with warnings.catch_warnings(record=True) as w:\n"
       "        warnings.simplefilter(\"always\")\n        # We use",
       "    try:\n        pass\n    finally:\n"
       "        path_temp.rename(path_out)\n"
       "    with warnings.catch_warnings(record=True) as w:\n"
       "        warnings.simplefilter(\"always\")\n        # We use")],
     "R10.2"),
    ("join writer on output", "dclab/cli/task_join.py",
     ("with RTDCWriter(path_temp, compression_kwargs=cmp_kw) as hw:",
      "with RTDCWriter(path_out, compression_kwargs=cmp_kw) as hw:"),
     "R10.1"),
    ("join export to output", "dclab/cli/task_join.py",
     ("ds0.export.hdf5(path=path_temp,", "ds0.export.hdf5(path=path_out,"),
     "R10.1"),
    ("join conditional rename", "dclab/cli/task_join.py",
     ("    path_temp.rename(path_out)\n    if ret_path:",
      "    if ret_path:\n        path_temp.rename(path_out)\n    if ret_path:"),
     "R10.2"),
    ("split export to final", "dclab/cli/task_split.py",
     ("ds.export.hdf5(path=pt,", "ds.export.hdf5(path=pp,"), "R10.1"),
    ("split writer not context managed", "dclab/cli/task_split.py",
     ("        with RTDCWriter(pt, compression_kwargs=cmp_kw) as hw:\n",
      "        hw = RTDCWriter(pt, compression_kwargs=cmp_kw)\n"
      "        if True:\n"), "R10.2"),
    ("tdms2rtdc rename before logs", "dclab/cli/task_tdms2rtdc.py",
     [("                # Finally, rename temp to out\n"
       "                path_temp.rename(path_out)\n", ""),
      ("                # write logs\n",
       "                path_temp.rename(path_out)\n"
       "                # write logs\n")], "R10.2"),
    ("tdms2rtdc unlink input", "dclab/cli/task_tdms2rtdc.py",
     ("                path_temp.rename(path_out)\n",
      "                path_temp.rename(path_out)\n"
      "                path_in.unlink()\n"), "R10.1"),
    ("setup: stale output not removed", "dclab/cli/common.py",
     ("    [po.unlink() for po in paths_out if po.exists()]\n", ""),
     "R10.3"),
    ("setup: temp equals out", "dclab/cli/common.py",
     ('po.with_suffix(".rtdc~")', 'po.with_suffix(".rtdc")'), "R10.3"),
    ("setup: return order", "dclab/cli/common.py",
     ("return paths_in, paths_out, paths_temp",
      "return paths_in, paths_temp, paths_out"), "R10."),
    ("alias guard on non-canonical paths (seeded C10_1)",
     "dclab/cli/common.py",
     ("if pp.resolve() == pi.resolve():",
      "if pp.absolute() == pi.absolute():"), "R10.5"),
    ("condense swallows write errors (seeded C10_4)",
     "dclab/cli/task_condense.py",
     ("                hw.store_feature(feat=feat, data=ds[feat])\n",
      "                try:\n"
      "                    hw.store_feature(feat=feat, data=ds[feat])\n"
      "                except Exception as exc:\n"
      "                    warnings.warn(f\"skipped {feat}: {exc}\")\n"),
     "R10.6"),
    ("split names a single part like the input (seeded C10_5)",
     "dclab/cli/task_split.py",
     ('                pp = path_out / f"{path_in.stem}_{ii+1:04d}.rtdc"\n',
      '                if num_files > 1:\n'
      '                    pp = path_out / f"{path_in.stem}_{ii+1:04d}.rtdc"\n'
      '                else:\n'
      '                    pp = path_out / f"{path_in.stem}.rtdc"\n'),
     "R10.5"),
    ("writer exit returns inside finally (seeded C10_6)",
     "dclab/rtdc_dataset/writer.py",
     ("            # This is guaranteed to run if any exception is raised.\n"
      "            self.close()\n",
      "            # This is guaranteed to run if any exception is raised.\n"
      "            self.close()\n            return False\n"), "R10.6"),
    ("writer exit swallows errors", "dclab/rtdc_dataset/writer.py",
     ("        except BaseException:\n            raise\n",
      "        except BaseException:\n            pass\n"), "R10.6"),
    ("alias guard covers outputs only (seeded C08_2)",
     "dclab/cli/common.py",
     ("        for pp in paths_out + paths_temp:\n",
      "        for pp in paths_out:\n"), "R10.5"),
    ("alias guard removed (F10 returns)", "dclab/cli/common.py",
     ("            if pp.resolve() == pi.resolve():\n",
      "            if False:\n"), "R10.5"),
    ("new helper writes output", "dclab/cli/task_repack.py",
     ("def repack_parser():",
      "def _finalize(p):\n    with h5py.File(p, 'a') as h:\n"
      "        h.attrs['x'] = 1\n\n\ndef repack_parser():"), "R10.1"),
]

TWINS = [
    ("condense: handler that logs and re-raises",
     "dclab/cli/task_condense.py",
     ("                hw.store_feature(feat=feat, data=ds[feat])\n",
      "                try:\n"
      "                    hw.store_feature(feat=feat, data=ds[feat])\n"
      "                except Exception:\n"
      "                    print(f\"failed at {feat}\")\n"
      "                    raise\n")),
    ("split: other separator in the part name", "dclab/cli/task_split.py",
     ('f"{path_in.stem}_{ii+1:04d}.rtdc"', 'f"{path_in.stem}-part{ii+1:04d}.rtdc"')),
    ("setup: alias guard via samefile", "dclab/cli/common.py",
     ("if pp.resolve() == pi.resolve():",
      "if pp.exists() and pi.exists() and pp.samefile(pi):")),
    ("compress: local rename of temp var", "dclab/cli/task_compress.py",
     lambda s: s.replace("path_temp", "p_tmp")),
    ("repack: rename via os.replace", "dclab/cli/task_repack.py",
     [("path_temp.rename(path_out)", "os.replace(path_temp, path_out)"),
      ("import argparse\n", "import argparse\nimport os\n")]),
    ("join: early return form", "dclab/cli/task_join.py",
     ("    if ret_path:\n        return path_out\n\n\ndef join_parser",
      "    if not ret_path:\n        return None\n    return path_out\n\n\n"
      "def join_parser")),
    ("split: rename loop with index", "dclab/cli/task_split.py",
     ("    for pt, pp in zip(paths_temp, paths_gen):\n        pt.rename(pp)",
      "    for jj, pt in enumerate(paths_temp):\n"
      "        pt.rename(paths_gen[jj])")),
]
